"""Oracle: systemd's documented command-line rules for ExecStart= (systemd.service(5) "COMMAND LINES",
systemd.syntax(7) "Quoting"), written from the man pages, independent of /repo.

  * words are split at unquoted whitespace " \\t\\n\\r";
  * ' and " open a quoted section anywhere in a word; the matching quote closes it;
  * C-style escapes are processed outside and inside quotes:
      \\a \\b \\f \\n \\r \\t \\v \\\\ \\" \\' \\s   and  \\xHH (2 hex digits)  \\NNN (3 octal digits)
      \\uHHHH (4 hex digits)  \\UHHHHHHHH (8 hex digits); anything else is an error;
  * an argument that is textually a lone ";" (followed by whitespace or end) separates commands;
    "\\;" as a lone word is a literal ";";
  * after unescaping, "%%" becomes "%" and "%x" is a specifier (resolved by systemd, so not literal);
  * at execution time "$$" becomes "$" and "$NAME" / "${NAME}" are substituted.
Because unescaping happens before % and $ expansion, \\x25 / \\x24 do NOT protect % and $.
"""

WHITESPACE = " \t\n\r"
SIMPLE = {"a": "\a", "b": "\b", "f": "\f", "n": "\n", "r": "\r", "t": "\t", "v": "\v", "\\": "\\", '"': '"', "'": "'", "s": " "}
HEX = "0123456789abcdefABCDEF"


class ParseError(Exception):
    pass


def _unescape_at(s, i):
    """s[i] is the char after a backslash; -> (decoded text, next index)"""
    if i >= len(s):
        raise ParseError("trailing backslash")
    c = s[i]
    if c in SIMPLE:
        return SIMPLE[c], i + 1
    if c == "x":
        d = s[i + 1:i + 3]
        if len(d) != 2 or any(ch not in HEX for ch in d):
            raise ParseError("bad \\x escape")
        v = int(d, 16)
        if v == 0:
            raise ParseError("NUL")
        return ("byte", v), i + 3
    if c in "01234567":
        d = s[i:i + 3]
        if len(d) != 3 or any(ch not in "01234567" for ch in d):
            raise ParseError("bad octal escape")
        v = int(d, 8)
        if v == 0 or v > 255:
            raise ParseError("bad octal value")
        return ("byte", v), i + 3
    if c == "u":
        d = s[i + 1:i + 5]
        if len(d) != 4 or any(ch not in HEX for ch in d):
            raise ParseError("bad \\u escape")
        v = int(d, 16)
        if v == 0:
            raise ParseError("NUL")
        return chr(v), i + 5
    if c == "U":
        d = s[i + 1:i + 9]
        if len(d) != 8 or any(ch not in HEX for ch in d):
            raise ParseError("bad \\U escape")
        v = int(d, 16)
        if v == 0 or v > 0x10FFFF:
            raise ParseError("bad code point")
        return chr(v), i + 9
    raise ParseError("unknown escape \\%s" % c)


def split_words(line):
    """-> list of words; each word is bytes (UTF-8), or the token SEP for a command separator"""
    words = []
    i = 0
    n = len(line)
    while i < n:
        while i < n and line[i] in WHITESPACE:
            i += 1
        if i >= n:
            break
        # separator / literal semicolon checks are textual
        if line[i] == ";" and (i + 1 >= n or line[i + 1] in WHITESPACE):
            words.append("SEP")
            i += 1
            continue
        if line[i] == "\\" and i + 1 < n and line[i + 1] == ";" and (i + 2 >= n or line[i + 2] in WHITESPACE):
            words.append(b";")
            i += 2
            continue
        out = bytearray()
        quote = None
        while i < n:
            c = line[i]
            if quote is None and c in WHITESPACE:
                break
            if c == "\\":
                dec, i = _unescape_at(line, i + 1)
                if isinstance(dec, tuple):
                    out.append(dec[1])
                else:
                    out += dec.encode("utf-8", "surrogatepass")
                continue
            if quote is None and c in "'\"":
                quote = c
                i += 1
                continue
            if quote is not None and c == quote:
                quote = None
                i += 1
                continue
            out += c.encode("utf-8", "surrogatepass")
            i += 1
        if quote is not None:
            raise ParseError("unterminated quote")
        words.append(bytes(out))
    return words


def expand_specifiers(word):
    """bytes -> list of items: bytes chunks and ('spec', ch)"""
    out = []
    cur = bytearray()
    i = 0
    while i < len(word):
        b = word[i]
        if b == 0x25:  # %
            if i + 1 >= len(word):
                raise ParseError("trailing %")
            nx = word[i + 1]
            if nx == 0x25:
                cur.append(0x25)
            else:
                if cur:
                    out.append(bytes(cur))
                    cur = bytearray()
                out.append(("spec", chr(nx)))
            i += 2
            continue
        cur.append(b)
        i += 1
    if cur or not out:
        out.append(bytes(cur))
    return out


def expand_env(chunk):
    """bytes -> bytes, or raises ParseError when a variable substitution would take place"""
    out = bytearray()
    i = 0
    while i < len(chunk):
        b = chunk[i]
        if b == 0x24:  # $
            if i + 1 < len(chunk) and chunk[i + 1] == 0x24:
                out.append(0x24)
                i += 2
                continue
            nxt = chunk[i + 1:i + 2]
            if nxt and (nxt.isalpha() or nxt in (b"_", b"{")):
                raise ParseError("variable substitution")
            # a lone $ not followed by a name stays as it is
            out.append(0x24)
            i += 1
            continue
        out.append(b)
        i += 1
    return bytes(out)


def argv(line):
    """full pipeline: -> list of arguments; each is bytes, 'SEP', or a list mixing bytes and ('spec', c)"""
    res = []
    for w in split_words(line):
        if w == "SEP":
            res.append("SEP")
            continue
        items = expand_specifiers(w)
        conv = []
        for it in items:
            conv.append(it if isinstance(it, tuple) else expand_env(it))
        if len(conv) == 1 and isinstance(conv[0], bytes):
            res.append(conv[0])
        else:
            res.append(conv)
    return res
