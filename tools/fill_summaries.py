#!/usr/bin/env python3
"""Fills a missing `summary` in seeded/*/meta.json and refactors/*/meta.json from the title line of the author's
NOTES.md (the first heading, without its "Seed A (C01):" / "Refactoring 2 --" prefix).   tools/fill_summaries.py"""
import glob, json, os, re
HERE = os.path.dirname(os.path.dirname(os.path.abspath(__file__)))


def title(notes):
    for line in open(notes, errors="replace"):
        s = line.strip()
        if not s:
            continue
        s = s.lstrip("#").strip()
        s = re.sub(r"^(Seed|Refactoring|Change|Patch)\s*\w*\s*(\([^)]*\))?\s*[:—–-]+\s*", "", s, flags=re.I)
        s = s.replace("`", "")
        if len(s) > 8:
            return s[:200]
    return None


def main():
    n = 0
    for m in sorted(glob.glob(os.path.join(HERE, "seeded", "*", "meta.json")) + glob.glob(os.path.join(HERE, "refactors", "*", "meta.json"))):
        meta = json.load(open(m))
        if meta.get("summary"):
            continue
        notes = os.path.join(os.path.dirname(m), "NOTES.md")
        if not os.path.exists(notes):
            continue
        t = title(notes)
        if t:
            meta["summary"] = t
            json.dump(meta, open(m, "w"), indent=1)
            n += 1
    print("filled", n)


if __name__ == "__main__":
    main()
