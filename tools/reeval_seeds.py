#!/usr/bin/env python3
"""Re-runs every property's rule set on each kept seeded change (scratch copy + patch.diff) and refreshes
seeded/<id>/meta.json (reported_by) and seeded/INDEX.md.   tools/reeval_seeds.py [seed-name ...]"""
import glob, json, multiprocessing, os, sys
HERE = os.path.dirname(os.path.dirname(os.path.abspath(__file__)))
sys.path.insert(0, HERE)
from tmv import selftest
from tmv.scratch import Scratch
ALL = ["C%02d" % i for i in range(1, 21)]


def evaluate(d):
    mp = os.path.join(d, "meta.json")
    meta = json.load(open(mp))
    caught = {}
    with Scratch() as sc:
        ok, out = sc.apply_patch(os.path.join(d, "patch.diff"))
        if not ok:
            meta["reeval_note"] = "patch no longer applies to the current tree: " + out[-120:]
        else:
            try:
                F = sc.facts()
            except RuntimeError as ex:
                F = None
                meta["reeval_note"] = "does not compile on the current tree: " + str(ex)[-120:]
    if F is not None:
        for p in ALL:
            vs, _ = selftest.run_rules(p, F)
            if vs:
                caught[p] = [v["key"] for v in vs][:6]
        meta["reported_by"] = caught
        meta["reported_by_own_property"] = meta["breaks_property"] in caught
        meta.pop("reeval_note", None)
    json.dump(meta, open(mp, "w"), indent=1)
    return d


def main():
    only = sys.argv[1:]
    dirs = [os.path.dirname(m) for m in sorted(glob.glob(os.path.join(HERE, "seeded", "*", "meta.json")))]
    todo = [d for d in dirs if not only or os.path.basename(d) in only]
    with multiprocessing.get_context("fork").Pool(min(10, max(1, len(todo)))) as pool:
        pool.map(evaluate, todo, chunksize=1)
    rows = []
    for d in dirs:
        meta = json.load(open(os.path.join(d, "meta.json")))
        name = os.path.basename(d)
        own = meta["breaks_property"]
        rb = meta.get("reported_by", {})
        rules = sorted({k.split("/")[1] for k in rb.get(own, [])})
        others = sorted(p for p in rb if p != own)
        rows.append((name, own, "yes" if own in rb else "NO", ", ".join(rules) or "-", ", ".join(others) or "-", (meta.get("summary") or "").replace("|", "/")[:160]))
    with open(os.path.join(HERE, "seeded", "INDEX.md"), "w") as fh:
        fh.write("# Independently seeded breaking changes\n\nEach directory holds patch.diff (the change), demo.diff (a test that passes on the clean tree and fails with the change), NOTES.md (the author's notes) and meta.json. Every change was confirmed in a scratch worktree: the 49 existing tests pass with it, the demonstration passes without it and fails with it.\n\n| seed | breaks | reported by its own property's check | rules | also reported by | what it is |\n|---|---|---|---|---|---|\n")
        for r in rows:
            fh.write("| %s | %s | %s | %s | %s | %s |\n" % r)
    print("\n".join("%s %s own=%s rules=%s others=%s" % r[:5] for r in rows))


if __name__ == "__main__":
    main()
