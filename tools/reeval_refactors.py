#!/usr/bin/env python3
"""Re-runs every property's rule set on each kept refactoring (scratch copy + patch.diff) and refreshes
refactors/<name>/meta.json (alarms_now, verdict) and refactors/INDEX.md.   tools/reeval_refactors.py [name ...]
verdict: silent (never raised an alarm) | fixed (raised one at intake, none now) | pending (still raises one) |
not-equivalent (kept by hand: the refactoring turned out to change behaviour)"""
import glob, json, multiprocessing, os, sys
HERE = os.path.dirname(os.path.dirname(os.path.abspath(__file__)))
sys.path.insert(0, HERE)
from tmv import selftest
from tmv.scratch import Scratch
ALL = ["C%02d" % i for i in range(1, 21)]


def evaluate(d):
    mp = os.path.join(d, "meta.json")
    meta = json.load(open(mp))
    if meta.get("verdict") == "not-equivalent":
        return d
    caught = {}
    F = None
    with Scratch() as sc:
        ok, out = sc.apply_patch(os.path.join(d, "patch.diff"))
        if ok:
            try:
                F = sc.facts()
            except RuntimeError as ex:
                meta["reeval_note"] = "does not compile on the current tree: " + str(ex)[-120:]
        else:
            meta["reeval_note"] = "patch no longer applies: " + out[-120:]
    if F is not None:
        for p in ALL:
            vs, _ = selftest.run_rules(p, F)
            if vs:
                caught[p] = [v["key"] for v in vs][:6]
        meta["alarms_now"] = caught
        meta["verdict"] = "pending" if caught else ("fixed" if meta.get("alarms_at_intake") else "silent")
        meta.pop("reeval_note", None)
    json.dump(meta, open(mp, "w"), indent=1)
    return d


def main():
    only = sys.argv[1:]
    dirs = [os.path.dirname(m) for m in sorted(glob.glob(os.path.join(HERE, "refactors", "*", "meta.json")))]
    todo = [d for d in dirs if not only or os.path.basename(d) in only]
    with multiprocessing.get_context("fork").Pool(min(10, max(1, len(todo)))) as pool:
        pool.map(evaluate, todo, chunksize=1)
    rows = []
    for d in dirs:
        meta = json.load(open(os.path.join(d, "meta.json")))
        rows.append((os.path.basename(d), ", ".join(meta.get("written_for", [])), meta.get("verdict"), ", ".join(sorted(meta.get("alarms_at_intake") or {})) or "-",
                     ", ".join(sorted(meta.get("alarms_now") or {})) or "-", (meta.get("summary") or "").replace("|", "/")[:160]))
    with open(os.path.join(HERE, "refactors", "INDEX.md"), "w") as fh:
        fh.write("# Independently written behaviour-preserving refactorings\n\nEach directory holds patch.diff, the author's NOTES.md (with the equivalence argument) and meta.json. Every patch was confirmed to apply and to pass the 49 existing tests. `alarms at intake` lists the properties whose check raised an alarm when the refactoring first came in (each one a false alarm that was then removed by generalising the rule), `alarms now` what the current checks say.\n\n| refactoring | written for | verdict | alarms at intake | alarms now | what it is |\n|---|---|---|---|---|---|\n")
        for r in rows:
            fh.write("| %s | %s | %s | %s | %s | %s |\n" % r)
    print("\n".join("%s %s now=%s" % (r[0], r[2], r[4]) for r in rows))


if __name__ == "__main__":
    main()
