#!/usr/bin/env python3
"""Intake of an independently written breaking change (from a sub-agent's scratch worktree).

  tools/intake_seed.py <PROPERTY_ID> <seed_dir> [--name <slug>]

1. confirms the three claims in a fresh scratch worktree of /repo under /tmp (never in /repo):
     clean+patch: the 49 existing tests pass;  clean+demo: the demo passes;  clean+patch+demo: the demo fails;
2. runs every property's rule set on a scratch copy with the patch applied and records which rules report it;
3. writes /verif/seeded/<id>/{patch.diff, demo.diff, NOTES.md, meta.json}; removes the scratch worktree.
"""
import argparse
import json
import os
import re
import shutil
import subprocess
import sys
import tempfile

HERE = os.path.dirname(os.path.dirname(os.path.abspath(__file__)))
sys.path.insert(0, HERE)
from tmv import facts as facts_mod, selftest  # noqa: E402
from tmv.scratch import Scratch              # noqa: E402

ALL = ["C%02d" % i for i in range(1, 21)]


def sh(cmd, cwd=None, env=None, timeout=1800):
    r = subprocess.run(cmd, shell=True, cwd=cwd, env=env, stdout=subprocess.PIPE, stderr=subprocess.STDOUT, text=True, timeout=timeout)
    return r.returncode, r.stdout


def test_summary(out):
    m = re.findall(r"test result: (\w+)\. (\d+) passed; (\d+) failed", out)
    return m[-1] if m else None


def main():
    ap = argparse.ArgumentParser()
    ap.add_argument("pid")
    ap.add_argument("seed_dir")
    ap.add_argument("--name", default=None)
    a = ap.parse_args()
    pid = a.pid.upper()
    sd = os.path.abspath(a.seed_dir)
    patch = os.path.join(sd, "patch.diff")
    demo = os.path.join(sd, "demo.diff")
    for f in (patch, demo):
        if not os.path.exists(f):
            print("missing", f)
            return 2
    demo_tests = re.findall(r"^\+\s*fn\s+(\w+)\s*\(", open(demo).read(), re.M)
    demo_tests = [t for t in demo_tests if True]
    wt = tempfile.mkdtemp(prefix="seedchk-")
    os.rmdir(wt)
    rc, out = sh("git -C /repo worktree add -q --detach %s HEAD" % wt)
    if rc != 0:
        print(out)
        return 2
    env = dict(os.environ, CARGO_TARGET_DIR=os.path.join(wt, "target"), CARGO_NET_OFFLINE="true")
    res = {"property": pid, "demo_tests": demo_tests}
    try:
        # (i) clean + patch
        rc, out = sh("git apply %s" % patch, cwd=wt)
        if rc != 0:
            res["error"] = "patch does not apply: " + out[-300:]
            print(json.dumps(res, indent=1))
            return 1
        rc, out = sh("cargo test --offline 2>&1 | tail -5", cwd=wt, env=env)
        res["patch_only_suite"] = test_summary(out)
        sh("git checkout -- .", cwd=wt)
        # (ii) clean + demo
        rc, out = sh("git apply %s" % demo, cwd=wt)
        if rc != 0:
            res["error"] = "demo does not apply: " + out[-300:]
            print(json.dumps(res, indent=1))
            return 1
        names = " ".join(demo_tests)
        filt = demo_tests[0] if len(demo_tests) == 1 else ""
        rc, out = sh("cargo test --offline %s 2>&1 | tail -40" % filt, cwd=wt, env=env)
        res["demo_on_clean"] = test_summary(out)
        res["demo_on_clean_failed_tests"] = re.findall(r"^test (\S+) \.\.\. FAILED", out, re.M)
        # (iii) clean + patch + demo
        rc2, out2 = sh("git apply %s" % patch, cwd=wt)
        if rc2 != 0:
            res["error"] = "patch does not apply on top of demo: " + out2[-300:]
        rc, out = sh("cargo test --offline %s 2>&1 | tail -60" % filt, cwd=wt, env=env)
        res["demo_on_patched"] = test_summary(out)
        res["demo_on_patched_failed_tests"] = re.findall(r"^test (\S+) \.\.\. FAILED", out, re.M)
    finally:
        sh("git -C /repo worktree remove --force %s" % wt)
        shutil.rmtree(wt, ignore_errors=True)
    ok = (res.get("patch_only_suite") and res["patch_only_suite"][0] == "ok" and int(res["patch_only_suite"][1]) >= 49
          and res.get("demo_on_clean") and res["demo_on_clean"][0] == "ok"
          and res.get("demo_on_patched") and res["demo_on_patched"][0] == "FAILED")
    res["confirmed"] = bool(ok)
    # (2) which rules report it
    caught = {}
    with Scratch() as sc:
        okp, pout = sc.apply_patch(patch)
        if not okp:
            res["scratch_patch_error"] = pout[-200:]
        else:
            try:
                F = sc.facts()
                for p in ALL:
                    vs, _ = selftest.run_rules(p, F)
                    if vs:
                        caught[p] = [v["key"] for v in vs][:6]
            except RuntimeError as ex:
                res["scratch_error"] = str(ex)[-300:]
    res["caught_by"] = caught
    res["caught_by_own_property"] = pid in caught
    print(json.dumps(res, indent=1))
    if ok:
        name = a.name or ("%s-%s" % (pid.lower(), os.path.basename(os.path.dirname(sd)) if False else "seed"))
        n = 1
        base = os.path.join(HERE, "seeded")
        dest = os.path.join(base, a.name or ("%s-%d" % (pid.lower(), n)))
        while os.path.exists(dest) and not a.name:
            n += 1
            dest = os.path.join(base, "%s-%d" % (pid.lower(), n))
        os.makedirs(dest, exist_ok=True)
        for f in ("patch.diff", "demo.diff", "NOTES.md"):
            if os.path.exists(os.path.join(sd, f)):
                shutil.copy(os.path.join(sd, f), os.path.join(dest, f))
        meta = {
            "breaks_property": pid,
            "needs_to_manifest": "see NOTES.md",
            "what_i_ran": ["git apply patch.diff && cargo test --offline  -> %s" % (res["patch_only_suite"],),
                           "git apply demo.diff && cargo test --offline %s  -> %s" % (" ".join(demo_tests), res["demo_on_clean"]),
                           "git apply patch.diff demo.diff && cargo test --offline %s  -> %s (failed: %s)" % (" ".join(demo_tests), res["demo_on_patched"], res["demo_on_patched_failed_tests"]),
                           "rule sets of all 20 properties on a scratch copy with patch.diff applied"],
            "demo_tests": demo_tests,
            "confirmed": True,
            "reported_by": caught,
            "reported_by_own_property": pid in caught,
            "repo_commit": subprocess.run("git -C /repo rev-parse --short HEAD", shell=True, stdout=subprocess.PIPE, text=True).stdout.strip(),
        }
        with open(os.path.join(dest, "meta.json"), "w") as fh:
            json.dump(meta, fh, indent=1)
        print("kept as", dest)
    return 0 if ok else 1


if __name__ == "__main__":
    sys.exit(main())
