#!/usr/bin/env python3
"""Round-eleven seeds are two cooperating edits, each claimed harmless alone.  For every seeded/<id>/ that has edit1.diff and
edit2.diff this runs all 20 rule sets on a scratch copy with ONE of the edits applied and records the alarms in
seeded/<id>/edits.json  ({"edit1": {pid: [keys]}, "edit2": {...}}).  An alarm on a single edit is either a false alarm of the
rule (the edit is behaviour-preserving) or the rule objecting to the loss of a redundancy -- triaged by hand in DESIGN 12.7.
   tools/eval_edits.py [seed-id ...]"""
import glob, json, multiprocessing, os, sys
HERE = os.path.dirname(os.path.dirname(os.path.abspath(__file__)))
sys.path.insert(0, HERE)
from tmv import selftest
from tmv.scratch import Scratch
ALL = ["C%02d" % i for i in range(1, 21)]


def one(a):
    d, which = a
    out = {}
    with Scratch() as sc:
        ok, msg = sc.apply_patch(os.path.join(d, which + ".diff"))
        if not ok:
            return d, which, {"error": "does not apply: " + msg[-100:]}
        try:
            F = sc.facts()
        except RuntimeError as ex:
            return d, which, {"error": "does not compile: " + str(ex)[-100:]}
    for p in ALL:
        vs, _ = selftest.run_rules(p, F)
        if vs:
            out[p] = [v["key"] for v in vs][:6]
    return d, which, out


def main():
    only = sys.argv[1:]
    todo = []
    for d in sorted(glob.glob(os.path.join(HERE, "seeded", "*"))):
        if only and os.path.basename(d) not in only:
            continue
        if os.path.exists(os.path.join(d, "edit1.diff")) and os.path.exists(os.path.join(d, "edit2.diff")):
            todo += [(d, "edit1"), (d, "edit2")]
    res = {}
    with multiprocessing.get_context("fork").Pool(min(10, max(1, len(todo)))) as pool:
        for d, which, out in pool.imap_unordered(one, todo, chunksize=1):
            res.setdefault(d, {})[which] = out
            print(os.path.basename(d), which, {k: len(v) for k, v in out.items()} if "error" not in out else out)
    for d, r in res.items():
        json.dump(r, open(os.path.join(d, "edits.json"), "w"), indent=1)


if __name__ == "__main__":
    main()
