#!/usr/bin/env python3
# run with python3-vt (tooling venv has jsonschema)
import json, glob, jsonschema, sys
jsonschema.validate(json.load(open('/verif/MANIFEST.json')), json.load(open('/root/.vp/MANIFEST.schema.json')))
es=json.load(open('/root/.vp/EVIDENCE.schema.json'))
for f in sorted(glob.glob('/verif/evidence/C*.json')):
    jsonschema.validate(json.load(open(f)), es)
    print('valid', f)
print('manifest valid')
