#!/usr/bin/env python3
"""Mechanical mutation campaign: how many small, compiling, test-passing edits of the property-relevant sources are
reported by at least one check?  (A measuring instrument for the checkers, not a check itself.)

  tools/mutation_campaign.py generate            -> selftest/campaign/mutants.json (deterministic)
  tools/mutation_campaign.py stage1 [N_WORKERS]  -> builds + runs the 49 tests for every mutant in scratch copies under /tmp
  tools/mutation_campaign.py stage2 [N_WORKERS]  -> runs all 20 rule sets on every surviving mutant
  tools/mutation_campaign.py report              -> selftest/campaign/REPORT.md

Operators (one edit per mutant, non-test code only): relational and logical operator swaps, condition negation, +-1
drift, `.rev()` dropped/added, bool literals, integer literals, deletion of a statement line that mutates state
(push / remove / retain / insert / assignment / break / continue / return-less call), swap of two adjacent statements.
Survivors that no check reports are triaged by hand in selftest/campaign/TRIAGE.md (equivalent / outside every
property / a miss that led to a new rule)."""
import difflib
import hashlib
import json
import multiprocessing
import os
import re
import shutil
import subprocess
import sys

HERE = os.path.dirname(os.path.dirname(os.path.abspath(__file__)))
sys.path.insert(0, HERE)
OUT = os.path.join(HERE, "selftest", "campaign")
REPO = "/repo"
FILES = ["src/key_transforms.rs", "src/remapping_loop.rs", "src/fancy_layout_interpreting.rs", "src/layout_parsing_formatting.rs",
         "src/dev_input_rw.rs", "src/udev_utils.rs", "src/keyboard_listing.rs", "src/layout_loading.rs", "src/struct_ser.rs",
         "src/tablet_mode_switch_reader.rs"]
ALL = ["C%02d" % i for i in range(1, 21)]


def code_lines(path):
    lines = open(os.path.join(REPO, path)).read().split("\n")
    end = len(lines)
    for i, ln in enumerate(lines):
        if ln.startswith("#[cfg(test)]") and i > 5:
            end = i
            break
    return lines, end


REL = [(" < ", " <= "), (" <= ", " < "), (" > ", " >= "), (" >= ", " > "), (" == ", " != "), (" != ", " == ")]
LOGIC = [(" && ", " || "), (" || ", " && ")]


def mutants_of_line(ln):
    out = []
    s = ln.strip()
    if not s or s.startswith("//") or s.startswith("#[") or s.startswith("use ") or "println!" in s or "format!" in s and "Err" in s:
        return out
    for a, b in REL + LOGIC:
        for m in re.finditer(re.escape(a), ln):
            out.append(("op:%s->%s" % (a.strip(), b.strip()), ln[:m.start()] + b + ln[m.end():]))
    m = re.match(r"^(\s*(?:else )?if )(!?)(.*)( \{\s*)$", ln)
    if m and " let " not in ln:
        if m.group(2):
            out.append(("cond:drop-not", m.group(1) + m.group(3) + m.group(4)))
        else:
            out.append(("cond:negate", m.group(1) + "!(" + m.group(3) + ")" + m.group(4)))
    for m in re.finditer(r" ([+-]) 1\b", ln):
        other = "-" if m.group(1) == "+" else "+"
        out.append(("arith:%s1->%s1" % (m.group(1), other), ln[:m.start()] + " " + other + " 1" + ln[m.end():]))
        out.append(("arith:%s1->%s0" % (m.group(1), m.group(1)), ln[:m.start()] + " " + m.group(1) + " 0" + ln[m.end():]))
    if ".rev()" in ln:
        out.append(("rev:dropped", ln.replace(".rev()", "", 1)))
    elif re.search(r"\.iter\(\)(?!\.rev)", ln) and " for " in ln:
        out.append(("rev:added", re.sub(r"\.iter\(\)", ".iter().rev()", ln, 1)))
    for a, b in (("true", "false"), ("false", "true")):
        for m in re.finditer(r"\b%s\b" % a, ln):
            out.append(("bool:%s->%s" % (a, b), ln[:m.start()] + b + ln[m.end():]))
    for m in re.finditer(r"(?<![\w.])(\d+)(?![\w.])", ln):
        v = int(m.group(1))
        if v <= 64 and "[" not in ln[max(0, m.start() - 1):m.start()]:
            out.append(("int:%d->%d" % (v, v + 1), ln[:m.start()] + str(v + 1) + ln[m.end():]))
    # --- second operator set (sub-expression level)
    for m in re.finditer(r"(?<![!\w])((?:[\w\.\*]+)\.contains\(&?\*?\w+\))", ln):
        out.append(("sub:negate-contains", ln[:m.start()] + "!" + m.group(1) + ln[m.end():]))
    for m in re.finditer(r"!((?:[\w\.\*]+)\.contains\()", ln):
        out.append(("sub:drop-not-contains", ln[:m.start()] + m.group(1) + ln[m.end():]))
    for a, b in (("Pressed(", "Released("), ("Released(", "Pressed(")):
        for m in re.finditer(r"\b" + re.escape(a), ln):
            out.append(("sub:%s->%s" % (a[:-1], b[:-1]), ln[:m.start()] + b + ln[m.end():]))
    for a, b in ((".last()", ".first()"), (".first()", ".last()"), (".pass_through_keys", ".mapped_output_keys"), (".mapped_output_keys", ".pass_through_keys"),
                 (".from.", ".to."), (".to.", ".from."), ("break;", "continue;"), ("ResultingRepeat::Disabled", "ResultingRepeat::NoChange"), ("ResultingRepeat::NoChange", "ResultingRepeat::Disabled"),
                 ("WorkingRepeat::Idle", "working_repeat"), ("Next::Busy", "Next::End"), ("Next::End", "Next::Busy")):
        for m in re.finditer(re.escape(a), ln):
            new_ln = ln[:m.start()] + b + ln[m.end():]
            if a == "WorkingRepeat::Idle" and "=>" in ln:
                continue
            out.append(("sub:%s->%s" % (a, b), new_ln))
    m = re.match(r"^(\s*(?:else )?if )(.+?) && (.+)( \{\s*)$", ln)
    if m and " let " not in ln:
        out.append(("sub:drop-left-conjunct", m.group(1) + m.group(3) + m.group(4)))
        out.append(("sub:drop-right-conjunct", m.group(1) + m.group(2) + m.group(4)))
    m = re.match(r"^(\s*(?:else )?if )(.+?) \|\| (.+)( \{\s*)$", ln)
    if m and " let " not in ln:
        out.append(("sub:drop-left-disjunct", m.group(1) + m.group(3) + m.group(4)))
        out.append(("sub:drop-right-disjunct", m.group(1) + m.group(2) + m.group(4)))
    m = re.match(r"^(\s*\w[\w:]*\()(&?(?:mut )?[\w\.\*]+), (&?(?:mut )?[\w\.\*]+)(\).*)$", ln)
    if m and m.group(2) != m.group(3):
        out.append(("sub:swap-args", m.group(1) + m.group(3) + ", " + m.group(2) + m.group(4)))
    # --- third operator set (exchanges that type-check: casts through a narrower type, hex constants)
    for m in re.finditer(r" as (u16|u32|u64|i32|i64|usize|isize)\b", ln):
        out.append(("cast:through-u8", ln[:m.start()] + " as u8 as " + m.group(1) + ln[m.end():]))
    for m in re.finditer(r"\b0x([0-9a-fA-F]{1,4})\b", ln):
        out.append(("hex:+1", ln[:m.start()] + "0x%x" % (int(m.group(1), 16) + 1) + ln[m.end():]))
    if re.match(r"^\s*[\w\.\*\[\]\(\)&]+(\.push|\.remove|\.retain|\.insert|\.append|\.extend|\.clear)\(.*\);\s*$", ln) or re.match(r"^\s*(break|continue);\s*$", ln) \
            or re.match(r"^\s*[\w\.\*\[\]]+ (=|\+=|-=) [^=].*;\s*$", ln):
        out.append(("stmt:deleted", re.match(r"^\s*", ln).group(0) + "// (deleted)"))
    return out


def generate():
    os.makedirs(OUT, exist_ok=True)
    muts = []
    for f in FILES:
        lines, end = code_lines(f)
        for i in range(end):
            for op, new in mutants_of_line(lines[i]):
                if new != lines[i]:
                    muts.append({"file": f, "line": i + 1, "op": op, "old": lines[i], "new": new})
        # adjacent statement swaps
        for i in range(end - 1):
            a, b = lines[i], lines[i + 1]
            if re.match(r"^\s+[\w\.\*\[\]\(\)&]+.*;\s*$", a) and re.match(r"^\s+[\w\.\*\[\]\(\)&]+.*;\s*$", b) and not a.strip().startswith(("let ", "return", "//")) \
                    and not b.strip().startswith(("let ", "return", "//")) and re.match(r"^\s*", a).group(0) == re.match(r"^\s*", b).group(0):
                muts.append({"file": f, "line": i + 1, "op": "swap:adjacent", "old": a + "\n" + b, "new": b + "\n" + a, "span": 2})
        # third operator set: same-typed things exchanged
        #  (a) the string of one `.get("x")` / `"x" =>` replaced by another attribute name used within 12 lines
        for i in range(end):
            for mm in re.finditer(r'get\("(\w+)"\)', lines[i]):
                near = []
                for j in range(max(0, i - 12), min(end, i + 13)):
                    near += re.findall(r'get\("(\w+)"\)', lines[j])
                for other in sorted(set(near) - {mm.group(1)})[:2]:
                    muts.append({"file": f, "line": i + 1, "op": "xchg:attribute-name", "old": lines[i],
                                 "new": lines[i][:mm.start()] + 'get("%s")' % other + lines[i][mm.end():]})
        #  (b) the values of two adjacent field initialisers exchanged
        for i in range(end - 1):
            ma = re.match(r"^(\s+)(\w+): (.+?)(,?)\s*$", lines[i])
            mb = re.match(r"^(\s+)(\w+): (.+?)(,?)\s*$", lines[i + 1])
            if ma and mb and ma.group(1) == mb.group(1) and ma.group(3) != mb.group(3) and "{" not in ma.group(3) + mb.group(3):
                muts.append({"file": f, "line": i + 1, "op": "xchg:field-values", "old": lines[i] + "\n" + lines[i + 1], "span": 2,
                             "new": "%s%s: %s%s\n%s%s: %s%s" % (ma.group(1), ma.group(2), mb.group(3), ma.group(4), mb.group(1), mb.group(2), ma.group(3), mb.group(4))})
        #  (c) two names of the same kind exchanged inside one line
        for i in range(end):
            for a, b in (("delay_ms", "interval_ms"), ("interval_ms", "delay_ms"), ("working_name", "working_sysfs_path"), ("KEYBOARD", "TABLET_SWITCH"), ("TABLET_SWITCH", "KEYBOARD"),
                         ("EV_KEY", "EV_SYN"), ("input_pressed_keys", "pass_through_keys"), ("mapped_absorbed_keys", "input_pressed_keys"), ("initial", "terminal")):
                s = lines[i].strip()
                if s.startswith("//") or "println!" in s or "format!" in s:
                    continue
                ms = list(re.finditer(r"\b%s\b" % a, lines[i]))
                if ms and not re.match(r"^\s*(pub )?(let|const|fn|struct|enum)\b", lines[i]) and not re.match(r"^\s*%s:" % a, lines[i]):
                    m0 = ms[-1]
                    muts.append({"file": f, "line": i + 1, "op": "xchg:%s->%s" % (a, b), "old": lines[i], "new": lines[i][:m0.start()] + b + lines[i][m0.end():]})
    keep = []
    for m in muts:
        h = int(hashlib.sha1(("%s:%d:%s:%s" % (m["file"], m["line"], m["op"], m["new"])).encode()).hexdigest(), 16)
        m["id"] = "m%06x" % (h & 0xffffff)
        keep.append(m)      # (a first pass took every mutant of the mapper, the loop and the reader/writer and a third of the rest; the second pass took the remainder)
    json.dump(keep, open(os.path.join(OUT, "mutants.json"), "w"), indent=0)
    print(len(muts), "generated,", len(keep), "kept")


def apply_mut(root, m):
    p = os.path.join(root, m["file"])
    lines = open(p).read().split("\n")
    span = m.get("span", 1)
    cur = "\n".join(lines[m["line"] - 1:m["line"] - 1 + span])
    assert cur == m["old"], (cur, m["old"])
    lines[m["line"] - 1:m["line"] - 1 + span] = m["new"].split("\n")
    open(p, "w").write("\n".join(lines))


def patch_of(m):
    old = open(os.path.join(REPO, m["file"])).read().split("\n")
    new = list(old)
    span = m.get("span", 1)
    new[m["line"] - 1:m["line"] - 1 + span] = m["new"].split("\n")
    d = difflib.unified_diff(old, new, "a/" + m["file"], "b/" + m["file"], lineterm="", n=3)
    return "\n".join(d) + "\n"


def _stage1_worker(args):
    k, chunk = args
    root = "/tmp/mc-w%d" % k
    repo = os.path.join(root, "repo")
    if not os.path.exists(repo):
        os.makedirs(root, exist_ok=True)
        subprocess.run("rsync -a --exclude target --exclude .git %s/ %s/" % (REPO, repo), shell=True, check=True)
    env = dict(os.environ, CARGO_TARGET_DIR=os.path.join(root, "target"), CARGO_NET_OFFLINE="true")
    res = {}
    for m in chunk:
        orig = open(os.path.join(repo, m["file"])).read()
        try:
            apply_mut(repo, m)
            try:
                r = subprocess.run("cargo test --offline 2>&1 | tail -25", shell=True, cwd=repo, env=env, stdout=subprocess.PIPE, text=True, timeout=240)
                out = r.stdout
                mm = re.findall(r"test result: (\w+)\. (\d+) passed; (\d+) failed", out)
                if not mm:
                    st = "compile-fail" if "error" in out else "unknown"
                elif mm[-1][0] == "ok" and int(mm[-1][1]) >= 49:
                    st = "survived"
                else:
                    st = "test-fail"
            except subprocess.TimeoutExpired:
                st = "timeout"
                subprocess.run("pkill -f %s/target/debug/deps/totalmapper" % root, shell=True)
        finally:
            open(os.path.join(repo, m["file"]), "w").write(orig)
        res[m["id"]] = st
    return res


def stage1(nw):
    muts = json.load(open(os.path.join(OUT, "mutants.json")))
    rp = os.path.join(OUT, "stage1.json")
    done = json.load(open(rp)) if os.path.exists(rp) else {}
    todo = [m for m in muts if m["id"] not in done]
    chunks = [(k, todo[k::nw]) for k in range(nw)]
    with multiprocessing.get_context("fork").Pool(nw) as pool:
        for r in pool.imap_unordered(_stage1_worker, chunks):
            done.update(r)
            json.dump(done, open(rp, "w"), indent=0)
    import collections
    print(collections.Counter(done.values()))
    for k in range(nw):
        shutil.rmtree("/tmp/mc-w%d" % k, ignore_errors=True)


def _stage2_one(m):
    from tmv import selftest
    from tmv.scratch import Scratch
    import tempfile
    caught = {}
    note = None
    with tempfile.NamedTemporaryFile("w", suffix=".diff", delete=False) as fh:
        fh.write(patch_of(m))
        pf = fh.name
    try:
        with Scratch() as sc:
            ok, out = sc.apply_patch(pf)
            if not ok:
                return m["id"], None, "patch: " + out[-100:]
            try:
                F = sc.facts()
            except RuntimeError as ex:
                return m["id"], None, "facts: " + str(ex)[-100:]
        for p in ALL:
            vs, _ = selftest.run_rules(p, F)
            if vs:
                caught[p] = [v["key"] for v in vs][:3]
    finally:
        os.unlink(pf)
    return m["id"], caught, note


def stage2(nw):
    muts = json.load(open(os.path.join(OUT, "mutants.json")))
    s1 = json.load(open(os.path.join(OUT, "stage1.json")))
    rp = os.path.join(OUT, "stage2.json")
    done = json.load(open(rp)) if os.path.exists(rp) else {}
    todo = [m for m in muts if s1.get(m["id"]) == "survived" and m["id"] not in done]
    print(len(todo), "survivors to analyse")
    with multiprocessing.get_context("fork").Pool(nw) as pool:
        for mid, caught, note in pool.imap_unordered(_stage2_one, todo, chunksize=1):
            done[mid] = {"caught": caught, "note": note}
            json.dump(done, open(rp, "w"), indent=0)


def report():
    muts = {m["id"]: m for m in json.load(open(os.path.join(OUT, "mutants.json")))}
    s1 = json.load(open(os.path.join(OUT, "stage1.json")))
    s2 = json.load(open(os.path.join(OUT, "stage2.json"))) if os.path.exists(os.path.join(OUT, "stage2.json")) else {}
    tri = {}
    tp = os.path.join(OUT, "triage.json")
    if os.path.exists(tp):
        tri = json.load(open(tp))
    import collections
    c1 = collections.Counter(s1.values())
    surv = [i for i, s in s1.items() if s == "survived"]
    caught = [i for i in surv if s2.get(i, {}).get("caught")]
    silent = [i for i in surv if i in s2 and not s2[i].get("caught") and s2[i].get("caught") is not None]
    with open(os.path.join(OUT, "REPORT.md"), "w") as fh:
        fh.write("# Mechanical mutation campaign\n\n%d mutants; stage 1: %s.\n\nOf the %d that compile and pass the 49 tests, %d are reported by at least one check, %d by none.\n\n" %
                 (len(s1), dict(c1), len(surv), len(caught), len(silent)))
        fh.write("## Survivors no check reports\n\n| id | where | operator | edit | triage |\n|---|---|---|---|---|\n")
        for i in sorted(silent, key=lambda x: (muts[x]["file"], muts[x]["line"])):
            m = muts[i]
            fh.write("| %s | %s:%d | %s | `%s` | %s |\n" % (i, m["file"], m["line"], m["op"], m["new"].strip().replace("|", "\\|").replace("\n", " ⏎ ")[:110], tri.get(i, "")))
        fh.write("\n## Survivors reported (by property)\n\n")
        byp = collections.Counter()
        for i in caught:
            for p in s2[i]["caught"]:
                byp[p] += 1
        fh.write(", ".join("%s: %d" % kv for kv in sorted(byp.items())) + "\n")
    print("survived", len(surv), "caught", len(caught), "silent", len(silent))


if __name__ == "__main__":
    cmd = sys.argv[1]
    nw = int(sys.argv[2]) if len(sys.argv) > 2 else 6
    {"generate": generate, "stage1": lambda: stage1(nw), "stage2": lambda: stage2(nw), "report": report}[cmd]()
