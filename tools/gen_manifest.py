#!/usr/bin/env python3
"""Regenerates /verif/MANIFEST.json from the per-property metadata below and from which rule
modules exist.  (Bookkeeping only; the checks themselves live in tmv/rules.)"""
import importlib
import json
import os
import sys

HERE = os.path.dirname(os.path.dirname(os.path.abspath(__file__)))
sys.path.insert(0, HERE)

ALL = ["C%02d" % i for i in range(1, 21)]


def _deps():
    from tmv import premises
    return premises.DEPS


def _traits_note(pid):
    from tmv import traits
    ts = traits.TYPES.get(pid)
    if not ts:
        return ""
    return (" Equality, hashing and copying of the types these rules compare (%s%s) are decided too (obligations `%s-TR`): every "
            "PartialEq/Eq/Hash/Clone/Ord implementation is derive output or a hand-written implementation of a recognised structural form."
            % (", ".join(t.rsplit("::", 1)[1] for t in ts[:5]), ", ..." if len(ts) > 5 else "", pid))


def _premise_note(pid):
    d = _deps().get(pid)
    if not d:
        return ""
    parts = []
    for other, rules, text in d:
        parts.append("%s%s" % (other, "" if rules is None else "[" + ",".join(sorted(r.split("-", 1)[1] for r in rules)) + "]"))
    return " Premises decided by other properties' rules are re-run as part of this check (obligations `%s-premise`): %s." % (pid, ", ".join(parts))


def main():
    checks = []
    na = []
    for pid in ALL:
        try:
            mod = importlib.import_module("tmv.rules." + pid.lower())
        except ModuleNotFoundError:
            na.append({"property_id": pid, "reason": "no static rule set is armed for this property in this revision of /verif (see DESIGN.md section 5 for the planned clauses)"})
            continue
        meta = getattr(mod, "META", None)
        if meta is None or meta.get("not_applicable"):
            na.append({"property_id": pid, "reason": (meta or {}).get("not_applicable", "not claimed")})
            continue
        checks.append({
            "property_id": pid,
            "quick_cmd": "./check %s --tier quick" % pid,
            "thorough_cmd": "./check %s --tier thorough" % pid,
            "evidence_file": "/verif/evidence/%s.json" % pid,
            "replay_cmd_template": "./check explain {path}",
            "engine": "tmfacts",
            "level_claimed": {
                "category": getattr(mod, "LEVEL", "other"),
                "text": meta["level_text"],
                "design_ref": meta.get("design_ref", "DESIGN.md section 5, " + pid),
            },
            "level_note": meta["level_note"] + _premise_note(pid) + _traits_note(pid),
            "technique": meta["technique"] + (" (+ re-run of the rule groups of other properties it rests on)" if pid in _deps() else ""),
        })
    man = {
        "version": 1,
        "setup_cmd": "./check setup",
        "hooks": {
            "guard": "ellbur_totalmapper_verif",
            "enable": "none needed: static analysis reads the tree as it is (guard name reserved, no hook commits)",
            "baseline_off_cmd": "cd /repo && cargo test --workspace --no-fail-fast --offline",
            "source_commits": [],
            "add_only": True,
        },
        "engines": [{
            "name": "tmfacts",
            "path": "/verif/engine/tmfacts",
            "serves_properties": [c["property_id"] for c in checks],
            "kind_free_text": "rustc_private driver (nightly) run as RUSTC_WORKSPACE_WRAPPER under cargo check on /repo's working tree; exports type-checked HIR, MIR (opt-level 0) with resolved callees, ADT/layout facts to JSON; Python rule library tmv/ (CFG, dominators, provenance terms, path walker, decision tables, sibling agreement, table oracles) decides the properties without executing totalmapper",
        }],
        "checks": checks,
        "not_applicable": na,
        "notes": "Static analysis only. Every check re-analyses /repo's current working tree (fact file cached by content hash of src/**, Cargo.toml, Cargo.lock). Known findings: /verif/known_findings.json. Thorough tier = quick rules + checker self-tests (mutants must fire, refactors must stay silent) on scratch copies outside /repo and /verif.",
    }
    with open(os.path.join(HERE, "MANIFEST.json"), "w") as fh:
        json.dump(man, fh, indent=1)
    print("checks:", [c["property_id"] for c in checks])
    print("not_applicable:", [n["property_id"] for n in na])


if __name__ == "__main__":
    main()
