#!/usr/bin/env python3
"""Intake of an independently written BEHAVIOUR-PRESERVING refactoring (from a sub-agent's scratch worktree).

  tools/intake_refactor.py <name> <dir-with-patch.diff-and-NOTES.md> <PROPERTY_ID>[,<PROPERTY_ID>...]

1. confirms in a fresh scratch worktree of /repo under /tmp (never in /repo) that the patch applies and the 49 existing
   tests pass with it;
2. runs every property's rule set on a scratch copy with the patch applied and records which rules raise an alarm
   (each is a false alarm to be removed, unless the refactoring turns out not to be behaviour-preserving);
3. writes /verif/refactors/<name>/{patch.diff, NOTES.md, meta.json}; removes the scratch worktree.
"""
import json
import os
import re
import shutil
import subprocess
import sys
import tempfile

HERE = os.path.dirname(os.path.dirname(os.path.abspath(__file__)))
sys.path.insert(0, HERE)
from tmv import selftest          # noqa: E402
from tmv.scratch import Scratch  # noqa: E402

ALL = ["C%02d" % i for i in range(1, 21)]


def sh(cmd, cwd=None, env=None, timeout=1800):
    r = subprocess.run(cmd, shell=True, cwd=cwd, env=env, stdout=subprocess.PIPE, stderr=subprocess.STDOUT, text=True, timeout=timeout)
    return r.returncode, r.stdout


def evaluate(patch):
    caught = {}
    note = None
    with Scratch() as sc:
        okp, pout = sc.apply_patch(patch)
        if not okp:
            return None, "patch does not apply: " + pout[-200:]
        try:
            F = sc.facts()
        except RuntimeError as ex:
            return None, "does not compile: " + str(ex)[-200:]
    for p in ALL:
        vs, _ = selftest.run_rules(p, F)
        if vs:
            caught[p] = [v["key"] for v in vs][:6]
    return caught, note


def main():
    name, sd, props = sys.argv[1], os.path.abspath(sys.argv[2]), sys.argv[3].split(",")
    patch = os.path.join(sd, "patch.diff")
    if not os.path.exists(patch):
        print("missing", patch)
        return 2
    wt = tempfile.mkdtemp(prefix="rfchk-")
    os.rmdir(wt)
    rc, out = sh("git -C /repo worktree add -q --detach %s HEAD" % wt)
    if rc != 0:
        print(out)
        return 2
    env = dict(os.environ, CARGO_TARGET_DIR=os.path.join(wt, "target"), CARGO_NET_OFFLINE="true")
    res = {"name": name}
    try:
        rc, out = sh("git apply %s" % patch, cwd=wt)
        if rc != 0:
            print("patch does not apply:", out[-300:])
            return 1
        rc, out = sh("cargo test --offline 2>&1 | tail -5", cwd=wt, env=env)
        m = re.findall(r"test result: (\w+)\. (\d+) passed; (\d+) failed", out)
        res["suite"] = m[-1] if m else None
    finally:
        sh("git -C /repo worktree remove --force %s" % wt)
        shutil.rmtree(wt, ignore_errors=True)
    ok = bool(res["suite"]) and res["suite"][0] == "ok" and int(res["suite"][1]) >= 49
    caught, note = evaluate(patch)
    res["alarms"] = caught
    print(json.dumps(res, indent=1)[:3000])
    if not ok or caught is None:
        print("not kept:", note or "suite did not pass")
        return 1
    dest = os.path.join(HERE, "refactors", name)
    os.makedirs(dest, exist_ok=True)
    shutil.copy(patch, os.path.join(dest, "patch.diff"))
    if os.path.exists(os.path.join(sd, "NOTES.md")):
        shutil.copy(os.path.join(sd, "NOTES.md"), os.path.join(dest, "NOTES.md"))
    meta = {"kind": "behaviour-preserving refactoring (author's claim, with the argument in NOTES.md)", "written_for": props,
            "what_i_ran": ["git apply patch.diff && cargo test --offline -> %s" % (res["suite"],), "rule sets of all 20 properties on a scratch copy with patch.diff applied"],
            "alarms_at_intake": caught, "alarms_now": caught, "verdict": "pending" if caught else "silent",
            "repo_commit": subprocess.run("git -C /repo rev-parse --short HEAD", shell=True, stdout=subprocess.PIPE, text=True).stdout.strip()}
    with open(os.path.join(dest, "meta.json"), "w") as fh:
        json.dump(meta, fh, indent=1)
    print("kept as", dest)
    return 0


if __name__ == "__main__":
    sys.exit(main())
