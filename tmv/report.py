"""Obligation records, violations, known findings, evidence files."""
import json
import os
import shutil
import sys
import time

from .facts import VERIF

KNOWN_FILE = os.path.join(VERIF, "known_findings.json")


def load_known():
    if not os.path.exists(KNOWN_FILE):
        return {"findings": [], "fixed": []}
    with open(KNOWN_FILE) as fh:
        return json.load(fh)


class Unrecognised(Exception):
    """a construct outside a rule's idiom set: reported as a violation (fail closed)"""

    def __init__(self, what, site=None):
        Exception.__init__(self, what)
        self.what = what
        self.site = site


class Check:
    def __init__(self, pid, tier="quick", seed=0, level="other", quiet=False):
        self.pid = pid
        self.tier = tier
        self.seed = seed
        self.level = level
        self.t0 = time.time()
        self.obligations = []
        self.violations = []
        self.analysed = {}
        self.floors = []
        self.notes = []
        self.assumptions = []
        self.trusted_base = []
        self.explanation = ""
        self.rule_text = ""
        self.quiet = quiet
        self.extra = {}
        self.selftests = []
        self._seen = {}

    # ---- recording
    def ob(self, rule, function, construct, ok, site=None, detail=None, witness=None):
        """one obligation = one rule instance. `construct` must not contain line numbers."""
        key = (rule, function, construct, bool(ok))
        if key in self._seen:
            self._seen[key]["instances"] = self._seen[key].get("instances", 1) + 1
            return ok
        rec = {"rule": rule, "function": function, "construct": construct,
               "verdict": "discharged" if ok else "VIOLATED"}
        self._seen[key] = rec
        if site is not None:
            rec["site"] = site
        if detail is not None:
            rec["detail"] = detail
        if witness is not None:
            rec["witness"] = witness
        self.obligations.append(rec)
        if not ok:
            self.violations.append({
                "key": "%s/%s/%s/%s" % (self.pid, rule, function, construct),
                "rule": rule, "function": function, "construct": construct,
                "site": site, "detail": detail, "witness": witness})
        return ok

    def unrecognised(self, rule, function, what, site=None):
        return self.ob(rule, function, "unrecognised-shape:" + what, False, site=site,
                       detail="construct outside the rule's idiom set (fail closed)")

    def floor(self, rule, what, count, minimum):
        self.floors.append({"rule": rule, "what": what, "count": count, "floor": minimum})
        return self.ob(rule, "-", "floor:%s>=%d" % (what, minimum), count >= minimum,
                       detail="matched %d instance(s); hand-counted floor on the pinned tree is %d" % (count, minimum))

    def note(self, s):
        self.notes.append(s)

    def count(self, key, n=1):
        self.analysed[key] = self.analysed.get(key, 0) + n

    # ---- finishing
    def finish(self):
        known = load_known()
        known_keys = {f["key"]: f for f in known.get("findings", []) if f.get("property") == self.pid}
        vdir = os.path.join(VERIF, "evidence", "violations", self.pid)
        if os.path.isdir(vdir):
            shutil.rmtree(vdir, ignore_errors=True)
        new = []
        listed = []
        for v in self.violations:
            if v["key"] in known_keys:
                listed.append(v)
            else:
                new.append(v)
        for v in listed:
            print("KNOWN-FINDING: property=%s %s" % (self.pid, known_keys[v["key"]].get("what", v["key"])))
        # stale known findings (listed but no longer observed) are reported in the evidence only
        stale = [k for k in known_keys if k not in {v["key"] for v in self.violations}]
        n = 0
        if new:
            os.makedirs(vdir, exist_ok=True)
        for v in new:
            n += 1
            rp = os.path.join(vdir, "%d.json" % n)
            with open(rp, "w") as fh:
                json.dump(v, fh, indent=1, default=str)
            print("VIOLATION property=%s replay=%s" % (self.pid, rp))
            if not self.quiet:
                print("  rule %s in %s: %s%s" % (v["rule"], v["function"], v["construct"],
                                                 (" @ " + str(v["site"])) if v.get("site") else ""))
                if v.get("detail"):
                    print("  " + str(v["detail"])[:600])
        discharged = sum(1 for o in self.obligations if o["verdict"] == "discharged")
        distinct = len({(o["rule"], o["function"], o["construct"]) for o in self.obligations})
        samples = self._samples()
        cov = {
            "explanation": self.explanation,
            "rule": self.rule_text,
            "obligations": len(self.obligations),
            "discharged": discharged,
            "evaluations": len(self.obligations),
            "distinct_nontrivial": distinct,
            "samples": samples,
            "analysed": self.analysed,
            "floors": self.floors,
            "checker_cmd": "./check %s --tier %s" % (self.pid, self.tier),
            "trusted_base": self.trusted_base,
            "known_findings_matched": [v["key"] for v in listed],
            "known_findings_stale": stale,
            "notes": self.notes,
            "exhaustive": True,
        }
        if self.selftests:
            cov["selftests"] = self.selftests
        cov.update(self.extra)
        ev = {
            "property_id": self.pid,
            "tier": self.tier,
            "seed": int(self.seed),
            "level": self.level,
            "coverage": cov,
            "assumptions": self.assumptions,
            "wall_s": round(time.time() - self.t0, 3),
            "violations": len(new),
        }
        os.makedirs(os.path.join(VERIF, "evidence"), exist_ok=True)
        out = os.path.join(VERIF, "evidence", "%s.json" % self.pid)
        tmp = out + ".tmp"
        with open(tmp, "w") as fh:
            json.dump(ev, fh, indent=1, default=str)
        os.replace(tmp, out)
        if not self.quiet:
            print("%s: %d obligations, %d discharged, %d known finding(s), %d new violation(s), %.1fs" % (
                self.pid, len(self.obligations), discharged, len(listed), len(new), time.time() - self.t0))
        return 1 if new else 0

    def _samples(self):
        # one sample per rule first, then fill up
        out = []
        seen = set()
        for o in self.obligations:
            if o["rule"] not in seen:
                seen.add(o["rule"])
                out.append(o)
        for o in self.obligations:
            if len(out) >= 40:
                break
            if o not in out:
                out.append(o)
        return out
