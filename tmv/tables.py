"""P5 — decision tables from path sets.

A region's paths (from the walker) carry guards over uninterpreted atoms.  `decision_table`
tabulates, for every valuation of the atoms, which path is taken and what its outcome is; the
result can be compared with a specification written over atom *roles*.  Refactor-tolerant:
De Morgan rewrites, nesting, `match` vs `if`, early returns all yield the same table.
"""
import itertools

from . import mir
from .mir import T, show


class TableError(Exception):
    pass


def bool_leaves(t, acc):
    """atoms of a boolean term built from not/const"""
    if isinstance(t, tuple) and t:
        if t[0] == "not":
            bool_leaves(t[1], acc)
            return
        if t[0] == "const":
            return
    if t not in acc:
        acc.append(t)


def eval_bool(t, val):
    if isinstance(t, tuple) and t:
        if t[0] == "not":
            v = eval_bool(t[1], val)
            return None if v is None else (not v)
        if t[0] == "const":
            ci = mir.const_int(t)
            return None if ci is None else bool(ci)
    return val.get(t)


def path_guards(p, want=None):
    out = []
    for e in p.events:
        if e.kind == "guard":
            if want is None or want(e.a):
                out.append((e.a, e.b))
    return out


def decision_table(paths, outcome_of, atom_filter=None, max_atoms=10):
    """-> (atoms, rows) where rows = list of (valuation tuple aligned with atoms, outcome).
    Only boolean atoms are tabulated; `atom_filter(term)` selects the atoms of interest, other
    guards are treated as don't-care splits whose outcomes must agree (else TableError)."""
    atoms = []
    for p in paths:
        for a, v in path_guards(p):
            if isinstance(v, bool) and (atom_filter is None or atom_filter(a)):
                if a not in atoms:
                    atoms.append(a)
    if len(atoms) > max_atoms:
        raise TableError("too many atoms: %d" % len(atoms))
    rows = []
    for vals in itertools.product([False, True], repeat=len(atoms)):
        val = dict(zip(atoms, vals))
        outs = []
        for p in paths:
            ok = True
            for a, v in path_guards(p):
                if a in val and isinstance(v, bool) and val[a] != v:
                    ok = False
                    break
            if ok:
                o = outcome_of(p, val)
                if o not in outs:
                    outs.append(o)
        if len(outs) > 1:
            raise TableError("valuation %s reaches several outcomes: %s" % (
                {show(a): v for a, v in val.items()}, outs))
        rows.append((vals, outs[0] if outs else None))
    return atoms, rows


def bool_function(paths, atom_filter=None):
    """truth table of a bool-returning function: -> (atoms, {valuation: bool|None})"""
    paths = [p for p in paths if p.outcome[0] == "return"]
    # atoms that occur only in return terms
    extra = []
    for p in paths:
        bool_leaves(p.outcome[1], extra)
    atoms = []
    for p in paths:
        for a, v in path_guards(p):
            if isinstance(v, bool) and a not in atoms:
                atoms.append(a)
    for a in extra:
        if a not in atoms:
            atoms.append(a)
    if len(atoms) > 10:
        raise TableError("too many atoms: %d" % len(atoms))
    table = {}
    for vals in itertools.product([False, True], repeat=len(atoms)):
        val = dict(zip(atoms, vals))
        res = []
        for p in paths:
            ok = True
            for a, v in path_guards(p):
                if a in val and isinstance(v, bool) and val[a] != v:
                    ok = False
                    break
            if ok:
                r = eval_bool(p.outcome[1], val)
                if r not in res:
                    res.append(r)
        if len(res) != 1:
            raise TableError("valuation reaches %d results" % len(res))
        table[vals] = res[0]
    return atoms, table


def table_equals(atoms, table, roles, spec):
    """roles: list of (role_name, predicate(term)->bool) ; spec: function(dict role->bool)->bool.
    Every atom must bind to exactly one role and every role to exactly one atom."""
    binding = {}
    for a in atoms:
        rs = [r for r, pred in roles if pred(a)]
        if len(rs) != 1:
            return False, "atom %s binds to roles %s" % (show(a), rs)
        if rs[0] in binding.values():
            return False, "role %s bound twice" % rs[0]
        binding[a] = rs[0]
    if len(binding) != len(roles):
        return False, "roles unbound: %s" % sorted(set(r for r, _ in roles) - set(binding.values()))
    for vals, res in table.items():
        env = {binding[a]: v for a, v in zip(atoms, vals)}
        want = spec(env)
        if res is None or bool(res) != bool(want):
            return False, "row %s: code gives %s, specification %s" % (env, res, want)
    return True, None
