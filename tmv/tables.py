"""P5 — decision tables from path sets.

A region's paths (from the walker) carry guards over uninterpreted atoms.  `decision_table`
tabulates, for every valuation of the atoms, which path is taken and what its outcome is; the
result can be compared with a specification written over atom *roles*.  Refactor-tolerant:
De Morgan rewrites, nesting, `match` vs `if`, early returns all yield the same table.
"""
import itertools

from . import mir
from .mir import T, show


class TableError(Exception):
    pass


def bool_leaves(t, acc):
    """atoms of a boolean term built from not/const"""
    if isinstance(t, tuple) and t:
        if t[0] == "not":
            bool_leaves(t[1], acc)
            return
        if t[0] == "const":
            return
    if t not in acc:
        acc.append(t)


def eval_bool(t, val):
    if isinstance(t, tuple) and t:
        if t[0] == "not":
            v = eval_bool(t[1], val)
            return None if v is None else (not v)
        if t[0] == "const":
            ci = mir.const_int(t)
            return None if ci is None else bool(ci)
    return val.get(t)


def path_guards(p, want=None):
    out = []
    for e in p.events:
        if e.kind == "guard":
            if want is None or want(e.a):
                out.append((e.a, e.b))
    return out


def decision_table(paths, outcome_of, atom_filter=None, max_atoms=10):
    """-> (atoms, rows) where rows = list of (valuation tuple aligned with atoms, outcome).
    Only boolean atoms are tabulated; `atom_filter(term)` selects the atoms of interest, other
    guards are treated as don't-care splits whose outcomes must agree (else TableError)."""
    atoms = []
    for p in paths:
        for a, v in path_guards(p):
            if isinstance(v, bool) and (atom_filter is None or atom_filter(a)):
                if a not in atoms:
                    atoms.append(a)
    if len(atoms) > max_atoms:
        raise TableError("too many atoms: %d" % len(atoms))
    rows = []
    for vals in itertools.product([False, True], repeat=len(atoms)):
        val = dict(zip(atoms, vals))
        outs = []
        for p in paths:
            ok = True
            for a, v in path_guards(p):
                if a in val and isinstance(v, bool) and val[a] != v:
                    ok = False
                    break
            if ok:
                o = outcome_of(p, val)
                if o not in outs:
                    outs.append(o)
        if len(outs) > 1:
            raise TableError("valuation %s reaches several outcomes: %s" % (
                {show(a): v for a, v in val.items()}, outs))
        rows.append((vals, outs[0] if outs else None))
    return atoms, rows


def bool_function(paths, atom_filter=None):
    """truth table of a bool-returning function: -> (atoms, {valuation: bool|None})"""
    paths = [p for p in paths if p.outcome[0] == "return"]
    # atoms that occur only in return terms
    extra = []
    for p in paths:
        bool_leaves(p.outcome[1], extra)
    atoms = []
    for p in paths:
        for a, v in path_guards(p):
            if isinstance(v, bool) and a not in atoms:
                atoms.append(a)
    for a in extra:
        if a not in atoms:
            atoms.append(a)
    if len(atoms) > 10:
        raise TableError("too many atoms: %d" % len(atoms))
    table = {}
    for vals in itertools.product([False, True], repeat=len(atoms)):
        val = dict(zip(atoms, vals))
        res = []
        for p in paths:
            ok = True
            for a, v in path_guards(p):
                if a in val and isinstance(v, bool) and val[a] != v:
                    ok = False
                    break
            if ok:
                r = eval_bool(p.outcome[1], val)
                if r not in res:
                    res.append(r)
        if len(res) != 1:
            raise TableError("valuation reaches %d results" % len(res))
        table[vals] = res[0]
    return atoms, table


def table_equals(atoms, table, roles, spec):
    """roles: list of (role_name, predicate(term)->bool) ; spec: function(dict role->bool)->bool.
    Every atom must bind to exactly one role and every role to exactly one atom."""
    binding = {}
    for a in atoms:
        rs = [r for r, pred in roles if pred(a)]
        if len(rs) != 1:
            return False, "atom %s binds to roles %s" % (show(a), rs)
        if rs[0] in binding.values():
            return False, "role %s bound twice" % rs[0]
        binding[a] = rs[0]
    if len(binding) != len(roles):
        return False, "roles unbound: %s" % sorted(set(r for r, _ in roles) - set(binding.values()))
    for vals, res in table.items():
        env = {binding[a]: v for a, v in zip(atoms, vals)}
        want = spec(env)
        if res is None or bool(res) != bool(want):
            return False, "row %s: code gives %s, specification %s" % (env, res, want)
    return True, None


# --------------------------------------------------------------------------
# existential-loop idiom:   flag = false; for x in xs { if cond(x) { flag = true; break; } }

class ExistsLoop:
    def __init__(self):
        self.flag = None          # local index of the bool flag
        self.flag_name = ""
        self.iter_term = None     # what is iterated
        self.set_paths = []       # guard lists (atom, value) under which the flag is set to true
        self.cont_paths = []      # guard lists of paths that continue without setting
        self.exhaustive = False   # the only other exit is exhaustion of the iterator
        self.problems = []


def exists_loop(body, h, flag_local=None):
    """analyses loop `h` of `body` as an existential scan. Returns ExistsLoop (check .problems)."""
    from .mir import Walker, const_int
    el = ExistsLoop()
    paths = Walker(body).walk(h, start_is_header=True)
    inner = set(body.loops()[h])
    for p in paths:
        if p.outcome[0] in ("unreachable", "infeasible"):
            continue
        sets = [e for e in p.events if e.kind == "set" and body.ltypes.get(e.a) == "bool" and (flag_local is None or e.a == flag_local)]
        # only the part of the path inside the loop (up to the exit) matters
        in_loop_sets = [e for e in sets if e.blk in inner or _set_on_break_edge(body, h, p, e)]
        guards = []
        nxt = None
        for e in p.events:
            if e.blk not in inner and not _before_exit(body, h, p, e):
                break
            if e.kind == "guard":
                if isinstance(e.a, tuple) and e.a[0] == "variantof" and isinstance(e.a[1], tuple) and e.a[1][0] == "next":
                    nxt = e.b
                    el.iter_term = e.a[1][1]
                    continue
                guards.append((e.a, e.b))
        if p.outcome == ("backedge", h):
            if in_loop_sets:
                el.problems.append("flag written on a continuing path")
            el.cont_paths.append(guards)
            continue
        # exit paths
        if nxt == "None":
            if in_loop_sets:
                el.problems.append("flag written on the exhaustion path")
            el.exhaustive = True
            continue
        if in_loop_sets:
            e = in_loop_sets[-1]
            v = const_int(e.b)
            if v != 1:
                el.problems.append("flag set to a non-true value")
            if el.flag is None:
                el.flag = e.a
                el.flag_name = body.dbg.get(e.a, "")
            elif el.flag != e.a:
                el.problems.append("several flags")
            el.set_paths.append(guards)
        else:
            el.problems.append("loop left early without setting the flag (%s)" % (p.outcome[0],))
    if not el.exhaustive:
        el.problems.append("no exhaustion exit")
    if not el.set_paths:
        el.problems.append("flag never set")
    return el


def _set_on_break_edge(body, h, p, e):
    # blocks of a `break` arm are outside the natural loop body; they belong to the scan when they
    # come before any other event outside the loop
    return _before_exit(body, h, p, e)


def _before_exit(body, h, p, e):
    """e happens outside the natural loop but before the path reaches a block that is reachable
    from the loop's exhaustion exit (i.e. it is on a break arm)"""
    inner = body.loops()[h]
    # exhaustion exit target: successor outside the loop of the block that switches on next()
    exh = getattr(body, "_exh_reach", {}).get(h)
    if exh is None:
        exits = body.loop_exits(h)
        # the exit taken on None comes from the header's switch block: take the exit whose source is
        # closest to the header (first in block order)
        srcs = sorted((x for x in exits if not (body.blocks[x[1]]["term"]["k"] == "unreachable" and not body.blocks[x[1]]["stmts"])),
                      key=lambda x: x[0])
        tgt = srcs[0][1] if srcs else None
        enclosing = [hh for hh, blks in body.loops().items() if hh != h and h in blks]
        exh = body.reach(tgt, stop=enclosing) if tgt is not None else set()
        if not hasattr(body, "_exh_reach"):
            body._exh_reach = {}
        body._exh_reach[h] = exh
    return e.blk not in inner and e.blk not in exh



SCAN_METHODS = ("any", "all", "find", "position", "rposition")


def pipeline(body_of, it):
    """an iterator expression  base.iter()[.rev()] (.enumerate() | .filter(c) | .map(f) | .cloned() | .copied() | .clone())*
    -> dict(base = the underlying ('iter', xs, dir) term, enum = is the position visible, elem = the term the consumer
    sees for the visited element, guards = conditions every element that reaches the consumer satisfies (filters),
    skips = guard lists under which an element is filtered out, problems)"""
    from . import mir
    out = {"base": None, "bases": [], "enum": False, "elem": None, "guards": [], "skips": [], "problems": []}
    stages = []
    t = it
    extra_bases = []
    for _ in range(12):
        if isinstance(t, tuple) and t and t[0] == "clone":
            t = t[1]
            continue
        if isinstance(t, tuple) and t and t[0] == "call" and mir.method_name(t[1]) == "chain" and len(t[2]) == 2:
            # a.chain(b): the elements of a, then those of b; the stages above apply to both
            other = pipeline(body_of, t[2][1])
            if other["problems"] or other["guards"] or other["enum"] or other["elem"] != mir.T("elem", other["base"], None):
                out["problems"].append("chain() with a processed second iterator")
                return out
            extra_bases += other["bases"]
            t = t[2][0]
            continue
        if isinstance(t, tuple) and t and t[0] == "call" and mir.method_name(t[1]) in ("enumerate", "filter", "map", "flat_map", "cloned", "copied", "by_ref", "into_iter") and t[2]:
            stages.append((mir.method_name(t[1]), t[2][1] if len(t[2]) > 1 else None))
            t = t[2][0]
            continue
        break
    if not (isinstance(t, tuple) and t and t[0] == "iter"):
        out["problems"].append("not an iterator over a collection: %s" % mir.show(t)[:60])
        return out
    out["base"] = t
    out["bases"] = [t] + extra_bases
    cur = mir.T("elem", t, None)
    for m, clos in reversed(stages):
        if m == "enumerate":
            out["enum"] = True
            cur = mir.T("tuple", (mir.T("enumidx", t), cur))
        elif m in ("cloned", "copied", "by_ref", "into_iter"):
            pass
        elif m == "flat_map":
            # for each element x: every element of f(x), where f(x) is itself a plain iterator over a list of x
            if not (isinstance(clos, tuple) and clos and clos[0] == "closure"):
                out["problems"].append("flat_map with a non-closure argument")
                return out
            try:
                paths, cb = mir.walk_closure(body_of, clos, param_terms=[cur])
            except Exception as ex:
                out["problems"].append("flat_map closure: %s" % type(ex).__name__)
                return out
            rets = [p for p in paths if p.outcome[0] == "return"]
            if len(rets) != 1 or [e for e in rets[0].events if e.kind == "guard"]:
                out["problems"].append("flat_map closure is not a single expression")
                return out
            inner = rets[0].outcome[1]
            if not (isinstance(inner, tuple) and inner and inner[0] == "iter"):
                out["problems"].append("flat_map closure does not return a plain iterator")
                return out
            out["outer_elem"] = cur
            out["inner_iter"] = inner
            cur = mir.T("elem", inner, None)
        elif m in ("filter", "map"):
            if not (isinstance(clos, tuple) and clos and clos[0] == "closure"):
                out["problems"].append("%s with a non-closure argument" % m)
                return out
            try:
                paths, cb = mir.walk_closure(body_of, clos, param_terms=[cur])
            except Exception as ex:
                out["problems"].append("%s closure: %s" % (m, type(ex).__name__))
                return out
            rets = [p for p in paths if p.outcome[0] == "return"]
            if m == "map":
                if len(rets) != 1 or [e for e in rets[0].events if e.kind == "guard"]:
                    out["problems"].append("map closure is not a single expression")
                    return out
                cur = rets[0].outcome[1]
            else:
                keep, drop = [], []
                for p in rets:
                    gs = [(e.a, e.b) for e in p.events if e.kind == "guard"]
                    r = p.outcome[1]
                    v = mir.const_int(r)
                    if v is None:
                        leaves = []
                        bool_leaves(r, leaves)
                        if len(leaves) != 1:
                            out["problems"].append("filter closure result not a single atom")
                            return out
                        neg = isinstance(r, tuple) and r[0] == "not"
                        keep.append(gs + [(leaves[0], not neg)])
                        drop.append(gs + [(leaves[0], neg)])
                    else:
                        (keep if v else drop).append(gs)
                if len(keep) != 1:
                    out["problems"].append("filter closure keeps an element on %d different paths" % len(keep))
                    return out
                out["guards"] += keep[0]
                out["skips"] += [out["guards"][:-len(keep[0])] + d if len(keep[0]) else d for d in drop]
    out["elem"] = cur
    return out


def closure_scan(body_of, atom):
    """`xs.iter()[.rev()][.enumerate()].any|all|find|position|rposition(|x| c(x))` as a scan: -> ExistsLoop-like
    object; set_paths / cont_paths are the guard lists under which the closure returns true / false.  The visited
    element is ('elem', iter term, None); with enumerate() the closure sees the pair (('enumidx', iter term), element).
    .method is the adaptor, .enum whether the index is visible to the closure."""
    from . import mir
    el = ExistsLoop()
    el.method = None
    el.enum = False
    if not (isinstance(atom, tuple) and atom and atom[0] == "call" and mir.method_name(atom[1]) in SCAN_METHODS and len(atom[2]) == 2):
        el.problems.append("not a scan call")
        return el
    el.method = mir.method_name(atom[1])
    it, clos = atom[2]
    pl = pipeline(body_of, it)
    if pl["problems"] or not (isinstance(clos, tuple) and clos and clos[0] == "closure"):
        el.problems.append("scan shape: %s" % (pl["problems"][:1] or ["consumer is not a closure"]))
        return el
    el.enum = pl["enum"]
    it = pl["base"]
    el.iter_term = it
    param = pl["elem"]
    pre = pl["guards"]
    for skipped in pl["skips"]:
        el.cont_paths.append(skipped)
    try:
        paths, cb = mir.walk_closure(body_of, clos, param_terms=[param])
    except Exception as ex:
        el.problems.append("closure body: %s" % type(ex).__name__)
        return el
    for p in paths:
        if p.outcome[0] != "return":
            continue
        gs = pre + [(e.a, e.b) for e in p.events if e.kind == "guard"]
        r = p.outcome[1]
        v = mir.const_int(r)
        if v is None:
            # return of a boolean term: split
            leaves = []
            bool_leaves(r, leaves)
            if len(leaves) == 1:
                neg = isinstance(r, tuple) and r[0] == "not"
                el.set_paths.append(gs + [(leaves[0], not neg)])
                el.cont_paths.append(gs + [(leaves[0], neg)])
            else:
                el.problems.append("closure result not a single atom")
            continue
        (el.set_paths if v else el.cont_paths).append(gs)
    el.exhaustive = True
    if not el.set_paths:
        el.problems.append("closure never returns true")
    return el


def any_scan(body_of, atom):
    """`xs.iter().any(|x| c(x))` as an existential scan (see closure_scan)"""
    from . import mir
    if not (isinstance(atom, tuple) and atom and atom[0] == "call" and mir.method_name(atom[1]) == "any"):
        el = ExistsLoop()
        el.problems.append("not an any() call")
        return el
    return closure_scan(body_of, atom)



def expand_pure(body_of, facts, atom, value):
    """a guard on a crate-local pure predicate whose body is a plain conjunction (`a(x) && b(x) && c(x)`): when it is
    TRUE every conjunct is true -> list of implied (atom, value) pairs (with the arguments substituted); [] otherwise"""
    from . import mir
    if value is not True or not (isinstance(atom, tuple) and atom and atom[0] == "call" and atom[1] in getattr(facts, "bodies", {})):
        return []
    b = body_of(atom[1])
    if b.loops() or len(b.blocks) > 60:
        return []
    true_paths = []
    for p in mir.walk_function(b):
        if p.outcome[0] != "return":
            continue
        r = p.outcome[1]
        v = mir.const_int(r)
        gs = [(e.a, e.b) for e in p.events if e.kind == "guard"]
        if v is None:
            leaves = []
            bool_leaves(r, leaves)
            if len(leaves) != 1:
                return []
            neg = isinstance(r, tuple) and r[0] == "not"
            true_paths.append(gs + [(leaves[0], not neg)])
        elif v:
            true_paths.append(gs)
    if len(true_paths) != 1:
        return []
    m = {mir.T("param", i + 1, b.dbg.get(i + 1, "")): a for i, a in enumerate(atom[2])}
    return [(mir.subst(a, m) if isinstance(a, tuple) else a, v) for a, v in true_paths[0]]
