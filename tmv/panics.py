"""P9 — panic-site inventory for a call cone, with guard-based auto-discharge rules.

A *site* is an occurrence, on a walked path, of
  * a MIR Assert (bounds check, arithmetic overflow, division by zero), or
  * a call of a library function that panics on some inputs (table MAY_PANIC), or
  * a diverging call (explicit panic!/unreachable!/assert!).
Each site is keyed by (function, operation, operand signature) – no line numbers – and is either
discharged by one of the rules D1..D6 on EVERY path on which it occurs, or must be listed in the reviewed
ledger with a reason.
"""
import re

from . import mir, hirq
from .mir import T, show, method_name, const_int, mentions, subterms

MAY_PANIC = [
    (r"^std::option::Option::<T>::(unwrap|expect)$", "unwrap"),
    (r"^std::result::Result::<T, E>::(unwrap|expect|unwrap_err|expect_err)$", "unwrap"),
    (r"^<std::vec::Vec<T, A> as std::ops::Index(Mut)?<I>>::index(_mut)?$", "index"),
    (r"^core::slice::index::<impl std::ops::Index(Mut)?<I> for \[T\]>::index(_mut)?$", "index"),
    (r"^core::str::traits::<impl std::ops::Index<I> for str>::index$", "str-index"),
    (r"^<std::string::String as std::ops::Index<.*>>::index$", "str-index"),
    (r"^<std::collections::HashMap<K, V, S.*> as std::ops::Index<&Q>>::index$", "map-index"),
    (r"^std::vec::Vec::<T, A>::(remove|insert|swap_remove|drain|split_off)$", "vec-op"),
    (r"^core::slice::<impl \[T\]>::(copy_from_slice|split_at|split_at_mut|swap|chunks|windows|rotate_left|rotate_right)$", "slice-op"),
    (r"^(core|std)::panicking::", "panic"),
    (r"^std::rt::(begin_panic|panic_fmt)", "panic"),
    (r"^core::cell::RefCell::<T>::(borrow|borrow_mut)$", "refcell"),
    (r"^<std::time::Instant as std::ops::(Add|Sub)<std::time::Duration>>::(add|sub)$", "time-arith"),
    (r"^std::string::String::(remove|insert|insert_str|split_off|truncate|drain)$", "string-op"),
    (r"^core::str::<impl str>::split_at$", "str-index"),
]
MAY_PANIC = [(re.compile(p), k) for p, k in MAY_PANIC]


def may_panic_kind(name):
    for rx, k in MAY_PANIC:
        if rx.search(name):
            return k
    return None


def _sig(t):
    s = show(t) if isinstance(t, tuple) else str(t)
    s = re.sub(r"~L\d+", "~L", s)
    s = re.sub(r"@\d+", "", s)
    s = re.sub(r" \d+\)", ")", s)
    s = re.sub(r"promoted\[\d+\]", "promoted", s)
    s = re.sub(r"alloc\d+", "alloc", s)
    return s[:110]


class Site:
    def __init__(self, fn, op, sig, line):
        self.fn = fn
        self.op = op
        self.sig = sig
        self.line = line
        self.occ = 0
        self.discharged_by = set()
        self.undischarged = 0
        self.example = None

    def key(self):
        return "%s|%s|%s" % (self.fn, self.op, self.sig)


class Inventory:
    def __init__(self, ctx, roots, skip=lambda p: False):
        self.ctx = ctx
        self.cone = sorted(p for p in ctx.cone(roots) if not skip(p))
        self.sites = {}
        self.bodies_walked = 0
        self.paths = 0
        self.skipped_bodies = []
        self._hir_keylists = {}

    def run(self):
        for p in self.cone:
            b = self.ctx.body(p)
            if len(b.blocks) > 1500:
                # derive-generated giants (FromStr/Deserialize decision trees): no indexing by data-dependent values,
                # only constant-index byte reads guarded by the length switch; recorded, not walked path by path
                self.skipped_bodies.append(p)
                self._scan_raw(b)
                continue
            self.bodies_walked += 1
            try:
                segs = [("fn", mir.Walker(b, max_paths=6000).walk(0))]
                for h in sorted(b.loops()):
                    segs.append(("L%d" % h, mir.Walker(b, max_paths=6000).walk(h, start_is_header=True, stop_after_loop=True)))
            except mir.TooManyPaths:
                self.skipped_bodies.append(p)
                self._scan_raw(b)
                continue
            for tag, paths in segs:
                for path in paths:
                    self.paths += 1
                    self._path(b, path)

    # ---- raw scan for bodies that are not walked: every site undischarged unless constant-index-under-length-switch
    def _scan_raw(self, b):
        for i in sorted(b.live_blocks()):
            t = b.blocks[i]["term"]
            if t["k"] == "assert":
                msg = t["msg"]
                op = "assert:" + msg.split("(")[0].split(" ")[0]
                s = self._site(b.path, op, "generated", t["span"]["line"])
                s.occ += 1
                if msg.startswith("BoundsCheck") and self._const_index_under_len_switch(b, i):
                    s.discharged_by.add("D6:constant-index-below-the-length-selected-by-the-enclosing-switch")
                else:
                    s.undischarged += 1
            elif t["k"] == "call":
                name = mir.norm_callee(t)
                k = may_panic_kind(name)
                if k or "t" not in t:
                    s = self._site(b.path, "call:" + (k or "diverge") + ":" + method_name(name), "generated", t["span"]["line"])
                    s.occ += 1
                    s.undischarged += 1

    @staticmethod
    def _const_index_under_len_switch(b, blk):
        # BoundsCheck { len: PtrMetadata(_1), index: const c }: the block is reached only through the length switch arm
        # for a length > c.  Verified per block by walking back to the unique length switch.
        bb = b.blocks[blk]
        idx = None
        for st in bb["stmts"]:
            if st["k"] == "assign" and st["rv"]["k"] == "use" and st["rv"]["op"]["k"] == "const" and st["rv"]["op"]["c"]["ty"] == "usize":
                idx = int(st["rv"]["op"]["c"]["bits"])
        if idx is None:
            return False
        # walk predecessors until the switch on len
        seen = set()
        st = [blk]
        lens = set()
        while st:
            n = st.pop()
            if n in seen:
                continue
            seen.add(n)
            for p in b.pred(n):
                t = b.blocks[p]["term"]
                if t["k"] == "switch" and len(t["targets"]) > 3 and p in (0, 1, 2):
                    for v, tgt in t["targets"]:
                        if tgt == n or tgt in seen:
                            lens.add(int(v))
                else:
                    st.append(p)
        return bool(lens) and all(l > idx for l in lens)

    def _site(self, fn, op, sig, line):
        k = (fn, op, sig)
        if k not in self.sites:
            self.sites[k] = Site(fn, op, sig, line)
        return self.sites[k]

    # ---- one path
    def _path(self, b, path):
        evs = mir.context_events(b, path)
        guards = []
        for i, e in evs:
            if e.kind == "guard":
                guards.append((e.a, e.b))
                continue
            if e.kind == "assert":
                cond, expected, msg = e.a, e.b, e.c
                kind = msg.split("(")[0].split(" ")[0].strip()
                if kind.startswith("BoundsCheck"):
                    op = "assert:BoundsCheck"
                elif kind.startswith("Overflow"):
                    m = re.match(r"Overflow\((\w+)", msg)
                    op = "assert:Overflow:" + (m.group(1) if m else "?")
                else:
                    op = "assert:" + kind
                s = self._site(b.path, op, _sig(cond), e.span)
                s.occ += 1
                d = self._discharge_assert(b, path, i, e, op, guards)
                if d:
                    s.discharged_by.add(d)
                else:
                    s.undischarged += 1
                    s.example = s.example or [(_sig(a), v) for a, v in guards[-4:]]
                continue
            if e.kind == "call":
                k = may_panic_kind(e.a)
                term = b.blocks[e.blk]["term"]
                diverges = "t" not in term
                if not k and not diverges:
                    continue
                op = "call:%s:%s" % (k or "diverge", method_name(e.a))
                s = self._site(b.path, op, ", ".join(_sig(a) for a in e.b)[:160], e.span)
                s.occ += 1
                d = self._discharge_call(b, path, i, e, k, guards)
                if d:
                    s.discharged_by.add(d)
                else:
                    s.undischarged += 1
                    s.example = s.example or [(_sig(a), v) for a, v in guards[-4:]]

    # ---- discharge rules
    def _discharge_assert(self, b, path, i, e, op, guards):
        cond = e.a
        if op in ("assert:NullPointerDereference", "assert:MisalignedPointerDereference"):
            # debug-build pointer checks the compiler inserts around `vec![..]`/Box writes: the pointer is the fresh
            # allocation returned by Box::new_uninit on this very path
            if any(isinstance(s_, tuple) and s_ and s_[0] == "call" and method_name(s_[1]) in ("new_uninit", "new", "box_new") for s_ in subterms(cond)):
                return "D7:compiler-inserted-pointer-check-on-a-fresh-allocation"
            return None
        if op == "assert:BoundsCheck":
            # cond = Lt(index, len(v))
            if isinstance(cond, tuple) and cond[0] == "binop" and cond[1] == "Lt":
                idx, ln = cond[2], cond[3]
                v = ln[1] if isinstance(ln, tuple) and ln[0] == "len" else None
                return self._index_in_range(b, idx, v, guards, path, i)
            if isinstance(cond, tuple) and cond[0] == "not" and isinstance(cond[1], tuple) and cond[1][0] == "empty":
                # index 0 of a non-empty check
                v = cond[1][1]
                if _guard_nonempty(guards, v):
                    return "D3:non-empty-test-on-the-same-vector"
            return None
        if op.startswith("assert:Overflow"):
            return self._no_overflow(b, cond, guards)
        return None

    def _index_in_range(self, b, idx, v, guards, path=None, upto=None):
        if v is None:
            return None
        v = mir.strip(v)
        x = idx
        while isinstance(x, tuple) and x and x[0] == "cast":
            x = x[1]
        # D9: the index was found by v.iter().position(..)/rposition(..) (the Some payload) and v has not been
        # written since the search
        if (isinstance(x, tuple) and x[0] == "field" and isinstance(x[1], tuple) and x[1][0] == "variant" and x[1][2] == "Some"
                and isinstance(x[1][1], tuple) and x[1][1][0] == "call" and method_name(x[1][1][1]) in ("position", "rposition")
                and len(x[1][1][2]) == 2 and path is not None and upto is not None):
            c = x[1][1]
            it = c[2][0]
            # (position() counts the elements it has consumed: enumerate() in between changes what the closure sees,
            # not the count)
            while isinstance(it, tuple) and it and it[0] == "call" and method_name(it[1]) == "enumerate" and len(it[2]) == 1:
                it = it[2][0]
            if isinstance(it, tuple) and it[0] == "iter" and mir.strip(it[1]) == v:
                start = None
                for j, ev in enumerate(path.events[:upto]):
                    if ev.kind == "call" and ev.c == c:
                        start = j
                if start is not None:
                    clean = True
                    for ev in path.events[start + 1:upto]:
                        if ev.kind == "loop":
                            clean = False
                        if ev.kind == "store" and mir.mentions(ev.a, v):
                            clean = False
                        if ev.kind == "call" and any(mir.mentions(r, v) or mir.mentions(v, r) for r in (ev.d or ())):
                            clean = False
                    if clean:
                        return "D9:index-found-by-position()-on-the-same-unmodified-vector"
        # D2: induction variable of a range 0..len(v) (any direction) or i+1..len(v)
        if isinstance(x, tuple) and x[0] == "elem" and isinstance(x[1], tuple) and x[1][0] == "iter":
            r = x[1][1]
            if isinstance(r, tuple) and r[0] == "agg" and r[1] == "std::ops::Range" and len(r[3]) == 2:
                hi = r[3][1]
                if isinstance(hi, tuple) and hi[0] == "len" and mir.strip(hi[1]) == v:
                    # ... whose bound was read once, before the loop: the vector must not lose elements inside the loop
                    # (at most one per iteration when counting down: the index then stays below the new length)
                    h = b.innermost_loop(x[2]) if isinstance(x[2], int) else None
                    sh = self._loop_shrink(b, h, v) if h is not None else self.INF
                    rev = x[1][2] == "rev"
                    if sh == 0 or (rev and sh <= 1):
                        return "D2:index-is-the-induction-variable-of-a-range-up-to-len-of-the-same-vector(which-does-not-shrink-under-it)"
                    return None
                # range up to len - 1 (prefix)
        # while-countdown: loopvar with guard Ge(i,0) and decreasing from len-1 (recognised by ktloops for the mapper)
        if isinstance(x, tuple) and x[0] == "loopvar":
            ge = any(isinstance(a, tuple) and a[0] == "binop" and a[1] == "Ge" and a[2] == x and const_int(a[3]) == 0 and val is True for a, val in guards)
            if ge and self._countdown_from_len(b, x, v):
                return "D2:countdown-index-from-len-1-of-the-same-vector"
        # D3: len-1 under a non-empty test
        if isinstance(x, tuple) and x[0] == "binop" and x[1] == "Sub" and const_int(x[3]) == 1 and isinstance(x[2], tuple) and x[2][0] == "len" and mir.strip(x[2][1]) == v:
            if _guard_nonempty(guards, v):
                return "D3:len-1-under-a-non-empty-test"
        # explicit comparison guard  idx < len(v)  /  !(idx >= len(v))
        for a, val in guards:
            if isinstance(a, tuple) and a[0] == "binop" and a[2] == idx and isinstance(a[3], tuple) and a[3][0] == "len" and mir.strip(a[3][1]) == v:
                if (a[1] == "Lt" and val is True) or (a[1] == "Ge" and val is False):
                    return "D2:explicit-index<len-test"
        ci = const_int(x)
        if ci is not None:
            for a, val in guards:
                ec = mir.Walker._eq_const(a)
                if ec is not None and ec[0] == T("len", v) and val is True and ec[1] > ci:
                    return "D6:constant-index-below-the-tested-length"
                if a == T("len", v) and isinstance(val, int) and val > ci:
                    return "D6:constant-index-below-the-tested-length"
                if ci == 0 and _guard_nonempty(guards, v):
                    return "D3:index-0-under-a-non-empty-test"
        return None

    def _countdown_from_len(self, b, ivar, v):
        from . import ktloops
        h = ivar[1]
        il = ktloops.index_loop(b, h, ktloops.loop_enclosing_events(b, h))
        return il.kind == "while-countdown" and not [p for p in il.problems] and il.list_term == v and self._loop_shrink(b, h, v) <= 1

    # ---- how many elements can one iteration of loop h take out of vector v?  (0, 1, or INF = unknown / several)
    INF = 99
    _ONE = ("remove", "swap_remove", "pop")
    _MANY = ("truncate", "clear", "drain", "retain", "retain_mut", "dedup", "dedup_by", "dedup_by_key", "split_off", "shrink_to", "set_len")
    _KEEP = ("push", "insert", "extend", "extend_from_slice", "append", "sort", "sort_by", "sort_by_key", "sort_unstable", "reverse", "iter_mut",
             "get_mut", "last_mut", "first_mut", "index_mut", "as_mut_slice", "as_mut", "deref_mut", "next", "next_back", "reserve", "swap",
             "borrow_mut", "fmt", "write_str", "write_fmt", "push_str")

    def _loop_shrink(self, b, h, v):
        memo = self.__dict__.setdefault("_shrink_memo", {})
        key = ("L", b.path, h, v)
        if key not in memo:
            memo[key] = self.INF
            try:
                paths = mir.Walker(b, max_paths=6000).walk(h, start_is_header=True, stop_after_loop=True)
                memo[key] = max([self._path_shrink(b, p, v, 0) for p in paths if p.outcome[0] not in ("unreachable", "infeasible")] or [0])
            except mir.TooManyPaths:
                pass
        return memo[key]

    def _path_shrink(self, b, p, v, depth):
        n = 0
        for e in p.events:
            if e.kind == "store":
                tgt = mir.strip(e.a)
                if tgt == v or mir.mentions(v, tgt):
                    return self.INF
            elif e.kind == "loop":
                # an inner loop that takes elements out on a continuing path can do so any number of times
                try:
                    inner = mir.Walker(b, max_paths=6000).walk(e.a, start_is_header=True, stop_after_loop=True)
                except mir.TooManyPaths:
                    return self.INF
                for q in inner:
                    if q.outcome == ("backedge", e.a) and self._path_shrink(b, q, v, depth) > 0:
                        return self.INF
            elif e.kind == "call":
                m = method_name(e.a)
                args = e.b
                recv = mir.strip(args[0]) if args else None
                local = self.ctx.F.bodies.get(e.a) is not None
                if not local:
                    if recv == v:
                        if m in self._ONE:
                            n += 1
                        elif m in self._MANY:
                            return self.INF
                    if m == "append" and len(args) == 2 and mir.strip(args[1]) == v:
                        return self.INF
                    if m in ("take", "replace", "swap") and e.a.startswith("std::mem::") and any(mir.strip(a) == v for a in args):
                        return self.INF
                    if m not in self._ONE and m not in self._MANY and m not in self._KEEP:
                        for r in (e.d or ()):
                            r = mir.strip(r)
                            if r == v or mir.mentions(v, r):
                                return self.INF   # unknown std/foreign function holding `&mut` to (a container of) v
                    continue
                for k, a in enumerate(args):
                    r = mir.strip(a)
                    if r not in [mir.strip(x) for x in (e.d or ())]:
                        continue
                    if not (r == v or mir.mentions(v, r)):
                        continue
                    # v = r.f1.f2...  -> the same access path below the callee's parameter k
                    chain = []
                    t = v
                    ok = True
                    while t != r:
                        if isinstance(t, tuple) and t[0] == "field":
                            chain.append(t[2])
                            t = mir.strip(t[1])
                        else:
                            ok = False
                            break
                    if not ok or depth >= 3:
                        return self.INF
                    n += self._callee_shrink(e.a, k, tuple(reversed(chain)), depth + 1)
            if n >= self.INF:
                return self.INF
        return n

    def _callee_shrink(self, name, k, chain, depth):
        memo = self.__dict__.setdefault("_shrink_memo", {})
        key = ("F", name, k, chain)
        if key in memo:
            return memo[key]
        memo[key] = self.INF   # recursion guard
        cb = self.ctx.body(name)
        v2 = T("param", k + 1, cb.dbg.get(k + 1, ""))
        for f in chain:
            v2 = T("field", v2, f)
        try:
            paths = mir.Walker(cb, max_paths=6000).walk(0)
            memo[key] = max([self._path_shrink(cb, p, v2, depth) for p in paths if p.outcome[0] not in ("unreachable", "infeasible")] or [0])
        except mir.TooManyPaths:
            pass
        return memo[key]

    def _no_overflow(self, b, cond, guards):
        # cond = overflowed(op, a, b)
        if not (isinstance(cond, tuple) and cond[0] == "overflowed"):
            return None
        op, a, c = cond[1], cond[2], cond[3]
        cc = const_int(c)
        ua = a
        while isinstance(ua, tuple) and ua and ua[0] == "cast":
            ua = ua[1]
        if op == "Add" and cc is not None and 0 <= cc <= 2:
            ectx = self._closure_enum_ctx(b)
            if ectx is not None and mir.strip(ua) == ectx[0]:
                return "D10:enumerate-index-plus-small-constant-cannot-overflow"
            # i + small where i is bounded by a length / a range element / a usize counter below a length
            if isinstance(ua, tuple) and ua[0] in ("elem", "len"):
                return "D5:index-or-length-plus-small-constant-cannot-overflow"
            if isinstance(ua, tuple) and ua[0] in ("index", "field", "loopvar", "var"):
                # counters compared with a length on this path
                for g, val in guards:
                    if isinstance(g, tuple) and g[0] == "binop" and g[1] in ("Lt", "Le") and g[2] == a and val is True:
                        return "D5:counter-below-a-bound-plus-small-constant"
                return None
        if op == "Sub" and cc == 1:
            if isinstance(ua, tuple) and ua[0] == "len":
                v = mir.strip(ua[1])
                if isinstance(a, tuple) and a[0] == "cast" and a[2] in ("isize", "i64", "i128"):
                    return "D5:len-as-signed-minus-1-cannot-overflow"
                if _guard_nonempty(guards, v):
                    return "D3:len-1-under-a-non-empty-test"
                return None
            if isinstance(a, tuple) and a[0] == "loopvar":
                ge = any(isinstance(g, tuple) and g[0] == "binop" and g[1] == "Ge" and g[2] == a and const_int(g[3]) == 0 and val is True for g, val in guards)
                if ge and b.ltypes.get(a[2], "") in ("isize", "i64", "i32"):
                    return "D5:signed-counter>=0-minus-1-cannot-overflow"
        return None

    def _closure_enum_ctx(self, b):
        """for a closure body that is the argument of a scan/adaptor over  X.iter().enumerate()  with X captured by
        the closure: -> (index term, vector term) in the CLOSURE's vocabulary (index < len(vector)), else None"""
        memo = self.__dict__.setdefault("_enum_ctx", {})
        if b.path in memo:
            return memo[b.path]
        memo[b.path] = None
        if "::{closure" not in b.path:
            return None
        parent = b.path.rsplit("::{closure", 1)[0]
        if parent not in self.ctx.F.bodies:
            return None
        from . import tables
        pb = self.ctx.body(parent)
        found = None
        try:
            segs = [mir.Walker(pb, max_paths=3000).walk(0)] + [mir.Walker(pb, max_paths=3000).walk(h, start_is_header=True, stop_after_loop=True) for h in sorted(pb.loops())]
        except mir.TooManyPaths:
            return None
        for paths in segs:
            for p in paths:
                for ev in p.events:
                    if ev.kind != "call" or len(ev.b) != 2:
                        continue
                    clos = ev.b[1]
                    if not (isinstance(clos, tuple) and clos and clos[0] == "closure" and clos[1] == b.path):
                        continue
                    pl = tables.pipeline(self.ctx.body, ev.b[0])
                    if pl["problems"] or not pl["enum"] or pl["elem"] != T("tuple", (T("enumidx", pl["base"]), T("elem", pl["base"], None))):
                        continue
                    vec = mir.strip(pl["base"][1])
                    um = mir.closure_upvar_map(b, clos)
                    inside = [k for k, v in um.items() if mir.strip(v) == vec]
                    if inside:
                        found = (T("field", T("param", 2, b.dbg.get(2, "")), "0"), set(inside))
        memo[b.path] = found
        return found

    def _discharge_call(self, b, path, i, e, kind, guards):
        # D10: inside `X.iter().enumerate().<adaptor>(|(i, x)| ..)`:  X[i+1..] is in range (i < len(X))
        if kind == "index" and len(e.b) == 2:
            ectx = self._closure_enum_ctx(b)
            if ectx is not None:
                idx, vecs = ectx
                v, rng = mir.strip(e.b[0]), e.b[1]
                if v in {mir.strip(x) for x in vecs} and isinstance(rng, tuple) and rng[0] == "agg" and rng[1] == "std::ops::RangeFrom" \
                        and mir.strip(rng[3][0]) in (T("binop", "Add", idx, T("const", T("int", 1, "usize"))), idx):
                    return "D10:slice-from-(enumerate-index+1)-of-the-enumerated-vector"
        if kind == "unwrap" and e.b:
            arg = e.b[0]
            # D1: map.get("K").unwrap() under has_exactly_keys / has_at_least_keys(map, [.. "K" ..])
            if isinstance(arg, tuple) and arg[0] == "call" and method_name(arg[1]) == "get" and len(arg[2]) == 2:
                mp, key = arg[2]
                ks = key[1][1] if isinstance(key, tuple) and key[0] == "const" and isinstance(key[1], tuple) and key[1][0] == "str" else None
                if ks is not None:
                    for a, val in guards:
                        if val is True and isinstance(a, tuple) and a[0] == "call" and a[1] in ("layout_parsing_formatting::has_exactly_keys", "layout_parsing_formatting::has_at_least_keys") and a[2][0] == mp:
                            if ks in self._keylist(b, a):
                                return "D1:get(K).unwrap()-under-has_*_keys(map,[..K..])"
            # serde_json::to_value(<string literal>).unwrap(): serialising a &str cannot fail
            if isinstance(arg, tuple) and arg[0] == "call" and arg[1].startswith("serde_json::to_value") and len(arg[2]) == 1:
                a0 = arg[2][0]
                if isinstance(a0, tuple) and a0[0] == "const" and isinstance(a0[1], tuple) and a0[1][0] == "str":
                    return "D8:serde_json::to_value-of-a-string-literal-cannot-fail"
                # ... nor can serialising a primitive integer or bool (the type is the call's generic argument)
                site = arg[3] if len(arg) > 3 and isinstance(arg[3], int) else None
                if site is not None and site in b.blocks and b.blocks[site]["term"].get("k") == "call":
                    targs = " ".join(b.blocks[site]["term"].get("argtys", []))
                    if re.match(r"^&?&?([iu](8|16|32|64|128|size)|bool)$", targs.strip()):
                        return "D8:serde_json::to_value-of-a-primitive-integer-cannot-fail"
            # last().unwrap() / first().unwrap() under a non-empty test
            if isinstance(arg, tuple) and arg[0] == "call" and method_name(arg[1]) in ("last", "first", "pop") and arg[2]:
                v = mir.strip(arg[2][0])
                if _guard_nonempty(guards, v):
                    return "D3:last/first().unwrap()-under-a-non-empty-test"
        if kind == "index" and len(e.b) == 2:
            v, idx = mir.strip(e.b[0]), e.b[1]
            d = self._index_in_range(b, idx, v, guards, path, i)
            if d:
                return d
            if isinstance(idx, tuple) and idx[0] == "agg" and idx[1] == "std::ops::RangeFull":
                return "D6:full-range-slice-cannot-fail"
            # range slices: v[a..b]
            if isinstance(idx, tuple) and idx[0] == "agg" and idx[1] in ("std::ops::Range", "std::ops::RangeTo", "std::ops::RangeFrom"):
                ops = dict(zip(idx[4], idx[3]))
                hi = ops.get("end")
                lo = ops.get("start")
                ok_hi = hi is None or hi == T("len", v) or (isinstance(hi, tuple) and hi[0] == "binop" and hi[1] == "Sub" and hi[2] == T("len", v)
                                                           and const_int(hi[3]) == 1 and _guard_nonempty(guards, v))
                ok_lo = lo is None or const_int(lo) == 0
                if ok_hi and ok_lo:
                    return "D3:slice-0..len(-1)-under-a-non-empty-test"
        if kind == "vec-op" and method_name(e.a) == "remove" and len(e.b) == 2:
            v, idx = mir.strip(e.b[0]), e.b[1]
            d = self._index_in_range(b, idx, v, guards, path, i)
            if d:
                return "D4:remove-at-an-in-range-index(" + d.split(":")[0] + ")"
        return None

    def _keylist(self, b, atom):
        """string literals of the key list passed to has_*_keys at this call site (read from HIR by line)"""
        blk = atom[3]
        line = b.blocks[blk]["term"]["span"]["line"]
        root = b.path.split("::{closure")[0]
        if root not in self.ctx.F.hir:
            return []
        h = self.ctx.F.hir[root]
        out = []
        for c in hirq.calls(h["body"]):
            cal = hirq.callee_of(c)
            if cal in ("layout_parsing_formatting::has_exactly_keys", "layout_parsing_formatting::has_at_least_keys") and c["span"]["line"] == line:
                out += hirq.str_lits(hirq.resolve(h["body"], hirq.call_args(c)[1]))
        return out


def _guard_nonempty(guards, v):
    v = mir.strip(v)
    for a, val in guards:
        if a == T("empty", v) and val is False:
            return True
        if a == T("len", v) and ((isinstance(val, int) and val > 0) or (isinstance(val, tuple) and val[0] == "other" and 0 in val[1])):
            return True
        if isinstance(a, tuple) and a[0] == "binop" and a[2] == T("len", v):
            c = const_int(a[3])
            if (a[1] == "Gt" and c is not None and c >= 0 and val is True) or (a[1] == "Ge" and c is not None and c >= 1 and val is True):
                return True
    return False
