"""Shared context for rule modules: fact base access with fail-closed anchors, call graph (P1)."""
import collections

from . import mir
from .facts import Facts
from .report import Unrecognised


class Ctx:
    def __init__(self, facts, check, tier="quick"):
        self.F = facts
        self.check = check
        self.tier = tier
        self._bodies = {}
        self._cg = None

    # ---- anchors
    def has_body(self, path):
        return path in self.F.bodies

    def body(self, path):
        key = (path, mir.Walker.AUTO_INLINE)
        if key not in self._bodies:
            if path not in self.F.bodies:
                raise Unrecognised("missing-anchor:" + path)
            self._bodies[key] = mir.Body(self.F.bodies[path], self.F)
        return self._bodies[key]

    def bodies_with_prefix(self, prefix):
        return [self.body(p) for p in sorted(self.F.bodies) if p.startswith(prefix)]

    def all_bodies(self):
        return [self.body(p) for p in sorted(self.F.bodies)]

    def closures_of(self, path):
        return [self.body(p) for p in sorted(self.F.bodies) if p.startswith(path + "::{closure")]

    def hir(self, path):
        if path not in self.F.hir:
            raise Unrecognised("missing-anchor(hir):" + path)
        return self.F.hir[path]

    def adt(self, path):
        if path not in self.F.adts:
            raise Unrecognised("missing-anchor(adt):" + path)
        return self.F.adts[path]

    # ---- call graph over resolved callees (local functions only; closures are edges from the
    # function that constructs them)
    def callgraph(self):
        mode = mir.Walker.AUTO_INLINE
        if self._cg is not None and mode in self._cg:
            return self._cg[mode]
        cg = collections.defaultdict(set)
        away = self.F.spliced_away
        for p in self.F.bodies:
            if p.split("::{closure")[0] in away:
                continue      # a new helper that lives on inside its callers: its calls are its callers' calls
            b = self.body(p)
            for i in b.live_blocks():
                blk = b.blocks[i]
                t = blk["term"]
                if t["k"] == "call":
                    c = t["callee"]
                    name = c.get("resolved") or c.get("path")
                    if name:
                        cg[p].add(name)
                    # fn items passed as arguments (e.g. map(parse_x))
                    for a in t["args"]:
                        if a["k"] == "const" and "fn" in a["c"]:
                            cg[p].add(a["c"]["fn"])
                for st in blk["stmts"]:
                    if st["k"] == "assign":
                        rv = st["rv"]
                        if rv["k"] == "agg" and rv["agg"] == "closure":
                            cg[p].add(rv["def"])
                        # fn items used as values
                        for o in _rv_operands(rv):
                            if o["k"] == "const" and "fn" in o["c"]:
                                cg[p].add(o["c"]["fn"])
        if self._cg is None:
            self._cg = {}
        self._cg[mode] = cg
        return cg

    def cone(self, roots, local_only=True):
        cg = self.callgraph()
        seen = set()
        st = list(roots)
        while st:
            n = st.pop()
            if n in seen:
                continue
            seen.add(n)
            for m in cg.get(n, ()):
                if m in self.F.bodies or not local_only:
                    st.append(m)
        if local_only:
            return {n for n in seen if n in self.F.bodies}
        return seen

    def callers_of(self, name):
        return sorted(p for p, cs in self.callgraph().items() if name in cs)


def _rv_operands(rv):
    k = rv["k"]
    if k in ("use", "cast"):
        return [rv["op"]]
    if k == "binop":
        return [rv["a"], rv["b"]]
    if k == "unop":
        return [rv["a"]]
    if k == "agg":
        return rv["ops"]
    return []
