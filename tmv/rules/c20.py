"""C20 — an I/O failure stops the per-device loop at once.

R1  every call of a `Driver` trait method (and of every crate-local function that can reach
    one and returns a Result) in the cone of the per-device loop has its Result consumed only
    by a propagating idiom, and on the error edge nothing but the return is reachable.
R3  RealDriver: an Err of the underlying call becomes Err, except for the reviewed conversion
    table; the low-level reader/writer propagate read/write errors.
"""
from .. import mir
from ..mir import T, mentions, show, Walker
from ..report import Unrecognised

LEVEL = "other"
META = {
    "technique": "MIR path rule: error-propagation (must-return on the Err edge of every Driver call) + conversion-table agreement",
    "level_text": ("Structural proof over the control-flow graph: every one of the Driver call sites in the per-device "
                   "loop's call cone propagates its Result (`?`/equivalent) and nothing that writes or steps is reachable "
                   "on the error edge; RealDriver's error-to-Ok conversions equal a reviewed table. Every schedule and "
                   "fault position is a walk of that CFG, so the rule covers all of them; right level because the property "
                   "is a path-shape property, not a value property."),
    "level_note": ("Trusted: rustc front end and MIR construction, the tmfacts exporter, the path walker. Panics/unwinding "
                   "are not modelled. The rule decides propagation and the conversion table, not what the kernel returns."),
}

LOOP = "remapping_loop::do_remapping_loop_one_device"
DRIVER_TRAIT = "remapping_loop::Driver::"
MAPPER_CALLS = ("key_transforms::Mapper::step", "key_transforms::Mapper::release_all")

# error -> Ok conversions that are part of the design (property text: Busy on EAGAIN, device gone on
# ENODEV, time-out and interruption are not failures)
CONVERSIONS = {
    "<remapping_loop::RealDriver as remapping_loop::Driver>::next_keyboard": {("EAGAIN", "Busy"), ("ENODEV", "End")},
    "<remapping_loop::RealDriver as remapping_loop::Driver>::next_tablet": {("EAGAIN", "Busy"), ("ENODEV", "End")},
    "<remapping_loop::RealDriver as remapping_loop::Driver>::poll": {("TimedOut", "TimedOut"), ("Interrupted", "Interrupted")},
    "<remapping_loop::RealDriver as remapping_loop::Driver>::send": set(),
}


def is_driver_call(name):
    return name.startswith(DRIVER_TRAIT)


def driver_like_functions(ctx):
    """crate-local functions (outside impl Driver blocks) that can reach a Driver trait call"""
    cg = ctx.callgraph()
    direct = {p for p, cs in cg.items() if any(is_driver_call(c) for c in cs)}
    # transitive callers
    out = set(direct)
    changed = True
    while changed:
        changed = False
        for p, cs in cg.items():
            if p not in out and any(c in out for c in cs):
                out.add(p)
                changed = True
    return direct, out


def result_sources(ctx, body, drv_funcs):
    """(block, name, term) of calls in `body` that are failure sources: Driver methods, or local
    Result-returning functions that reach one"""
    out = []
    for i, name, t in body.calls():
        if is_driver_call(name):
            out.append((i, name, t))
        elif name in drv_funcs and name != body.path:
            dest = t["dest"]
            ty = body.ltypes.get(dest["l"], "") if not dest["p"] else ""
            if ty.startswith("std::result::Result<"):
                out.append((i, name, t))
            elif not name.startswith(LOOP + "::{closure"):
                out.append((i, name, t))
    return out


def check_propagation(ctx, ck, rule, body, blk, name, forbidden_blocks, is_forbidden_call):
    """the Result produced by the call terminating `blk` must be propagated.
    Returns a dict describing the obligation."""
    fn = body.path
    t = body.blocks[blk]["term"]
    label = "%s#%d" % (mir.method_name(name), _ordinal(body, blk, name))
    stops = set(forbidden_blocks) - {blk}
    # walk from the call block; loop headers and other driver/mapper calls end the walk
    stops |= set(body.loops().keys())
    w = Walker(body)
    try:
        paths = w.walk(blk, stops=stops, start_is_header=False)
    except mir.TooManyPaths:
        ck.unrecognised(rule, fn, "too-many-paths:" + label, site=t["span"]["line"])
        return
    # result term of this call
    R = None
    for p in paths:
        for e in p.events:
            if e.kind == "call" and e.blk == blk:
                R = e.c
                break
        if R is not None:
            break
    if R is None:
        ck.unrecognised(rule, fn, "no-result-term:" + label, site=t["span"]["line"])
        return
    bad = []
    err_paths = 0
    for p in paths:
        inspected = None
        for e in p.events:
            if e.kind == "guard" and isinstance(e.a, tuple) and e.a[0] == "variantof" and mentions(e.a[1], R):
                inner = e.a[1]
                if not _only_result_adapters(inner, R):
                    continue
                inspected = e
                break
        if inspected is None:
            # the path ends (stop/return/…) without ever looking at the result
            if p.outcome[0] == "return" and mir.strip(p.outcome[1]) == mir.strip(R):
                # `fn helper(..) -> Result<..> { ...; driver.send(evs) }`: the Result is handed to the caller as it is
                # (the helper is a failure source in its own right and its call sites are checked)
                err_paths += 1
                continue
            if p.outcome[0] == "diverge":
                bad.append(("result reaches a diverging call (unwrap/expect/panic) instead of being returned", p))
            else:
                bad.append(("result is not inspected before %s" % (p.outcome,), p))
            continue
        val = inspected.b
        is_err = val in ("Break", "Err")
        if not is_err:
            continue
        err_paths += 1
        # on the error edge: only the return, value must carry the error
        after = p.events[p.events.index(inspected) + 1:]
        calls_after = [e for e in after if e.kind == "call" and is_forbidden_call(e.a)]
        if calls_after:
            bad.append(("error edge reaches %s" % calls_after[0].a, p))
            continue
        if p.outcome[0] != "return":
            bad.append(("error edge does not return (continues to %s)" % (p.outcome,), p))
            continue
        ret = p.outcome[1]
        if not _is_err_of(ret, R):
            bad.append(("error edge returns a value that is not an Err derived from the failed call: %s" % show(ret)[:120], p))
    if err_paths == 0 and not bad:
        bad.append(("no error edge found for the result", None))
    ok = not bad
    detail = None
    if bad:
        why, p = bad[0]
        detail = why + ("" if p is None else " | path blocks %s" % (p.blocks[:30],))
    ck.ob(rule, fn, "propagate:" + label, ok, site="%s:%d" % (t["span"]["file"], t["span"]["line"]), detail=detail,
          witness={"paths": len(paths), "error_paths": err_paths})


def _only_result_adapters(term, R):
    """term is R itself, try(R), or a chain of map_err/… adapters around R"""
    while term != R:
        if not isinstance(term, tuple) or not term:
            return False
        if term[0] == "try":
            term = term[1]
        elif term[0] == "call" and mir.method_name(term[1]) in ("map_err", "or_else") and term[2]:
            term = term[2][0]
        else:
            return False
    return True


def _is_err_of(ret, R):
    if not isinstance(ret, tuple) or not ret:
        return False
    if ret[0] == "from_residual":
        return mentions(ret, R)
    if ret[0] == "agg" and ret[1] == "std::result::Result" and ret[2] == "Err":
        return mentions(ret, R)
    return False


def _ordinal(body, blk, name):
    same = [i for i, n, _ in body.calls() if n == name]
    same.sort()
    return same.index(blk) + 1 if blk in same else 0


def run(ctx):
    # this rule set follows crate-local helpers itself (each helper that reaches a Driver call is a failure source
    # of its own, checked at its call sites): the walker's automatic splicing of new helpers is switched off here
    saved = mir.Walker.AUTO_INLINE
    mir.Walker.AUTO_INLINE = False
    try:
        return _run(ctx)
    finally:
        mir.Walker.AUTO_INLINE = saved


def _run(ctx):
    ck = ctx.check
    ck.explanation = (
        "Path rule over the MIR control-flow graph of the per-device loop and of every crate-local "
        "function that can reach a Driver call: each Driver call's Result is consumed only by `?` or an "
        "equivalent match whose error edge returns an Err derived from it, and no SEND/STEP/RELALL/"
        "Driver call is reachable on that edge. Holds for every schedule and fault position because every "
        "execution is a walk of this CFG. RealDriver's error conversions are compared with a reviewed table.")
    ck.rule_text = ("instances = call sites of remapping_loop::Driver methods (and of local Result-returning "
                    "functions that reach one) in all non-test bodies; one obligation per site, plus one per "
                    "RealDriver method error path and per low-level read/write call")
    ck.trusted_base = ["rustc front end + MIR builder (nightly, -Zmir-opt-level=0)", "tmfacts exporter", "tmv path walker"]
    ck.assumptions = ["panics/unwinding are not modelled (a panic also ends the loop without further writes)"]
    loop = ctx.body(LOOP)
    direct, drv_funcs = driver_like_functions(ctx)
    # R1 ----------------------------------------------------------------
    nsites = 0
    for fn in sorted(drv_funcs):
        if fn.startswith("<") and " as remapping_loop::Driver>" in fn:
            continue
        body = ctx.body(fn)
        srcs = result_sources(ctx, body, drv_funcs)
        if fn != LOOP and fn not in ctx.cone([LOOP]):
            # callers of the loop (thread spawners etc.) are outside the property
            continue
        forb = {i for i, n, _ in body.calls() if is_driver_call(n) or n in MAPPER_CALLS or n in drv_funcs}
        for i, name, t in srcs:
            nsites += 1
            check_propagation(ctx, ck, "C20-R1", body, i, name, forb,
                              lambda n: is_driver_call(n) or n in MAPPER_CALLS or n in drv_funcs)
        ck.count("bodies_walked")
    ck.floor("C20-R1", "driver-call-sites", nsites, 5)
    # the loop's signature must be able to return the error
    rty = loop.ltypes.get(0, "")
    ck.ob("C20-R1", LOOP, "returns-result", rty.startswith("std::result::Result<"), detail="return type " + rty)

    # R3 ----------------------------------------------------------------
    nconv = 0
    for fn, allowed in sorted(CONVERSIONS.items()):
        # (the adapter is judged as one function: a new helper it hands the read's result to -- `classify_read(r, "keyboard")`
        # -- is copied into it first; helpers of the pinned tree stay calls)
        mir.Walker.AUTO_INLINE = True
        try:
            body = ctx.body(fn)
            paths = mir.walk_function(body)
        finally:
            mir.Walker.AUTO_INLINE = False
        # the underlying fallible call: first call whose result is matched as a Result
        seen_conv = set()
        err_paths = 0
        for p in paths:
            R = None
            for e in p.events:
                if e.kind == "guard" and isinstance(e.a, tuple) and e.a[0] == "variantof" and e.b == "Err":
                    R = e.a[1]
                    break
            if R is None:
                continue
            err_paths += 1
            if p.outcome[0] != "return":
                if p.outcome[0] == "unreachable":
                    continue
                ck.ob("C20-R3", fn, "error-path-returns", False, detail="error path ends in %s" % (p.outcome,))
                continue
            ret = p.outcome[1]
            conds = [e for e in p.events if e.kind == "guard" and mentions(e.a, R) and e is not None][1:]
            if ret[0] == "agg" and ret[2] == "Err":
                ok = mentions(ret, R)
                ck.ob("C20-R3", fn, "err->Err[%s]" % _cond_sig(conds, R), ok,
                      detail=None if ok else "Err value does not derive from the failed call")
                continue
            if ret[0] == "agg" and ret[2] == "Ok":
                payload = ret[3][0]
                pv = payload[2] if isinstance(payload, tuple) and payload and payload[0] == "agg" else show(payload)
                # which error values?
                vals = [e.b for e in conds if isinstance(e.b, str)]
                others = [e for e in conds if not isinstance(e.b, str)]
                key = (vals[-1] if vals else "?", pv)
                ok = (not others) and key in allowed
                seen_conv.add(key)
                nconv += 1
                ck.ob("C20-R3", fn, "err->Ok[%s=>%s]" % key, ok,
                      detail=None if ok else "an error of the underlying call is converted to Ok outside the reviewed table %s" % sorted(allowed))
                continue
            ck.ob("C20-R3", fn, "error-path-shape", False, detail="unrecognised return %s" % show(ret)[:100])
        if not err_paths:
            # the adapter written as one expression:  self.rw.w.send(evs).map_err(|e| format!(.., e))  -- map_err turns
            # Err(e) into Err(f(e)) and nothing else, so the failure of the underlying call is what is returned
            tails = [p for p in paths if p.outcome[0] == "return" and isinstance(mir.strip(p.outcome[1]), tuple) and mir.strip(p.outcome[1])[0] == "call"
                     and mir.method_name(mir.strip(p.outcome[1])[1]) == "map_err" and isinstance(mir.strip(p.outcome[1])[2][0], tuple) and mir.strip(p.outcome[1])[2][0][0] == "call"]
            rets_ = [p for p in paths if p.outcome[0] == "return"]
            if tails and len(tails) == len(rets_):
                err_paths = len(tails)
                ck.ob("C20-R3", fn, "err->Err[map_err]", True)
        ck.ob("C20-R3", fn, "has-error-path", err_paths > 0 or fn.endswith("::next_tablet") and err_paths > 0,
              detail="%d error paths" % err_paths)
        missing = allowed - seen_conv
        # a conversion that disappeared is not a C20 violation (it makes the loop stricter); note it
        if missing:
            ck.note("%s: conversions no longer present: %s" % (fn, sorted(missing)))
    ck.floor("C20-R3", "conversions", nconv, 4)

    # low-level reader/writer: nix read/write results propagate
    low = ["dev_input_rw::DevInputWriter::send", "dev_input_rw::DevInputReader::next",
           "tablet_mode_switch_reader::TabletModeSwitchReader::next"]
    nlow = 0
    for fn in low:
        body = ctx.body(fn)
        for i, name, t in body.calls():
            if name in ("nix::unistd::read", "nix::unistd::write"):
                nlow += 1
                check_propagation(ctx, ck, "C20-R3", body, i, name, set(), lambda n: n in ("nix::unistd::write",))
    ck.floor("C20-R3", "raw-io-calls", nlow, 2)


def _cond_sig(conds, R):
    out = []
    for e in conds:
        out.append(str(e.b) if isinstance(e.b, str) else "other")
    return ",".join(out) or "any"
