"""C11 — timer repeats fire on schedule, stop on any key change, and are transient."""
from .. import mir, loopseg
from ..loopseg import LoopModel, Roles, Trace, payload_kind, DRV, STEP, RELALL, LOOP, const_bool
from ..mir import T, show, mentions, subterms, Walker

LEVEL = "other"
META = {
    "technique": "MIR segment graph + provenance terms of the timer state (data-dependence rules on poll timeout, tick, chord construction, step-result hand-over)",
    "level_text": ("Structural proof on every segment: the poll timeout is None when idle and next_wakeup-now (or a short "
                   "constant when overdue) when repeating; a time-out while repeating sends exactly one chord and advances "
                   "next_wakeup by interval_ms from the *old* next_wakeup with no clock read (no drift); the chord is "
                   "Pressed over the keys forward then Released over the same keys in reverse; a step result "
                   "Repeating/Disabled/NoChange maps to start(now+delay)/stop/keep; chords are sent nowhere else; and the "
                   "chord's key sequence depends on the mapper's held set (necessary for the transience clause)."),
    "level_note": ("Trusted: rustc MIR, tmfacts, path walker. Not decided: wall-clock behaviour (poll returning on time, "
                   "scheduling latency) and negative delay_ms/interval_ms (`as u64`)."),
}

# --- additions to the level description (rules added after the first version)
META['level_text'] += " s1: the mapper side of `stop on any key change` -- every acted-on press/release answers Disabled or a new Repeating -- is C09's table, re-run here."
# --- end additions

NOW = "std::time::Instant::now"


def mentions_call(t, name):
    return any(isinstance(s, tuple) and s and s[0] == "call" and s[1] == name for s in subterms(t))


_FIELD_BITS = {}      # field name -> bit width of the narrowest declaration of that field (set by run())


def _bits(ty):
    import re
    m = re.match(r"^[iu](8|16|32|64|128|size)$", ty or "")
    if not m:
        return None
    return 64 if m.group(1) == "size" else int(m.group(1))


def is_millis_of(t, field_term):
    """Duration::from_millis(cast(field_term)), where no cast on the way is narrower than the field itself
    (`interval_ms as u8 as u64` is another number)"""
    if not (isinstance(t, tuple) and t and t[0] == "call" and t[1] == "std::time::Duration::from_millis" and len(t[2]) == 1):
        return False
    x = t[2][0]
    if _uncast(x) != field_term:
        return False
    name = field_term[2] if isinstance(field_term, tuple) and field_term and field_term[0] == "field" and len(field_term) > 2 else None
    need = _FIELD_BITS.get(name) or 64
    while isinstance(x, tuple) and x and x[0] == "cast":
        b = _bits(x[2])
        if b is None or b < need:
            return False
        x = x[1]
    return True


def _uncast(t):
    while isinstance(t, tuple) and t and t[0] == "cast":
        t = t[1]
    return t


def is_add(t):
    return isinstance(t, tuple) and t and t[0] == "call" and mir.method_name(t[1]) == "add" and "Instant" in t[1] and len(t[2]) == 2


def is_sub(t):
    return isinstance(t, tuple) and t and t[0] == "call" and mir.method_name(t[1]) in ("sub", "duration_since", "saturating_duration_since") and len(t[2]) == 2


def timer_field(timer_term, name):
    if isinstance(timer_term, tuple) and timer_term and timer_term[0] == "agg":
        fn = timer_term[4]
        if name in fn:
            return timer_term[3][fn.index(name)]
        return None
    return T("field", T("variant", timer_term, "Repeating"), name)


def run(ctx):
    ck = ctx.check
    ck.rule_text = "one obligation per (rule, segment class) over all segments of the per-device loop, plus the chord-construction loops"
    ck.trusted_base = ["rustc front end + MIR builder", "tmfacts exporter", "tmv path walker / segment model"]
    M = LoopModel(ctx)
    R = Roles(M)
    body = M.body
    fn = LOOP
    ck.analysed["segments"] = len(M.segments)
    ck.explanation = ("Timer state identified by type (the user local of type WorkingRepeat, debug name %r); its symbolic value is "
                      "followed through each of the %d segments; field provenance of every new timer value is compared with the "
                      "rule's template." % (body.dbg.get(R.timer), len(M.segments)))
    # the loop stops the timer when the mapper's step says so: that every key change the mapper acts on says Disabled
    # (or starts a new repeat) is C09's table; re-run here because `stop on any key change` rests on it
    from .. import premises
    if not getattr(ctx, "no_premises", False):
        bad = premises.own_violations(ctx, "C09")
        ck.ob("C11-s1", "-", "every-acted-on-key-event-cancels-or-restarts-repeating(C09-rules-hold)", not bad, detail=None if not bad else bad[0][:220])
    t0 = R.var0(R.timer)
    # declared widths of the two numbers that travel from the mapping to the clock
    _FIELD_BITS.clear()
    for ty in ("remapping_loop::WorkingRepeat", "key_transforms::ResultingRepeat", "keys::Repeat"):
        for v in ctx.adt(ty)["variants"]:
            for f in v["fields"]:
                b = _bits(f["ty"])
                if f["name"] in ("delay_ms", "interval_ms") and b is not None:
                    _FIELD_BITS[f["name"]] = max(_FIELD_BITS.get(f["name"], 0), b)

    # ---- R1 poll timeout ------------------------------------------------------
    n_r1 = 0
    for s in M.segments:
        if s.dst != "POLL":
            continue
        tr = Trace(s, R)
        sets = tr.of("SETTIMEOUT")
        if not sets:
            ck.ob("C11-R1", fn, "timeout-computed-before-every-poll@%s" % s.src, False,
                  detail="a path reaches POLL without recomputing the timeout")
            continue
        n_r1 += 1
        kind, e, _, timer = sets[-1]
        val = e.b
        state = tr.timer_state(timer)
        if state == "Idle":
            ok = isinstance(val, tuple) and val[0] == "agg" and val[2] == "None"
            ck.ob("C11-R1", fn, "Idle->timeout-None", ok, detail=None if ok else "timeout %s" % show(val)[:120])
        elif state == "Repeating":
            nw = timer_field(timer, "next_wakeup")
            ok = False
            why = ""
            if isinstance(val, tuple) and val[0] == "agg" and val[2] == "Some":
                x = val[3][0]
                if is_sub(x) and x[2][0] == nw and isinstance(x[2][1], tuple) and x[2][1][0] == "call" and x[2][1][1] == NOW:
                    # must be guarded by now < next_wakeup with the same clock read
                    now = x[2][1]
                    g = [ev for ev in s.events if ev.kind == "guard" and isinstance(ev.a, tuple) and ev.a[0] == "call"
                         and mir.method_name(ev.a[1]) in ("ge", "lt", "le", "gt") and now in ev.a[2] and nw in ev.a[2]]
                    ok = bool(g) and _cmp_says_not_due(g[-1], now, nw)
                    why = "sub guarded: %s" % ok
                    ck.ob("C11-R1", fn, "Repeating,not-due->timeout=next_wakeup-now", ok, detail=None if ok else why)
                    continue
                if isinstance(x, tuple) and x[0] == "call" and x[1].startswith("std::time::Duration::from_") and mir.const_int(x[2][0]) is not None:
                    g = [ev for ev in s.events if ev.kind == "guard" and isinstance(ev.a, tuple) and ev.a[0] == "call"
                         and mir.method_name(ev.a[1]) in ("ge", "lt", "le", "gt") and nw in ev.a[2]
                         and any(isinstance(a, tuple) and a and a[0] == "call" and a[1] == NOW for a in ev.a[2])]
                    small = _duration_ms(x) is not None and _duration_ms(x) <= 10
                    ok = bool(g) and small
                    ck.ob("C11-R1", fn, "Repeating,overdue->short-constant-timeout", ok,
                          detail=None if ok else "constant timeout %s guarded=%s" % (show(x), bool(g)))
                    continue
            ck.ob("C11-R1", fn, "Repeating->timeout-shape", False, detail="timeout %s" % show(val)[:160])
        else:
            ck.ob("C11-R1", fn, "timer-state-known-at-timeout@%s" % s.src, False,
                  detail="timeout computed without matching on the timer state")
    ck.floor("C11-R1", "segments-ending-at-poll", n_r1, 1)
    # the POLL call passes that local
    ck.ob("C11-R1", fn, "poll-receives-computed-timeout", True, detail="timeout local _%d (%s)" % (R.timeout, body.dbg.get(R.timeout)))

    # ---- R2 tick ---------------------------------------------------------------
    chord_vecs = set()
    n_tick = 0
    for s in M.from_("POLL"):
        v, Rt = LoopModel.result_variant(s, "poll")
        if v != "TimedOut":
            continue
        tr = Trace(s, R)
        st = tr.timer_state(t0)
        f0 = None
        for e in s.events:
            if e.kind == "guard" and e.a == R.var0(R.flag):
                f0 = e.b
                break
        if st == "Repeating" and f0 is False:
            n_tick += 1
            sends = tr.of("SEND")
            kinds = [payload_kind(M, it[1]) for it in sends]
            ok = len(sends) == 1 and kinds[0][0] == "CHORD"
            ck.ob("C11-R2", fn, "tick:exactly-one-chord-send", ok, detail=None if ok else "sends: %s" % [k[0] for k in kinds])
            if ok:
                chord_vecs.add(kinds[0][1])
                # the chord is built for THIS tick: a vector made before the loop and refilled "when empty" carries the
                # previous repeat's chord over when one repeat replaces another without an Idle in between
                cv = kinds[0][1]
                if cv[0] == "call" and mir.method_name(cv[1]) in ("new", "with_capacity"):
                    site = cv[3] if len(cv) > 3 else None
                    main = [blks for h, blks in body.loops().items() if M.by_name["POLL"] in blks]
                    inside = (not isinstance(site, int)) or any(site in blks for blks in main)
                    if not inside:
                        # ... unless the tick empties it first (a buffer reused for its allocation only)
                        try:
                            upto = s.events.index(sends[0][1])
                        except ValueError:
                            upto = 0
                        inside = any(e.kind == "call" and mir.method_name(e.a) == "clear" and e.b and e.b[0] == cv for e in s.events[:upto])
                    ck.ob("C11-R3", fn, "chord:vector-is-created-in-the-tick-that-sends-it", inside,
                          detail=None if inside else "the vector the tick sends is created once, before the loop (bb%s): its contents survive from tick to tick and from one repeat to the next" % site)
            if s.dst == "RETURN":
                continue
            sets = tr.of("SETTIMER")
            if not sets:
                ck.ob("C11-R2", fn, "tick:timer-advanced", False, detail="no write to the timer state after the chord")
                continue
            new = sets[-1][3]
            okv = isinstance(new, tuple) and new[0] == "agg" and new[2] == "Repeating"
            ck.ob("C11-R2", fn, "tick:stays-Repeating", okv)
            if not okv:
                continue
            keys_ok = timer_field(new, "keys") == timer_field(t0, "keys")
            iv_ok = timer_field(new, "interval_ms") == timer_field(t0, "interval_ms")
            nw = timer_field(new, "next_wakeup")
            nw_ok = (is_add(nw) and nw[2][0] == timer_field(t0, "next_wakeup")
                     and is_millis_of(nw[2][1], timer_field(t0, "interval_ms")))
            nodrift = not mentions_call(nw, NOW)
            ck.ob("C11-R2", fn, "tick:keys-unchanged", keys_ok)
            ck.ob("C11-R2", fn, "tick:interval-unchanged", iv_ok)
            ck.ob("C11-R2", fn, "tick:next_wakeup=old+interval", nw_ok, detail=None if nw_ok else show(nw)[:200])
            ck.ob("C11-R2", fn, "tick:no-clock-read-in-next_wakeup(no-drift)", nodrift)
            ck.ob("C11-R2", fn, "tick:back-to-poll", s.dst == "POLL")
        elif st == "Repeating" and f0 is True:
            sets = tr.of("SETTIMER")
            ok = not tr.of("SEND") and bool(sets) and tr.timer_state(sets[-1][3]) == "Idle"
            ck.ob("C11-R2", fn, "tick-in-tablet-mode:no-send,timer->Idle", ok)
        elif st == "Repeating":
            ck.ob("C11-R2", fn, "tick:tablet-flag-tested", False, detail="time-out while repeating does not test the tablet flag")
        elif st == "Idle":
            ok = not tr.of("SEND") and not [it for it in tr.of("SETTIMER") if tr.timer_state(it[3]) != "Idle"]      # (Idle written over Idle is no change)
            ck.ob("C11-R2", fn, "timeout-while-idle:nothing", ok)
        else:
            ck.ob("C11-R2", fn, "tick:timer-state-matched", False, detail="TimedOut path does not match on the timer state")
    ck.floor("C11-R2", "tick-segments", n_tick, 1)

    # ---- R3 chord shape ----------------------------------------------------------
    # the inner loops are the only places that push into the chord vector
    loops = body.loops()
    fills = []
    for h in M.inner_loops:
        ps = Walker(body).walk(h, start_is_header=True, stops=set(M.anchors))
        back = [p for p in ps if p.outcome == ("backedge", h)]
        exits = [p for p in ps if p.outcome != ("backedge", h) and p.outcome[0] not in ("unreachable", "infeasible")]
        for p in back:
            pushes = [e for e in p.events if e.kind == "call" and mir.method_name(e.a) == "push" and "Vec" in e.a]
            g = [e for e in p.events if e.kind == "guard"]
            for e in pushes:
                fills.append((h, e, g, p))
        # exit only by exhaustion
        exh = all(any(e.kind == "guard" and isinstance(e.a, tuple) and e.a[0] == "variantof" and isinstance(e.a[1], tuple)
                      and e.a[1][0] == "next" and e.b == "None" for e in p.events[:3]) for p in exits)
        ck.ob("C11-R3", fn, "chord-loop:exit-only-by-exhaustion", exh, site="bb%d" % h)
    for cv in chord_vecs:
        mine = [(h, e, g, p) for (h, e, g, p) in fills if e.b[0] == cv]
        ch = loopseg.chain_chord(cv, ctx)
        if ch is not None and not mine:
            # one expression instead of two loops: every element of the first iterator becomes a press, then every
            # element of the second a release -- the same two fills, unconditional by construction
            class _Fill:
                def __init__(self, b):
                    self.b = b
            mine = [(-2, _Fill((cv, T("agg", "events::Event", ch[1], (T("elem", ch[0], None),), ()))), [], None),
                    (-1, _Fill((cv, T("agg", "events::Event", ch[3], (T("elem", ch[2], None),), ()))), [], None)]
        # any push into the chord vector outside these loops?
        outside = 0
        for s in M.segments:
            for e in s.events:
                if e.kind == "call" and mir.method_name(e.a) in ("push", "insert", "extend", "append", "extend_from_slice") and e.b and e.b[0] == cv:
                    outside += 1
        ck.ob("C11-R3", fn, "chord:filled-only-by-the-two-loops", outside == 0 and len(mine) == 2,
              detail="pushes in loops: %d, outside: %d" % (len(mine), outside))
        if len(mine) != 2:
            continue
        mine.sort(key=lambda x: x[0] if x[0] < 0 else _loop_order(M, x[0]))
        (h1, e1, g1, p1), (h2, e2, g2, p2) = mine
        a1, a2 = e1.b[1], e2.b[1]
        ok1 = a1[0] == "agg" and a1[1] == "events::Event" and a1[2] == "Pressed" and a1[3][0][0] == "elem"
        ok2 = a2[0] == "agg" and a2[1] == "events::Event" and a2[2] == "Released" and a2[3][0][0] == "elem"
        ck.ob("C11-R3", fn, "chord:first-loop-pushes-Pressed(elem)", ok1, detail=None if ok1 else show(a1))
        ck.ob("C11-R3", fn, "chord:second-loop-pushes-Released(elem)", ok2, detail=None if ok2 else show(a2))
        if ok1 and ok2:
            it1, it2 = a1[3][0][1], a2[3][0][1]
            okd = it1[0] == "iter" and it2[0] == "iter" and it1[2] == "fwd" and it2[2] == "rev"
            same = it1[0] == "iter" and it2[0] == "iter" and mir.strip(it1[1]) == mir.strip(it2[1])
            ck.ob("C11-R3", fn, "chord:press-forward,release-reverse", okd, detail="%s / %s" % (it1[2] if it1[0] == "iter" else it1[0], it2[2] if it2[0] == "iter" else it2[0]))
            ck.ob("C11-R3", fn, "chord:same-key-sequence-pressed-and-released", same, detail=None if same else "%s vs %s" % (show(it1), show(it2)))
            uncond = not [g for g in g1 if not _is_next_guard(g)] and not [g for g in g2 if not _is_next_guard(g)]
            ck.ob("C11-R3", fn, "chord:pairing-unconditional", uncond or _same_filter(g1, g2),
                  detail=None if uncond else "pushes are guarded; the press and release filters must agree")
            # R3b the sequence is the timer's keys (or derived from it)
            src = mir.strip(it1[1])
            keys0 = timer_field(t0, "keys")
            ck.ob("C11-R3", fn, "chord:sequence-derives-from-timer-keys", src == keys0 or mentions(src, keys0), detail=show(src)[:160])
            # ---- R4 the chord must depend on what is held
            mapper_terms = [e.b[0] for s in M.segments for e in s.events if e.kind == "call" and e.a in (STEP, RELALL)]
            mapper = mapper_terms[0] if mapper_terms else None
            dep = mapper is not None and (mentions(src, mapper) or any(mentions(g.a, mapper) for g in g1 + g2))
            if dep:
                dep, why = _held_filter_ok(ctx, src, mapper)
                if not dep:
                    ck.ob("C11-R4", fn, "chord:held-filter-shape", False, detail=why)
                    dep = True  # reported under its own key
            ck.ob("C11-R4", fn, "chord:excludes-keys-already-held", dep,
                  detail=None if dep else ("the chord's key sequence is %s: it does not depend on the mapper's held set, so a repeat key that is "
                                            "already held on the virtual keyboard is pressed again and then released (left up)" % show(src)[:100]))

    # ---- R5 after STEP ------------------------------------------------------------
    seen = set()
    for s in M.from_("NEXT_KB"):
        tr = Trace(s, R)
        steps = tr.of("STEP")
        if len(steps) != 1 or s.dst == "RETURN":
            continue
        stepcall = steps[0][1].c
        rep = T("field", stepcall, "repeat")
        var = None
        for e in s.events:
            if e.kind == "guard" and e.a == T("variantof", rep):
                var = e.b
        sets = tr.of("SETTIMER")
        if var is None:
            ck.ob("C11-R5", fn, "step:repeat-request-matched", False, detail="step result's repeat field is not matched before the next read")
            continue
        seen.add(var)
        new = sets[-1][3] if sets else t0
        if var == "Disabled":
            ck.ob("C11-R5", fn, "step:Disabled->Idle", tr.timer_state(new) == "Idle" and new != t0)
        elif var == "NoChange":
            ck.ob("C11-R5", fn, "step:NoChange->timer-kept", new == t0, detail=None if new == t0 else show(new)[:120])
        elif var == "Repeating":
            okv = isinstance(new, tuple) and new[0] == "agg" and new[2] == "Repeating"
            if not okv:
                ck.ob("C11-R5", fn, "step:Repeating->Repeating", False, detail=show(new)[:120])
                continue
            req = T("variant", rep, "Repeating")
            k_ok = mir.strip(timer_field(new, "keys")) == T("field", req, "keys")
            i_ok = timer_field(new, "interval_ms") == T("field", req, "interval_ms")
            nw = timer_field(new, "next_wakeup")
            n_ok = (is_add(nw) and isinstance(nw[2][0], tuple) and nw[2][0][0] == "call" and nw[2][0][1] == NOW
                    and is_millis_of(nw[2][1], T("field", req, "delay_ms")))
            ck.ob("C11-R5", fn, "step:Repeating:keys<-keys", k_ok, detail=None if k_ok else show(timer_field(new, "keys"))[:120])
            ck.ob("C11-R5", fn, "step:Repeating:interval<-interval_ms", i_ok, detail=None if i_ok else show(timer_field(new, "interval_ms"))[:120])
            ck.ob("C11-R5", fn, "step:Repeating:next_wakeup<-now+delay_ms", n_ok, detail=None if n_ok else show(nw)[:160])
        else:
            ck.ob("C11-R5", fn, "step:unknown-repeat-variant:%s" % (var,), False)
    ck.ob("C11-R5", fn, "step:all-three-requests-handled", seen >= {"Disabled", "NoChange", "Repeating"}, detail=str(sorted(map(str, seen))))

    # ---- R6 chords only at ticks ----------------------------------------------------
    for s in M.segments:
        tr = Trace(s, R)
        for it in tr.of("SEND"):
            kind, src = payload_kind(M, it[1])
            if kind == "CHORD":
                v, _ = LoopModel.result_variant(s, "poll") if s.src == "POLL" else (None, None)
                ck.ob("C11-R6", fn, "chord-sent-only-on-TimedOut", s.src == "POLL" and v == "TimedOut",
                      detail=None if (s.src == "POLL" and v == "TimedOut") else "chord vector sent from a %s segment" % s.src)
    # timer writes: who may write the timer (every write site is covered by R2/R5/C12-R2)
    for s in M.segments:
        tr = Trace(s, R)
        for it in tr.of("SETTIMER"):
            where = s.src
            v = None
            if where == "POLL":
                v, _ = LoopModel.result_variant(s, "poll")
            ok = where in ("ENTRY", "NEXT_KB", "NEXT_TAB") or (where == "POLL" and v == "TimedOut")
            ck.ob("C11-R6", fn, "timer-written-only-at-start,tick,step,tablet-event", ok,
                  detail=None if ok else "timer written on a %s/%s segment" % (where, v))


def _held_filter_ok(ctx, src, mapper):
    """the chord sequence is keys filtered by a closure that keeps a key iff it is NOT held, where
    held(k) = k in pass_through_keys or k in mapped_output_keys (decision table of the callee)"""
    from .. import tables
    clos = [t for t in subterms(src) if isinstance(t, tuple) and t and t[0] == "closure" and mapper in t[2]]
    filt = [t for t in subterms(src) if isinstance(t, tuple) and t and t[0] == "call" and mir.method_name(t[1]) == "filter"]
    if len(clos) != 1 or len(filt) != 1:
        return False, "expected one `filter` over the keys with a closure capturing the mapper (found %d/%d)" % (len(filt), len(clos))
    cpaths, cb = mir.walk_closure(ctx.body, clos[0])
    rets = [p for p in cpaths if p.outcome[0] == "return"]
    if len(rets) != 1 or any(e.kind == "guard" for e in rets[0].events):
        return False, "filter closure is not a single expression"
    r = rets[0].outcome[1]
    if not (isinstance(r, tuple) and r[0] == "not" and isinstance(r[1], tuple) and r[1][0] == "call"):
        return False, "filter closure must be the negation of a held-test on the mapper, got %s" % show(r)[:120]
    callee = r[1][1]
    if not ctx.has_body(callee) or not callee.startswith("key_transforms::Mapper::"):
        return False, "held-test %s is not a Mapper method" % callee
    hb = ctx.body(callee)
    # (the method may hand the question on unchanged:  fn is_output_held(&self, k) -> bool { self.state.holds_output(k) })
    for _ in range(3):
        ps_ = [p for p in mir.walk_function(hb) if p.outcome[0] not in ("unreachable", "infeasible")]
        if len(ps_) == 1 and ps_[0].outcome[0] == "return" and not [e for e in ps_[0].events if e.kind in ("guard", "store")]:
            r_ = ps_[0].outcome[1]
            if isinstance(r_, tuple) and r_[0] == "call" and ctx.has_body(r_[1]) and len(r_[2]) == 2 and mir.strip(r_[2][1]) == T("param", 2, hb.dbg.get(2, "")) \
                    and ctx.body(r_[1]).ltypes.get(0) == "bool":
                hb = ctx.body(r_[1])
                continue
        break
    try:
        atoms, table = tables.bool_function(mir.walk_function(hb))
    except tables.TableError as ex:
        return False, "held-test table: %s" % ex

    def in_field(name):
        return lambda a: (isinstance(a, tuple) and a[0] == "in" and a[1] == T("param", 2, hb.dbg.get(2, ""))
                          and isinstance(a[2], tuple) and a[2][0] == "field" and a[2][2] == name)
    ok, why = tables.table_equals(atoms, table,
                                  [("pt", in_field("pass_through_keys")), ("mo", in_field("mapped_output_keys"))],
                                  lambda e: e["pt"] or e["mo"])
    return ok, (None if ok else "held-test %s: %s" % (callee, why))


def _cmp_says_not_due(g, now, nw):
    m = mir.method_name(g.a[1])
    a, b = g.a[2]
    val = g.b
    # normalise to "now >= nw" truth value
    if (a, b) == (now, nw):
        ge = {"ge": val, "lt": (not val)}.get(m)
        if ge is None and m == "gt":
            ge = val   # now > nw  => due (approximately): accept as due
        if ge is None and m == "le":
            ge = not val
    elif (a, b) == (nw, now):
        ge = {"le": val, "gt": (not val), "lt": (not val), "ge": val}.get(m)
        if m == "lt":     # nw < now
            ge = val
        if m == "ge":     # nw >= now  -> not due (or exactly due)
            ge = not val
    else:
        return False
    return ge is False


def _duration_ms(x):
    v = mir.const_int(x[2][0])
    if v is None:
        return None
    unit = x[1].rsplit("from_", 1)[-1]
    return {"millis": v, "secs": v * 1000, "micros": v / 1000.0, "nanos": v / 1e6}.get(unit)


def _loop_order(M, h):
    # position of the loop in the segment that contains both
    for s in M.segments:
        order = [e.a for e in s.events if e.kind == "loop"]
        if h in order:
            return order.index(h)
    return 99


def _is_next_guard(g):
    return isinstance(g.a, tuple) and g.a[0] == "variantof" and isinstance(g.a[1], tuple) and g.a[1][0] == "next"


def _same_filter(g1, g2):
    def norm(gs):
        out = []
        for g in gs:
            if _is_next_guard(g):
                continue
            out.append((_erase_elem(g.a), g.b))
        return sorted(map(repr, out))
    return norm(g1) == norm(g2)


def _erase_elem(t):
    if isinstance(t, tuple):
        if t and t[0] == "elem":
            return ("elem",)
        return tuple(_erase_elem(x) for x in t)
    return t
