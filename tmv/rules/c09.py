"""C09 — custom-repeat requests are issued and cancelled at exactly the right steps."""
from .. import mir, kt
from ..kt import MOD, list_of
from ..mir import T, show, method_name, Walker, const_int

LEVEL = "other"
META = {
    "technique": "finite abstract interpretation of the `repeat` field over all return paths (variant sets with field provenance) + who-may-construct rules + decision table of Mapper::step",
    "level_text": ("Every return path of step/newly_press/newly_release/add_new_mapping is followed symbolically for the value of the "
                   "result's `repeat` field (through StepResult::empty and StepResult::append, whose summaries are read from their "
                   "own MIR): Repeating is constructed only in add_new_mapping under the Special arm with keys/delay/interval taken "
                   "from exactly that mapping's repeat; NoChange only on the two ignored arms of step, which touch no state; every "
                   "other acted-on event yields Disabled. These cases partition all paths of step, for every layout and history."),
    "level_note": "Trusted: rustc MIR, tmfacts, path walker. Which mapping fires is C03; what the loop does with the request is C11.",
}

RR = "key_transforms::ResultingRepeat"
SR = "key_transforms::StepResult"


def repeat_of_paths(ctx, body, summaries):
    """for each return path of `body`: the symbolic final value of the returned StepResult's repeat field.
    -> list of (path, repeat term, problems)"""
    out = []
    for p in mir.walk_function(body):
        if p.outcome[0] != "return":
            continue
        rep = {}      # StepResult term -> repeat term
        probs = []

        def repeat_field(t):
            t = mir.strip(t)
            if t in rep:
                return rep[t]
            if isinstance(t, tuple) and t:
                if t[0] == "agg" and t[1] == SR:
                    return t[3][t[4].index("repeat")]
                if t[0] == "call" and t[1] in summaries:
                    return summaries[t[1]](t)
            return T("field", t, "repeat")
        for e in p.events:
            if e.kind == "store" and isinstance(e.a, tuple) and e.a[0] == "field" and e.a[2] == "repeat":
                rep[mir.strip(e.a[1])] = e.b
            elif e.kind == "call" and e.a == MOD + "StepResult::append":
                dst, src = mir.strip(e.b[0]), e.b[1]
                rep[dst] = repeat_field(src)
        ret = p.outcome[1]
        out.append((p, repeat_field(ret), probs))
    return out


def variant(t):
    if isinstance(t, tuple) and t and t[0] == "agg" and t[1] == RR:
        return t[2]
    return None


def run(ctx):
    ck = ctx.check
    K = kt.KT(ctx)
    ck.rule_text = "one obligation per return-path class of step/newly_press/newly_release/add_new_mapping and per ResultingRepeat construction site"
    ck.trusted_base = ["rustc front end + MIR builder", "tmfacts exporter", "tmv path walker"]

    # ---- summaries of the two helpers, read from their bodies
    emp = ctx.body(MOD + "StepResult::empty")
    eps = [p for p in mir.walk_function(emp) if p.outcome[0] == "return"]
    emp_ok = len(eps) == 1 and isinstance(eps[0].outcome[1], tuple) and eps[0].outcome[1][0] == "agg" and eps[0].outcome[1][1] == SR
    emp_rep = None
    if emp_ok:
        a = eps[0].outcome[1]
        emp_rep = a[3][a[4].index("repeat")]
        ev_t = a[3][a[4].index("events")]
        emp_ok = variant(emp_rep) == "Disabled" and isinstance(ev_t, tuple) and ev_t[0] == "call" and method_name(ev_t[1]) in ("new",)
    ck.ob("C09-S", emp.path, "summary:empty()={events:[],repeat:Disabled}", emp_ok)
    if not ctx.has_body(MOD + "StepResult::append"):
        # (the helper is gone -- nothing appends one result to another any more; the per-function rules below read what
        # each function returns directly)
        app = None
        aps = []
        app_ok = True
    else:
        app = ctx.body(MOD + "StepResult::append")
        aps = [p for p in mir.walk_function(app) if p.outcome[0] == "return"]
        app_ok = False
    if len(aps) == 1:
        me = T("param", 1, app.dbg.get(1, ""))
        ot = T("param", 2, app.dbg.get(2, ""))
        stores = [e for e in aps[0].events if e.kind == "store"]
        appends = [e for e in aps[0].events if e.kind == "call" and method_name(e.a) == "append"]
        app_ok = (len(stores) == 1 and stores[0].a == T("field", me, "repeat") and stores[0].b == T("field", ot, "repeat")
                  and len(appends) == 1 and appends[0].b == (T("field", me, "events"), T("field", ot, "events"))
                  and not any(e.kind == "guard" for e in aps[0].events))
    ck.ob("C09-S", MOD + "StepResult::append", "summary:append(self,other):repeat:=other.repeat,events+=other.events", app_ok)
    summaries = {MOD + "StepResult::empty": (lambda t: emp_rep)}

    # ---- R1 who may construct which variant
    sites = {}
    for b in K.bodies + [ctx.body(p) for p in ctx.F.bodies if p.startswith("<key_transforms::")]:
        for i in b.live_blocks():
            for st in b.blocks[i]["stmts"]:
                if st["k"] == "assign" and st["rv"]["k"] == "agg" and st["rv"].get("adt") == RR:
                    if "derive" in str(st.get("span", {}).get("macro", "")).lower() or st.get("span", {}).get("exp"):
                        continue
                    sites.setdefault(st["rv"]["vname"], set()).add(b.path)
    ck.analysed["ResultingRepeat_construction_sites"] = {k: sorted(v) for k, v in sites.items()}
    ck.ob("C09-R1", "-", "Repeating-constructed-only-in-add_new_mapping", sites.get("Repeating") == {MOD + "add_new_mapping"}, detail=str(sorted(sites.get("Repeating", ()))))
    ck.ob("C09-R1", "-", "NoChange-constructed-only-in-Mapper::step", sites.get("NoChange") == {MOD + "Mapper::step"}, detail=str(sorted(sites.get("NoChange", ()))))
    # no write to a `.repeat` place outside the known ones
    writers = set()
    for b in K.bodies:
        for i in b.live_blocks():
            for st in b.blocks[i]["stmts"]:
                if st["k"] == "assign" and st["lhs"]["p"] and st["lhs"]["p"][-1].get("name") == "repeat":
                    writers.add(b.path)
    ck.ob("C09-R1", "-", "repeat-field-written-only-in-add_new_mapping-and-append", writers <= {MOD + "add_new_mapping", MOD + "StepResult::append"}, detail=str(sorted(writers)))

    # ---- R2 add_new_mapping per arm
    anm = ctx.body(MOD + "add_new_mapping")
    m = T("param", 3, anm.dbg.get(3, ""))
    mrep = T("field", m, "repeat")
    seen = {}
    for p, rep, probs in repeat_of_paths(ctx, anm, summaries):
        tested = any(a == T("variantof", mrep) for a, v in p.guards())
        # the repeat modes this path can belong to (a `match` arm, `matches!`, `if let`, or several tests in a row)
        poss = kt.variant_set(list(p.guards()), mrep, ("Normal", "Disabled", "Special"))
        if not tested or not poss:
            ck.ob("C09-R2", anm.path, "return-path-matches-on-the-mapping's-repeat", False)
            continue
        for arm in sorted(poss):
            seen.setdefault(arm, set()).add(variant(rep))
            if arm in ("Normal", "Disabled"):
                ck.ob("C09-R2", anm.path, "%s-mapping->Disabled" % arm, variant(rep) == "Disabled", detail=show(rep)[:80])
            elif arm == "Special":
                ok = variant(rep) == "Repeating"
                ck.ob("C09-R2", anm.path, "Special-mapping->Repeating", ok, detail=show(rep)[:80])
                if ok:
                    f = dict(zip(rep[4], rep[3]))
                    src = T("variant", mrep, "Special")
                    ck.ob("C09-R1", anm.path, "Repeating.keys<-the-fired-mapping's-repeat-keys", mir.strip(f.get("keys")) == T("field", src, "keys"), detail=show(f.get("keys"))[:80])
                    ck.ob("C09-R1", anm.path, "Repeating.delay_ms<-delay_ms", f.get("delay_ms") == T("field", src, "delay_ms"), detail=show(f.get("delay_ms"))[:80])
                    ck.ob("C09-R1", anm.path, "Repeating.interval_ms<-interval_ms", f.get("interval_ms") == T("field", src, "interval_ms"), detail=show(f.get("interval_ms"))[:80])
            else:
                ck.ob("C09-R2", anm.path, "unknown-repeat-arm:%s" % (arm,), False)
    ck.ob("C09-R2", anm.path, "all-three-arms-present", set(seen) == {"Normal", "Disabled", "Special"}, detail=str({k: sorted(map(str, v)) for k, v in seen.items()}))

    # ---- newly_release: always Disabled ; newly_press: add_new_mapping's request or Disabled
    nr = ctx.body(MOD + "newly_release")
    n = 0
    for p, rep, probs in repeat_of_paths(ctx, nr, summaries):
        n += 1
        ck.ob("C09-R2", nr.path, "release->Disabled", variant(rep) == "Disabled", detail=show(rep)[:80])
    ck.floor("C09-R2", "newly_release-return-paths", n, 1)
    np_ = ctx.body(MOD + "newly_press")
    kinds = set()
    for p, rep, probs in repeat_of_paths(ctx, np_, summaries):
        calls = [e for e in p.events if e.kind == "call" and e.a == MOD + "add_new_mapping"]
        if calls:
            ok = len(calls) == 1 and rep == T("field", calls[0].c, "repeat")
            kinds.add("fired")
            ck.ob("C09-R2", np_.path, "press-that-fires-a-mapping->that-mapping's-request", ok, detail=show(rep)[:100])
        else:
            kinds.add("not-fired")
            ck.ob("C09-R2", np_.path, "press-that-fires-nothing->Disabled", variant(rep) == "Disabled", detail=show(rep)[:80])
    ck.ob("C09-R2", np_.path, "both-path-classes-present", kinds == {"fired", "not-fired"})

    # ---- T1 step
    st = ctx.body(MOD + "Mapper::step")
    classes = set()
    for p, rep, probs in repeat_of_paths(ctx, st, summaries):
        ev = None
        held = None
        for a, v in p.guards():
            if isinstance(a, tuple) and a[0] == "variantof" and a[1] == T("param", 2, st.dbg.get(2, "")):
                ev = v
            if isinstance(a, tuple) and a[0] == "in" and list_of(a[2]) == "IP":
                key = a[1]
                held = v
                kok = isinstance(key, tuple) and key[0] == "field" and key[1] == T("variant", T("param", 2, st.dbg.get(2, "")), ev)
                if not kok:
                    ck.ob("C09-T1", st.path, "held-test-is-on-the-event's-own-key", False, detail=show(key)[:60])
        calls = [e.a for e in p.events if e.kind == "call" and e.a.startswith(MOD)]
        stores = [e for e in p.events if e.kind == "store"]
        ret = p.outcome[1]
        cls = (ev, held)
        classes.add(cls)
        if cls == ("Pressed", False):
            ok = calls == [MOD + "newly_press"] and isinstance(ret, tuple) and ret[0] == "call" and ret[1] == MOD + "newly_press"
            ck.ob("C09-T1", st.path, "Pressed&not-held->newly_press", ok)
        elif cls == ("Released", True):
            ok = calls == [MOD + "newly_release"] and isinstance(ret, tuple) and ret[0] == "call" and ret[1] == MOD + "newly_release"
            ck.ob("C09-T1", st.path, "Released&held->newly_release", ok)
        elif cls in (("Pressed", True), ("Released", False)):
            evs = ret[3][ret[4].index("events")] if isinstance(ret, tuple) and ret[0] == "agg" and ret[1] == SR else None
            empty = isinstance(evs, tuple) and evs[0] == "call" and method_name(evs[1]) == "new"
            ok = variant(rep) == "NoChange" and empty and not calls and not stores and \
                not [e for e in p.events if e.kind == "call" and method_name(e.a) in ("push", "remove", "retain", "append", "insert", "clear")]
            ck.ob("C09-T1", st.path, "ignored-event(%s,held=%s)->no-events,NoChange,no-state-write" % cls, ok, detail=show(ret)[:100])
        else:
            ck.ob("C09-T1", st.path, "path-class-recognised", False, detail=str(cls))
    ck.ob("C09-T1", st.path, "four-classes", classes == {("Pressed", False), ("Pressed", True), ("Released", True), ("Released", False)}, detail=str(sorted(map(str, classes))))
    ck.explanation = ("Symbolic value of the returned `repeat` on every return path: add_new_mapping arms %s; newly_release Disabled; "
                      "newly_press fired/not-fired; step four classes." % ({k: sorted(map(str, v)) for k, v in seen.items()},))
