"""C03 — pressing a chord fires exactly the last-listed satisfied mapping."""
from .. import mir, kt, ktx, tables, ktloops
from ..kt import MOD, list_of, HELD, MODIFIERS
from ..mir import T, show, method_name, const_int, Walker

LEVEL = "other"
META = {
    "technique": "iteration-order facts (resolved iterator direction and insertion order), decision table of is_supported with call-site argument provenance, per-branch emission rules of the press loop, reachability-after-effect rules for the pass-through branch, variant tables of is_action_key/is_modifier",
    "level_text": ("Structural proof of each link: groups are built in one forward pass keyed by the trigger's last key and appended "
                   "in source order; the lookup scans the group of the pressed key in reverse and fires on the first mapping for "
                   "which is_supported holds, at most once, leaving the scan; is_supported's table is 'every trigger key is "
                   "(held and not absorbed) or is the new key' with the held set = input_pressed_keys; the press loop walks the "
                   "outputs forward and every non-modifier output is emitted as Pressed on every branch (modifier outputs are "
                   "skipped only when already held); on the Normal arm nothing is released afterwards; the pass-through press is "
                   "the last event of its step and the 'mentioned by a mapping in effect' path emits nothing."),
    "level_note": "Trusted: std HashMap/Vec/slice iteration semantics, rustc MIR, tmfacts, walker. In layouts without absorbing the absorbed list stays empty (C08-R4), so 'held' is input_pressed_keys.",
}
# --- additions to the level description (rules added after the first version)
META['level_text'] += " R2 also: every return path of newly_press looks the pressed key's group up in layout.mappings, and a group that exists is scanned on every path (no early return before the selection)."
# --- end additions

NP = MOD + "newly_press"
ANM = MOD + "add_new_mapping"


def tv_or(a, b):
    if a is True or b is True:
        return True
    if a is False and b is False:
        return False
    return None


def tv_and(a, b):
    if a is False or b is False:
        return False
    if a is True and b is True:
        return True
    return None


def tv_not(a):
    return None if a is None else (not a)


def _emit_rows(ctx, ck, fn, rows):
    """one obligation per row of is_supported's table.  The specification is (held & !absorbed) | is_new.  The variant
    !absorbed & (held | is_new) differs from it in one row only -- the pressed key itself being in the absorbed list --
    and that row cannot occur when the caller forgets the pressed key from mapped_absorbed_keys before it takes the
    copy it hands in (C08-R1/R2).  So a table that follows the variant on every row is accepted under that premise."""
    def spec2(val):
        return tv_and(tv_not(val.get("absorbed")), tv_or(val.get("held"), val.get("is_new")))
    all1 = all(not unk and want is not None and got == want for val, got, want, unk in rows)
    all2 = False
    if not all1:
        if all(not unk and spec2(val) is not None and got == spec2(val) for val, got, want, unk in rows):
            from .. import premises
            bad = [k for k in premises.own_violations(ctx, "C08") if "/C08-R1/" in k or "/C08-R2/" in k or "/anchor/" in k or "/internal/" in k]
            from . import c08
            try:
                fresh = c08.absorbed_copy_is_fresh(ctx)
            except Exception:
                fresh = False
            all2 = not bad and fresh
    for val, got, want, unk in rows:
        name = "row:%s" % ",".join("%s=%s" % (kk, "T" if vv else "F") for kk, vv in sorted(val.items()))
        if all2:
            ck.ob("C03-T1", fn, name, True, detail="continue=%s; the table is !absorbed&(held|is_new), equal to the specification on every row "
                  "that can occur: the pressed key is never in the absorbed list it is tested against (C08-R1/R2 hold)" % got)
        else:
            ck.ob("C03-T1", fn, name, not unk and want is not None and got == want,
                  detail="continue=%s, specification (held&!absorbed)|is_new=%s %s" % (got, want, unk or ""))


def run(ctx):
    ck = ctx.check
    K = kt.KT(ctx)
    A = ktx.Analysis(ctx, K)
    ck.rule_text = "one obligation per structural link (R1..R4) and per row of is_supported's table"
    ck.trusted_base = ["std HashMap/Vec/slice semantics", "rustc front end + MIR builder", "tmfacts exporter", "tmv path walker"]

    # ---------------- R1 grouping
    mh = ctx.body(MOD + "make_hashed_layout")
    layout = T("param", 1, mh.dbg.get(1, ""))
    fk = ctx.body(MOD + "final_key")
    fps = [p for p in mir.walk_function(fk) if p.outcome[0] == "return"]
    trig = T("param", 1, fk.dbg.get(1, ""))
    fk_ok = len(fps) == 1 and fps[0].outcome[1] == T("index", trig, T("binop", "Sub", T("len", trig), T("const", T("int", 1, "usize"))))
    ck.ob("C03-R1", fk.path, "final_key=trigger[len-1]", fk_ok, detail=None if fk_ok else show(fps[0].outcome[1])[:100] if fps else "no path")
    group_loops = 0
    for h in sorted(mh.loops()):
        il = ktloops.index_loop(mh, h)
        if il.kind != "for-elements" or il.list_term != T("field", layout, "mappings"):
            continue
        paths = il.cont_paths
        inserts = []
        for p in paths:
            for e in p.events:
                if e.kind == "call" and method_name(e.a) in ("insert", "push", "push_front") and not e.a.startswith(MOD):
                    inserts.append((p, e))
                # (map.entry(key) alone files nothing: the push onto what or_insert_with(Vec::new) returns does)
        if not inserts:
            continue
        group_loops += 1
        # every mapping is filed: each continuing path performs exactly one insertion and tests nothing but
        # whether the group exists
        for p in paths:
            ins_here = [e for (q, e) in inserts if q is p]
            data = [ev for ev in p.events if ev.kind == "guard" and not (isinstance(ev.a, tuple) and ev.a[0] == "variantof")]
            ck.ob("C03-R1", mh.path, "every-mapping-is-filed-in-exactly-one-group(unconditionally)", len(ins_here) == 1 and not data,
                  detail=None if (len(ins_here) == 1 and not data) else "%d insertions on an iteration, extra conditions: %s" % (len(ins_here), [show(ev.a)[:50] for ev in data]))
        it_dir = il.elem[1][2] if isinstance(il.elem, tuple) else None
        ck.ob("C03-R1", mh.path, "groups-built-in-one-forward-pass-over-layout.mappings", it_dir == "fwd" and il.complete and not il.break_paths)
        elem = il.elem
        key_t = T("call", MOD + "final_key", (T("field", elem, "from"),), None)
        for p, e in inserts:
            m = method_name(e.a)
            if m == "insert" and "HashMap" in e.a:
                kt_ = e.b[1]
                keyok = isinstance(kt_, tuple) and kt_[0] == "call" and kt_[1] == MOD + "final_key" and mir.strip(kt_[2][0]) == T("field", elem, "from")
                valok = mir.mentions(e.b[2], T("clone", elem)) or _mentions_clone_of(p, e.b[2], elem)
                none = any(ev.kind == "guard" and ev.b == "None" and isinstance(ev.a, tuple) and ev.a[0] == "variantof" and isinstance(ev.a[1], tuple)
                           and ev.a[1][0] == "call" and method_name(ev.a[1][1]) in ("get_mut", "get") for ev in p.events)
                ck.ob("C03-R1", mh.path, "new-group-keyed-by-final_key(from)-holding-that-mapping", keyok and valok and none, site=e.span)
            elif m == "push" and "Vec" in e.a and isinstance(e.b[0], tuple) and e.b[0][0] == "call" and method_name(e.b[0][1]) in ("or_insert_with", "or_default", "or_insert"):
                # map.entry(final_key(from)).or_insert_with(Vec::new).push(m.clone()): appended to the existing group, or
                # to a new empty one
                oi = e.b[0]
                ent = oi[2][0] if oi[2] else None
                okent = (isinstance(ent, tuple) and ent[0] == "call" and method_name(ent[1]) == "entry" and "HashMap" in ent[1] and len(ent[2]) == 2
                         and isinstance(ent[2][1], tuple) and ent[2][1][0] == "call" and ent[2][1][1] == MOD + "final_key" and mir.strip(ent[2][1][2][0]) == T("field", elem, "from"))
                fresh_empty = method_name(oi[1]) == "or_default" or (len(oi[2]) == 2 and ((isinstance(oi[2][1], tuple) and oi[2][1][0] == "call" and method_name(oi[2][1][1]) == "new" and not oi[2][1][2])
                                                                                      or "Vec" in show(oi[2][1]) and "new" in show(oi[2][1])))
                ck.ob("C03-R1", mh.path, "group-found-or-created-empty-by-final_key(from),then-appended-with-push(clone)", okent and fresh_empty and e.b[1] == T("clone", elem), site=e.span,
                      detail=None if (okent and fresh_empty) else show(oi)[:120])
            elif m == "push" and "Vec" in e.a:
                recv = e.b[0]
                okrecv = (isinstance(recv, tuple) and recv[0] == "field" and isinstance(recv[1], tuple) and recv[1][0] == "variant" and recv[1][2] == "Some"
                          and isinstance(recv[1][1], tuple) and recv[1][1][0] == "call" and method_name(recv[1][1][1]) == "get_mut"
                          and isinstance(recv[1][1][2][1], tuple) and recv[1][1][2][1][0] == "call" and recv[1][1][2][1][1] == MOD + "final_key"
                          and mir.strip(recv[1][1][2][1][2][0]) == T("field", elem, "from"))
                ck.ob("C03-R1", mh.path, "existing-group-appended-with-push(clone)", okrecv and e.b[1] == T("clone", elem), site=e.span)
            else:
                ck.ob("C03-R1", mh.path, "group-insertion-idiom:%s" % m, False, site=e.span, detail="only HashMap::insert of a new group and Vec::push onto an existing one keep source order")
    ck.ob("C03-R1", mh.path, "one-grouping-loop", group_loops == 1, detail="%d" % group_loops)
    # nothing else touches a group: its order IS the precedence of the mappings in it, so a sort, a dedup, a reverse, a
    # removal -- in the loop or after it -- changes which mapping fires
    ALLOWED = {"insert", "push", "get_mut", "get", "entry", "or_insert_with", "or_default", "or_insert", "next", "next_back", "into_iter", "iter", "clone", "new", "with_capacity",
               "deref", "deref_mut", "index", "len", "contains", "is_empty", "unwrap", "expect", "all", "any"}
    levels = [mir.walk_function(mh)] + [mir.walk_loop_only(mh, h) for h in sorted(mh.loops())]
    odd = []
    for paths in levels:
        for p in paths:
            for e in p.events:
                if e.kind == "call" and e.d and method_name(e.a) not in ALLOWED and not e.a.startswith(MOD) and ("Vec" in e.a or "HashMap" in e.a or "slice" in e.a or "VecDeque" in e.a):
                    odd.append(method_name(e.a))
    ck.ob("C03-R1", mh.path, "groups-are-only-appended-to(no-sort,dedup,reverse,removal)", not odd, detail=None if not odd else "also called: %s" % sorted(set(odd)))

    # ---------------- R2 selection
    np_ = ctx.body(NP)
    k = T("param", 2, np_.dbg.get(2, ""))
    sels = [s_ for s_ in ktloops.selections(ctx, np_, ANM, 2)]
    sites = {(s_.form, s_.site) for s_ in sels}
    okfound = len(sites) == 1 and not any(s_.problems for s_ in sels)
    ck.ob("C03-R2", NP, "group-lookup-loop-found", okfound, detail=None if okfound else "%d selection sites; %s" % (len(sites), [s_.problems[:1] for s_ in sels]))
    # (a find() whose closure captures a branch-dependent value shows up once per branch: every variant is checked)
    for sl in (sels if okfound else []):
        base = sl.iter_term[1] if isinstance(sl.iter_term, tuple) and sl.iter_term[0] == "iter" else None
        getcall = None
        if isinstance(base, tuple) and base[0] == "field" and isinstance(base[1], tuple) and base[1][0] == "variant" and base[1][2] == "Some" \
                and isinstance(base[1][1], tuple) and base[1][1][0] == "call" and method_name(base[1][1][1]) == "get" and "HashMap" in base[1][1][1]:
            getcall = base[1][1]
        ck.ob("C03-R2", NP, "group-looked-up-by-the-pressed-key", getcall is not None and mir.strip(getcall[2][1]) == k and isinstance(getcall[2][0], tuple)
              and getcall[2][0][0] == "field" and getcall[2][0][2] == "mappings", detail=show(getcall)[:100] if getcall else show(base)[:100])
        ck.ob("C03-R2", NP, "group-scanned-in-reverse(last-listed-first)", isinstance(sl.iter_term, tuple) and sl.iter_term[2] == "rev", detail="direction %s" % (sl.iter_term[2] if sl.iter_term else None))
        sup = [(a, v) for a, v in sl.pred if isinstance(a, tuple) and a[0] == "call" and a[1] == MOD + "is_supported"]
        argok = False
        if len(sup) == 1 and sup[0][1] is True:
            a = sup[0][0][2]
            argok = mir.strip(a[0]) == T("field", sl.elem, "from") and list_of(a[1]) == "IP" and mir.strip(a[3]) == k
        ck.ob("C03-R2", NP, "fires-the-first-supported-mapping-of-the-scan-and-leaves-the-loop", argok and sl.leaves_scan and sl.acts == 1, site=sl.site,
              detail=None if (argok and sl.leaves_scan) else "predicate known for the chosen mapping: %s; leaves the scan: %s" % ([(show(a)[:60], v) for a, v in sl.pred][:3], sl.leaves_scan))
        ck.ob("C03-R2", NP, "unsupported-mapping-is-skipped-and-the-scan-continues", sl.skips_quietly)
        ck.ob("C03-R2", NP, "one-firing-path", sl.acts == 1, detail="%d" % sl.acts)
    # every acted-on press reaches the selection: no way out of newly_press before the pressed key's group has been
    # looked up, and none between a successful look-up and the scan of the group
    n_ret = 0
    for p in mir.walk_function(np_):
        if p.outcome[0] != "return":
            continue
        n_ret += 1
        look = [(i, e) for i, e in enumerate(p.events) if e.kind == "call" and method_name(e.a) == "get" and "HashMap" in e.a and len(e.b) == 2
                and mir.strip(e.b[1]) == k and isinstance(e.b[0], tuple) and e.b[0][0] == "field" and e.b[0][2] == "mappings"]
        ck.ob("C03-R2", NP, "every-return-path-looks-the-pressed-key's-group-up", bool(look),
              detail=None if look else "newly_press can return without consulting layout.mappings for the pressed key: a satisfied mapping would not fire")
        if not look or not okfound:
            continue
        got = [e.b for e in p.events if e.kind == "guard" and e.a == T("variantof", look[0][1].c)]
        if got and got[0] == "Some":
            scanned = False
            for sl in sels:
                if sl.form == "loop":
                    scanned = scanned or any(e.kind == "loop" and e.a == sl.header for e in p.events)
                else:
                    fc = sl.chosen[1][1] if isinstance(sl.chosen, tuple) and len(sl.chosen) > 1 and isinstance(sl.chosen[1], tuple) and len(sl.chosen[1]) > 1 else None
                    scanned = scanned or any(e.kind == "call" and e.c == fc for e in p.events)
            ck.ob("C03-R2", NP, "a-group-that-exists-is-scanned-on-every-path", scanned)
    ck.floor("C03-R2", "newly_press-return-paths", n_ret, 1)
    callers = [c for c in ctx.callers_of(ANM) if "::tests::" not in c]
    ck.ob("C03-R2", "-", "add_new_mapping-has-one-caller", callers == [NP], detail=str(callers))
    ncalls = len([1 for i, n, t in np_.calls() if n == ANM])
    ck.ob("C03-R2", NP, "one-call-site", ncalls == 1, detail="%d" % ncalls)

    # ---------------- T1 is_supported
    sup = ctx.body(MOD + "is_supported")
    tr, pr, ab, nk = (T("param", i, sup.dbg.get(i, "")) for i in (1, 2, 3, 4))
    loops = list(sup.loops())
    allform = None
    if not loops:
        rets_ = [p for p in mir.walk_function(sup) if p.outcome[0] == "return"]
        if len(rets_) == 1 and isinstance(rets_[0].outcome[1], tuple) and rets_[0].outcome[1][0] == "call" and method_name(rets_[0].outcome[1][1]) == "all":
            allform = tables.closure_scan(ctx.body, rets_[0].outcome[1])
    ck.ob("C03-T1", sup.path, "single-loop-over-the-trigger", len(loops) == 1 or (allform is not None and not allform.problems),
          detail=None if allform is None else str(allform.problems[:2]))
    if allform is not None and not allform.problems:
        # trigger.iter().all(|k| P(k)): every key examined, true iff P holds for all of them
        ck.ob("C03-T1", sup.path, "every-trigger-key-is-examined", allform.iter_term == T("iter", tr, "fwd") and not allform.enum)
        x = T("elem", allform.iter_term, None)
        nrows = 0
        for got, plist in ((True, allform.set_paths), (False, allform.cont_paths)):
            for gs in plist:
                val = {}
                unk = []
                for a, v in gs:
                    if isinstance(a, tuple) and a[0] == "variantof":
                        continue
                    if isinstance(a, tuple) and a[0] == "in" and mir.strip(a[1]) == x and mir.strip(a[2]) == pr:
                        val["held"] = v
                    elif isinstance(a, tuple) and a[0] == "in" and mir.strip(a[1]) == x and mir.strip(a[2]) == ab:
                        val["absorbed"] = v
                    elif isinstance(a, tuple) and a[0] == "eq" and {mir.strip(a[1]), mir.strip(a[2])} == {x, nk}:
                        val["is_new"] = v
                    else:
                        unk.append(show(a)[:50])
                want = tv_or(tv_and(val.get("held"), tv_not(val.get("absorbed"))), val.get("is_new"))
                nrows += 1
                ck.ob("C03-T1", sup.path, "row:%s" % ",".join("%s=%s" % (kk, "T" if vv else "F") for kk, vv in sorted(val.items())),
                      not unk and want is not None and got == want, detail="continue=%s, specification (held&!absorbed)|is_new=%s %s" % (got, want, unk or ""))
        ck.floor("C03-T1", "table-rows", nrows, 2)
    if len(loops) == 1:
        il = ktloops.index_loop(sup, loops[0], full=True)
        ck.ob("C03-T1", sup.path, "every-trigger-key-is-examined", il.kind == "for-elements" and il.list_term == tr and bool(il.exh_paths))
        for p in il.exh_paths:
            ck.ob("C03-T1", sup.path, "exhaustion->true", p.outcome[0] == "return" and const_int(p.outcome[1]) == 1)
        x = il.elem
        nrows = 0
        rows_ = []
        for p in il.cont_paths + il.break_paths:
            val = {}
            unk = []
            for a, v in p.guards():
                if isinstance(a, tuple) and a[0] == "variantof":
                    continue
                if isinstance(a, tuple) and a[0] == "in" and mir.strip(a[1]) == x and mir.strip(a[2]) == pr:
                    val["held"] = v
                elif isinstance(a, tuple) and a[0] == "in" and mir.strip(a[1]) == x and mir.strip(a[2]) == ab:
                    val["absorbed"] = v
                elif isinstance(a, tuple) and a[0] == "eq" and {mir.strip(a[1]), mir.strip(a[2])} == {x, nk}:
                    val["is_new"] = v
                else:
                    unk.append(show(a)[:50])
            want = tv_or(tv_and(val.get("held"), tv_not(val.get("absorbed"))), val.get("is_new"))
            if p.outcome == ("backedge", loops[0]):
                got = True
            elif p.outcome[0] == "return" and const_int(p.outcome[1]) == 0:
                got = False
            else:
                got = None
            nrows += 1
            rows_.append((val, got, want, unk))
        _emit_rows(ctx, ck, sup.path, rows_)
        ck.floor("C03-T1", "table-rows", nrows, 2)

    # the "held" set that is_supported consults is kept exact: every acted-on press records the key on every
    # return path, every acted-on release forgets it on every return path
    rets = [fx for fx in K.path_fx(np_) if fx.tag == "fn" and fx.path.outcome[0] == "return"]
    okp = bool(rets) and all(any(e.kind == "ADD" and e.lst == "IP" and e.key == k for e in fx.effects) for fx in rets)
    ck.ob("C03-T1", NP, "held-set-exact:pressed-key-is-recorded-on-every-return-path", okp,
          detail=None if okp else "a return path of newly_press does not push the pressed key onto input_pressed_keys: later chords that need it as a held trigger key would not be satisfied")
    nr = ctx.body(MOD + "newly_release")
    rk = T("param", 2, nr.dbg.get(2, ""))
    rets = [fx for fx in K.path_fx(nr) if fx.tag == "fn" and fx.path.outcome[0] == "return"]
    okr = bool(rets) and all(any(e.kind == "RETAIN" and e.lst == "IP" and ktx.Analysis._retain_removes_key(e) == rk for e in fx.effects) for fx in rets)
    ck.ob("C03-T1", nr.path, "held-set-exact:released-key-is-forgotten-on-every-return-path", okr)

    # ---------------- R3 outputs
    anm = ctx.body(ANM)
    m = T("param", 3, anm.dbg.get(3, ""))
    press_loop = None
    for h in sorted(anm.loops()):
        il = ktloops.index_loop(anm, h)
        if il.kind == "for-elements" and il.list_term == T("field", m, "to"):
            press_loop = (h, il)
    ck.ob("C03-R3", ANM, "press-loop-over-the-outputs-found", press_loop is not None)
    if press_loop:
        h, il = press_loop
        ck.ob("C03-R3", ANM, "outputs-visited-forward,all-of-them", il.elem[1][2] == "fwd" and il.complete and not il.break_paths)
        x = il.elem
        nb = 0
        for p in il.cont_paths:
            fx = K._one(anm, p, "x", None)
            act = [v for a, v in fx.all_guards() if isinstance(a, tuple) and a[0] == "call" and a[1] == MOD + "is_action_key" and mir.strip(a[2][0]) == x]
            pressed = [e for e in fx.effects if e.kind == "EMIT" and e.aux == "Pressed" and mir.strip(e.key) == x]
            nb += 1
            if act == [True]:
                ck.ob("C03-R3", ANM, "non-modifier-output:Pressed-emitted-on-every-branch", len(pressed) == 1, site=p.events[0].span,
                      detail=None if pressed else "a branch for a non-modifier output emits no press (guards %s)" % [(show(a)[:40], v) for a, v in fx.all_guards()][1:])
            elif act == [False]:
                held = any(v is True and isinstance(a, tuple) and a[0] == "in" and mir.strip(a[1]) == x and list_of(a[2]) in HELD for a, v in fx.all_guards())
                ck.ob("C03-R3", ANM, "modifier-output:pressed-unless-already-held", len(pressed) == 1 or held,
                      detail=None if (pressed or held) else "a modifier output is skipped without being known to be held")
            elif not act and len(pressed) == 1:
                # the branch does not ask which kind of key it is and presses it: right for either kind
                ck.ob("C03-R3", ANM, "unclassified-output:Pressed-emitted", True)
            else:
                ck.ob("C03-R3", ANM, "branch-classifies-the-output-with-is_action_key", False, detail=str(act))
        ck.floor("C03-R3", "press-loop-branches", nb, 2)
        # Normal arm: nothing released after the loop
        mrep = T("field", m, "repeat")
        for fx in K.path_fx(anm):
            if fx.tag != "fn" or fx.path.outcome[0] != "return":
                continue
            arm = [v for a, v in fx.all_guards() if a == T("variantof", mrep)]
            lp = [i for i, e in enumerate(fx.path.events) if e.kind == "loop" and e.a == h]
            if arm == ["Normal"] and lp:
                after = [e for e in fx.effects if e.pos > lp[0] and (e.kind in ("EMIT", "DEL", "RETAIN", "MAPEMIT") and (e.kind != "RETAIN" or e.lst in HELD)
                                                                      or (e.kind == "CALL" and e.key in (MOD + "release_all_action_keys", MOD + "release_action_mappings", MOD + "release_absorbed_keys", MOD + "remove_mapping")))]
                ck.ob("C03-R3", ANM, "Normal-repeat:nothing-is-released-after-the-outputs-are-pressed", not after, detail=None if not after else str(after[0]))

    # ---------------- R4 pass-through branch
    for fx in K.path_fx(np_):
        if fx.tag != "fn" or fx.path.outcome[0] != "return":
            continue
        own = [e for e in fx.effects if e.kind == "EMIT" and e.aux == "Pressed" and e.key == k]
        if own:
            pure = mir._pure_local_predicates(ctx.F)
            later = [e for e in fx.effects if e.pos > own[0].pos and (e.kind in ("EMIT", "MAPEMIT", "APPEND") or (e.kind == "CALL" and e.key not in pure))]
            ck.ob("C03-R4", NP, "pass-through-press-is-the-last-event-of-the-step", not later, detail=None if not later else str(later[0]))
        # the active-mapping scan found the key (left through its break arm): nothing is emitted
        for pe in fx.path.events:
            if pe.kind == "loopexit":
                ex = np_.exhaustion_exit(pe.a)
                el = tables.exists_loop(np_, pe.a)
                if ex is not None and ex[1] != pe.b and not el.problems and isinstance(el.iter_term, tuple) and el.iter_term[0] == "iter" and list_of(el.iter_term[1]) == "AM":
                    idx = fx.path.events.index(pe)
                    after = [e for e in fx.effects if e.pos > idx]
                    quiet = all(e.kind == "ADD" and e.lst == "IP" for e in after)
                    pure = mir._pure_local_predicates(ctx.F)
                    emitted = [e for e in fx.effects if e.kind in ("EMIT", "MAPEMIT") or (e.kind == "CALL" and e.key != MOD + "StepResult::empty" and e.key not in pure)]
                    ck.ob("C03-R4", NP, "key-mentioned-by-a-mapping-in-effect:nothing-emitted,only-input_pressed-updated", quiet and not emitted,
                          detail=None if (quiet and not emitted) else "effects %s" % fx.effects)

    # ---------------- T2 is_action_key / is_modifier
    t1 = kt.bool_variant_table(ctx, MOD + "is_action_key")
    t2 = kt.bool_variant_table(ctx, "fancy_layout_interpreting::is_modifier")
    ok1 = t1 is not None and t1[1] == MODIFIERS and not t1[0] and t1[2] is True
    ok2 = t2 is not None and t2[0] == MODIFIERS and not t2[1] and t2[2] is False
    ck.ob("C03-T2", MOD + "is_action_key", "false-exactly-on-the-eight-standard-modifiers", ok1, detail=None if ok1 else str(t1))
    ck.ob("C03-T2", "fancy_layout_interpreting::is_modifier", "twin-agrees(true-exactly-on-the-same-eight)", ok2, detail=None if ok2 else str(t2))
    ck.explanation = "grouping loop, reverse group scan, is_supported table, press loop branches and pass-through branch analysed on MIR paths."


def _mentions_clone_of(p, t, elem):
    # vec![x.clone()] lowers to a boxed array written through a pointer: look for a store of [clone(elem)] on the path
    for e in p.events:
        if e.kind == "store" and isinstance(e.b, tuple) and e.b[0] == "array" and e.b[1] == (T("clone", elem),):
            return True
    return False
