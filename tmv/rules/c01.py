"""C01 — no stuck keys: per-site preservation of the invariants I1..I3 on top of C19."""
from .. import mir, kt, ktx, ktloops
from ..kt import MOD, list_of, HELD
from ..mir import T, show, method_name

LEVEL = "other"
META = {
    "technique": "per-site invariant-preservation rules over MIR paths of key_transforms.rs (co-update/sweep-before-removal rules, guarded-insertion rules, who-may-write), built on the C19 transaction recogniser",
    "level_text": ("Each premise of the paper argument in DESIGN.md C01 is decided structurally on every path: I1 pass_through ⊆ "
                   "input_pressed (every insertion into pass_through is guarded by, or followed on all paths by, insertion into "
                   "input_pressed; every removal from input_pressed is preceded by the complete pass_through sweep for that key), "
                   "I2 mapped_output ⊆ outputs of active mappings (insertions come from the `to` of the mapping registered on all "
                   "paths; active_mappings.remove is preceded by the complete mapped_output sweep whose table releases or hands "
                   "over every key no other mapping outputs), I3 active mapping ⇒ trigger held (registration only under "
                   "is_supported; removal from input_pressed preceded by the complete active-mapping sweep with "
                   "fails_when_released == membership). With C19 these give: nothing held on input ⇒ nothing held on output."),
    "level_note": ("Trusted: rustc MIR, tmfacts, walker. That the invariants suffice is the induction written in DESIGN.md (not mechanised). "
                   "Non-empty `from` comes from the loader (C14-R3)."),
}


def ip_removals(K, body):
    """(path fx, RETAIN effect, removed key x) for every removal from input_pressed_keys"""
    out = []
    for fx in K.path_fx(body):
        for e in fx.effects:
            if e.lst == "IP" and e.kind == "RETAIN":
                x = ktx.Analysis._retain_removes_key(e)
                out.append((fx, e, x))
            elif e.lst == "IP" and (e.kind == "DEL" or e.kind.startswith("OTHERMUT")):
                out.append((fx, e, None))
    return out


def run(ctx):
    ck = ctx.check
    K = kt.KT(ctx)
    A = ktx.Analysis(ctx, K)
    ck.rule_text = "one obligation per insertion/removal site of each State list (rules R1..R8 of DESIGN.md C01)"
    ck.trusted_base = ["rustc front end + MIR builder", "tmfacts exporter", "tmv path walker", "paper induction DESIGN.md C01", "C19 (checked separately)"]

    # ---------------- R8 who may write IP
    writers = {}
    for b in K.fn_bodies:
        for fx in K.path_fx(b):
            for e in fx.effects:
                if e.lst == "IP" and e.kind != "CALL":
                    writers.setdefault(b.path, set()).add(e.kind)
    want = {MOD + "newly_press", MOD + "newly_release", MOD + "release_absorbed_keys"}
    ck.ob("C01-R8", "-", "input_pressed_keys-written-only-by-press,release,absorbed-release", set(writers) == want,
          detail=str({k[len(MOD):]: sorted(v) for k, v in writers.items()}))
    adds_ip = [(b, fx, e) for b in K.fn_bodies for fx in K.path_fx(b) for e in fx.effects if e.lst == "IP" and e.kind == "ADD"]
    ck.ob("C01-R8", MOD + "newly_press", "input_pressed_keys-gains-only-the-pressed-key",
          bool(adds_ip) and all(b.path == MOD + "newly_press" and e.key == T("param", 2, b.dbg.get(2, "")) for b, fx, e in adds_ip))

    # ---------------- R1  I1: PT ⊆ IP at insertion
    n_r1 = 0
    for tx in A.txs:
        if tx.kind in ("PRESS", "MOVE", "REPRESS+MOVE") and tx.lists and tx.lists[-1] == "PT":
            n_r1 += 1
            fx = tx.fx
            add = [e for e in tx.effs if e.kind == "ADD"][0] if [e for e in tx.effs if e.kind == "ADD"] else tx.effs[0]
            g = fx.guards_before(add)
            guarded = any(v is True and isinstance(a, tuple) and a[0] == "in" and list_of(a[2]) == "IP" and fx.same_key(a[1], tx.key) for a, v in g)
            followed = False
            if not guarded:
                body = fx.body
                later = [e for e in fx.effects if e.pos > add.pos and e.kind == "ADD" and e.lst == "IP" and fx.same_key(e.key, tx.key)]
                followed = bool(later) and fx.path.outcome[0] == "return"
            ck.ob("C01-R1", tx.fn, "pass_through-insertion(%s):key-is-or-becomes-an-input-pressed-key" % tx.kind, guarded or followed, site=tx.site(),
                  detail=None if (guarded or followed) else "a key enters pass_through_keys without `input_pressed_keys.contains(key)` and without being pushed onto input_pressed_keys on the way to return")
    ck.floor("C01-R1", "pass_through-insertion-sites", n_r1, 1)

    # ---------------- R2 / R6 / R7: a key goes up
    n_up = 0
    seqs = {}
    for b in K.fn_bodies:
        for fx, e, x in ip_removals(K, b):
            n_up += 1
            fn = b.path
            if x is None:
                ck.ob("C01-R2", fn, "input_pressed-removal-is-retain(k!=x)", False, site=e.ev.span)
                continue
            # the sweeps may come before or after the removal (the hand-over test in remove_mapping excludes the
            # released key explicitly, so the result does not depend on the order); they must be on the same path
            loops_before = [(i, ev.a) for i, ev in enumerate(fx.path.events) if ev.kind == "loop"]
            am = pt = None
            for i, h in loops_before:
                xa, pa = ktloops.am_sweep(K, b, h)
                if xa is not None and not pa and fx.same_key(xa, x):
                    am = i
                xp, pp = ktloops.pt_sweep(K, b, h)
                if xp is not None and not pp and fx.same_key(xp, x):
                    pt = i
            if pt is None:
                pt = ktloops.pt_search(K, fx, x)
            ck.ob("C01-R6", fn, "when-input_pressed-loses-x:complete-active-mapping-sweep-for-x", am is not None, site=e.ev.span,
                  detail=None if am is not None else "no loop over ALL active mappings that removes those with fails_when_released(from, x) on the path that removes x from input_pressed_keys")
            ck.ob("C01-R2", fn, "when-input_pressed-loses-x:complete-pass_through-sweep-for-x", pt is not None, site=e.ev.span,
                  detail=None if pt is not None else "no loop over ALL pass_through indices that releases x on the path that removes x from input_pressed_keys")
            order = am is not None and pt is not None
            ck.ob("C01-R7", fn, "key-goes-up:mapping-sweep,pass_through-sweep-and-input_pressed-removal-on-one-path", order, site=e.ev.span)
            seqs[fn] = (am is not None, pt is not None, order)
    ck.floor("C01-R7", "key-goes-up-implementations", len(seqs), 1)
    ck.ob("C01-R7", "-", "sibling-implementations-agree", len(set(seqs.values())) == 1, detail=str({k[len(MOD):]: v for k, v in seqs.items()}))
    ok_f, why = ktloops.fails_when_released_table(ctx)
    ck.ob("C01-R6", MOD + "fails_when_released", "true-iff-key-in-trigger", ok_f, detail=why or None)
    # newly_release removes its own key
    nr = ctx.body(MOD + "newly_release")
    for fx, e, x in ip_removals(K, nr):
        ck.ob("C01-R2", nr.path, "release-removes-the-released-key", x == T("param", 2, nr.dbg.get(2, "")))
        ck.ob("C01-R2", nr.path, "every-return-path-removes-it", fx.path.outcome[0] == "return")
    rets = [fx for fx in K.path_fx(nr) if fx.tag == "fn" and fx.path.outcome[0] == "return"]
    ck.ob("C01-R2", nr.path, "no-return-path-without-the-removal", bool(rets) and all(any(e.lst == "IP" and e.kind == "RETAIN" for e in fx.effects) for fx in rets))

    # ---------------- R3  I2: MO insertions come from the `to` of the mapping being registered
    n_r3 = 0
    reg = {}
    for tx in A.txs:
        if tx.kind in ("PRESS", "MOVE", "REPRESS+MOVE") and tx.lists and tx.lists[-1] == "MO":
            n_r3 += 1
            fx = tx.fx
            key = mir.strip(tx.key)
            M = None
            if isinstance(key, tuple) and key[0] == "elem" and isinstance(key[1], tuple) and key[1][0] == "iter" and isinstance(key[1][1], tuple) \
                    and key[1][1][0] == "field" and key[1][1][2] == "to":
                M = key[1][1][1]
            else:
                chain = []
                f2 = fx
                while f2 is not None:
                    chain += f2.all_guards()
                    f2 = f2.parent[0] if f2.parent else None
                for a, v in chain:
                    if v is True and isinstance(a, tuple) and a[0] == "in" and fx.same_key(a[1], key) and isinstance(a[2], tuple) and a[2][0] == "field" and a[2][2] == "to":
                        M = a[2][1]
            ck.ob("C01-R3", tx.fn, "mapped_output-insertion(%s):key-is-an-output-of-a-mapping" % tx.kind, M is not None, site=tx.site(),
                  detail=None if M is not None else "key %s is not an element of some mapping's `to` and not guarded by `to.contains`" % show(key)[:50])
            if M is not None:
                reg.setdefault(tx.fn, set()).add(M)
    ck.floor("C01-R3", "mapped_output-insertion-sites", n_r3, 1)
    for fn, Ms in sorted(reg.items()):
        b = ctx.body(fn)
        one = len(Ms) == 1
        ck.ob("C01-R3", fn, "all-insertions-name-the-same-mapping", one)
        if not one:
            continue
        M = list(Ms)[0]
        rets = [fx for fx in K.path_fx(b) if fx.tag == "fn" and fx.path.outcome[0] == "return"]
        okall = bool(rets) and all(any(e.kind == "ADD" and e.lst == "AM" and mir.strip(e.key) == M for e in fx.effects) for fx in rets)
        ck.ob("C01-R3", fn, "that-mapping-is-registered-on-every-return-path", okall,
              detail=None if okall else "a return path of %s does not push the mapping onto active_mappings" % fn)
    am_adders = {b.path for b in K.fn_bodies for fx in K.path_fx(b) for e in fx.effects if e.lst == "AM" and e.kind == "ADD"}
    ck.ob("C01-R3", "-", "active_mappings-gains-only-in-add_new_mapping", am_adders == {MOD + "add_new_mapping"}, detail=str(sorted(am_adders)))

    # ---------------- R4  AM.remove preceded by the complete MO sweep
    R = ktloops.remove_mapping_analysis(ctx, K)
    pr = R.problems + R.role_problems["used"]
    ck.ob("C01-R4", MOD + "remove_mapping", "sweep-shape", not pr, detail="; ".join(pr)[:300] or None)
    ck.ob("C01-R4", MOD + "remove_mapping", "active_mappings.remove(i)-exactly-once-on-every-path,never-inside-the-mapped_output-sweep", R.am_removal is not None)
    # a key may stay in mapped_output_keys only when a mapping that REMAINS outputs it: the still-used scan must not
    # count the mapping being removed (skip index i while it is still in the list, or scan everything once it is gone)
    ck.ob("C01-R4", MOD + "remove_mapping", "still-used-scan-never-counts-the-mapping-being-removed", R.covers("used") in ("exact", "subset"),
          detail="removal %s the sweep, scan %s" % (R.am_removal, R.scan_text("used")))
    for val, outcome, site in R.rows:
        want = ktloops.remove_mapping_spec(val)
        leaves = outcome in ("release", "handover")
        if val.get("used") is False:
            ck.ob("C01-R4", MOD + "remove_mapping", "key-no-other-mapping-outputs-leaves-mapped_output", leaves, site=site, detail="%s -> %s" % (val, outcome))
    am_removers = {b.path for b in K.fn_bodies for fx in K.path_fx(b) for e in fx.effects if e.lst == "AM" and e.kind not in ("ADD", "CALL")}
    ck.ob("C01-R4", "-", "active_mappings-loses-only-in-remove_mapping", am_removers == {MOD + "remove_mapping"}, detail=str(sorted(am_removers)))

    # ---------------- R5  I3: registration only under is_supported(m.from, IP, …)
    callers = [c for c in ctx.callers_of(MOD + "add_new_mapping") if "::tests::" not in c]
    ck.ob("C01-R5", "-", "add_new_mapping-called-only-from-newly_press", callers == [MOD + "newly_press"], detail=str(callers))
    np_ = ctx.body(MOD + "newly_press")
    k = T("param", 2, np_.dbg.get(2, ""))
    n_call = 0
    for sl in ktloops.selections(ctx, np_, MOD + "add_new_mapping", 2):
        n_call += 1
        sup = [(a, v) for a, v in sl.pred if isinstance(a, tuple) and a[0] == "call" and a[1] == MOD + "is_supported" and v is True]
        ok = False
        if sup and not sl.problems:
            a = sup[-1][0][2]
            ok = (mir.strip(a[0]) == T("field", sl.elem, "from") and list_of(a[1]) == "IP" and mir.strip(a[3]) == k)
        ck.ob("C01-R5", np_.path, "registration-only-on-the-true-edge-of-is_supported(m.from,input_pressed,_,k)", ok, site=sl.site,
              detail=None if ok else "known about the registered mapping: %s %s" % ([(show(a)[:60], v) for a, v in sl.pred][:3], sl.problems[:1]))
    # every call of add_new_mapping in newly_press is such a selection, with the pressed key as its key argument
    direct_calls = len([1 for i, n, t in np_.calls() if n == MOD + "add_new_mapping"])
    keyarg = True
    for tag, paths in K.segments(np_):
        for p in paths:
            for e in p.events:
                if e.kind == "call" and e.a == MOD + "add_new_mapping" and mir.strip(e.b[1]) != k:
                    keyarg = False
    ck.ob("C01-R5", np_.path, "every-registration-call-is-a-selection-from-a-scan,keyed-by-the-pressed-key", direct_calls == 1 and n_call >= 1 and keyarg,
          detail="%d call sites, %d selections" % (direct_calls, n_call))
    ck.floor("C01-R5", "add_new_mapping-call-sites-on-paths", n_call, 1)
    rets = [fx for fx in K.path_fx(np_) if fx.tag == "fn" and fx.path.outcome[0] == "return"]
    # the pressed key joins input_pressed on every return path -- except on paths that did nothing a later release
    # would have to undo (no registration, no insertion into a held-key list, no press emitted): ignoring a press
    # altogether cannot leave anything held
    pure = mir.Evaluator(np_, {})._is_pure
    def harmless(e):
        if e.kind == "CALL":
            return pure(e.key) or e.key.endswith("StepResult::empty")
        if e.kind == "RETAIN":
            return e.lst == "AB"
        if e.kind == "STORE":
            return e.lst in ("RT", "AT") and isinstance(e.key, tuple) and "None" in show(e.key)
        return False
    okip = bool(rets)
    n_quiet = 0
    why = None
    for fx in rets:
        if any(e.kind == "ADD" and e.lst == "IP" and e.key == k for e in fx.effects):
            continue
        n_quiet += 1
        bad = [e for e in fx.effects if not harmless(e)]
        if bad:
            okip, why = False, "return path without input_pressed_keys.push(k) has the effect %s" % (bad[0],)
            continue
        for e in fx.path.events:
            if e.kind == "loopexit":
                ex = np_.exhaustion_exit(e.a)
                if ex is None or e.b != ex[1]:
                    okip, why = False, "return path without input_pressed_keys.push(k) leaves loop bb%d through a break" % e.a
                    continue
                for lfx in K.path_fx(np_):
                    if lfx.tag == "L%d" % e.a and lfx.path.outcome[0] == "backedge" and [x for x in lfx.effects if not harmless(x)]:
                        okip, why = False, "return path without input_pressed_keys.push(k) runs loop bb%d, whose continuing paths have effects" % e.a
    ck.ob("C01-R5", np_.path, "pressed-key-joins-input_pressed-on-every-return-path(or-the-press-was-ignored-without-any-effect)", okip, detail=why)
    ck.analysed["newly_press_return_paths_without_effect"] = n_quiet
    ck.explanation = ("Sites: %d pass_through insertions, %d mapped_output insertions, %d removals from input_pressed (%s), remove_mapping "
                      "table rows %d." % (n_r1, n_r3, n_up, sorted(x[len(MOD):] for x in seqs), len(R.rows)))
