"""C15 — the layout saved for the systemd service reloads as the same layout."""
from .. import mir, light, hirq
from ..mir import T, show, const_int, Walker
from ..report import Unrecognised

LEVEL = "other"
META = {
    "technique": "writer/reader table agreement: derived Serialize impls (names, field lists, variant tags read from MIR constants) vs the hand-written JSON parser (string constants at get/has_exactly_keys/== sites, enum-utils FromStr decision tree walked leaf by leaf); exhaustive over all KeyCode variants",
    "level_text": ("Exhaustive table proof for key names (every KeyCode variant: the name serde writes is read back by "
                   "parse_key_code as the same variant, through its literal arms or through the 484-leaf FromStr decision tree) "
                   "plus schema agreement between the derived writer of Layout/Mapping/Repeat and the parser's key lists, "
                   "repeat spellings and Special fields, and the path/flag agreement between the saver and the service command line."),
    "level_note": ("Trusted: serde_json's Serializer/Deserializer for Value (arrays, strings, numbers), rustc MIR/HIR, tmfacts. "
                   "Not decided: that convert(parse(x)) is the identity on alias-free input beyond the per-field agreement shown "
                   "here (same limit as C13)."),
}

# --- additions to the level description (rules added after the first version)
META['level_text'] += ' R3: the structural clauses of the conversion pipeline that a plain saved mapping passes through on reload hold (one mapping per source mapping, appended in order, keys/repeat/absorbing carried over: C13-S2..S6 re-run).'
META["level_note"] = "Trusted: serde_json's Serializer/Deserializer for Value (arrays, strings, numbers), rustc MIR/HIR, tmfacts. Not decided: that convert(parse(x)) is the identity on alias-free input beyond the per-field agreement and the pipeline clauses shown here (same limit as C13)."
META["technique"] += '; re-run of the conversion-pipeline clauses (C13-S2..S6)'
META['level_text'] += ' R1 also: the saved file is opened with write+truncate (or File::create), never append: it holds exactly what was serialised now.'
META['level_text'] += ' R8: each attribute of a Special repeat is built from the key of the same name, numbers through the parsers R7 reads.'
META['level_text'] += ' R7: delay_ms/interval_ms are read as the integer of the JSON number with no conversion narrower than the field.'
META['level_text'] += ' R6: parse_layout_from_json refuses a document only for its shape, for a mapping parse_mapping_from_json refuses, or for an undefined alias -- no condition on the list as a whole.'
META['level_text'] += ' R5: on the path a saved (plain) mapping takes through parse_mapping_from_json, the only rejection that is not the failure of a field parser is the absorbed-modifier check, and that check is a plain membership test of each absorbed key in the trigger\'s modifier list (no state carried from one element to the next), so it cannot refuse a list the converter derived from those modifiers.'
# --- end additions

PARSE_KEY = "layout_parsing_formatting::parse_key_code"
FROMSTR = "<key_codes::KeyCode as std::str::FromStr>::from_str"
PARSE_TREE = FROMSTR + "::_parse"


def find_ser(ctx, ty):
    c = [p for p in ctx.F.bodies if p.endswith("Serialize for %s>::serialize" % ty)]
    if len(c) != 1:
        raise Unrecognised("derived-Serialize-impl-not-found:" + ty)
    return ctx.body(c[0])


def cstr(t):
    if isinstance(t, tuple) and t and t[0] == "const" and isinstance(t[1], tuple) and t[1][0] == "str":
        return t[1][1]
    return None


def writer_keycode_table(ctx, ck):
    b = find_ser(ctx, "key_codes::KeyCode")
    W = {}
    for guards, calls, ret in light.leaves(b):
        var = None
        for a, v in guards:
            if a == T("variantof", T("param", 1, b.dbg.get(1, ""))):
                var = v
        sc = [c for c in calls if mir.method_name(c[0]) == "serialize_unit_variant"]
        if var is None or len(sc) != 1:
            ck.unrecognised("C15-T1", b.path, "serialize-arm-shape")
            continue
        name = cstr(sc[0][1][3])
        tyname = cstr(sc[0][1][1])
        if name is None or tyname != "KeyCode":
            ck.unrecognised("C15-T1", b.path, "serialize-arm-constants")
            continue
        W[var] = name
    return W


def fromstr_table(ctx, ck):
    b = ctx.body(PARSE_TREE)
    P = {}
    s = T("param", 1, b.dbg.get(1, ""))
    nleaf = 0
    for guards, calls, ret in light.leaves(b):
        if not (isinstance(ret, tuple) and ret and ret[0] == "agg" and ret[2] == "Some"):
            continue
        v = ret[3][0]
        if not (isinstance(v, tuple) and v[0] == "agg" and v[1] == "key_codes::KeyCode"):
            ck.unrecognised("C15-T1", b.path, "leaf-value-shape")
            continue
        nleaf += 1
        L = None
        bytes_ = {}
        for a, val in guards:
            if a == T("len", s) and isinstance(val, int):
                L = val
            ec = Walker._eq_const(a)
            if ec is not None and val is True:
                x, c = ec
                if isinstance(x, tuple) and x[0] == "index" and x[1] == s:
                    i = const_int(x[2])
                    if i is not None:
                        bytes_[i] = c
        if L is None or sorted(bytes_) != list(range(L)):
            ck.unrecognised("C15-T1", b.path, "leaf-string-not-fully-determined:" + v[2])
            continue
        text = bytes(bytes_[i] for i in range(L)).decode("utf-8", "replace")
        if text in P and P[text] != v[2]:
            ck.ob("C15-T1", b.path, "FromStr-tree-deterministic:" + text, False)
        P[text] = v[2]
    return P, nleaf


def reader_arms(ctx, ck):
    """parse_key_code: literal arms, '@' rejection, fallback to FromStr"""
    b = ctx.body(PARSE_KEY)
    text = T("param", 1, b.dbg.get(1, ""))
    arms = {}
    at_rejected = False
    fallback_ok = False
    for p in mir.walk_function(b):
        if p.outcome[0] != "return":
            continue
        ret = p.outcome[1]
        g = p.guards()
        sw = [(a, v) for a, v in g if isinstance(a, tuple) and a[0] == "call" and mir.method_name(a[1]) == "starts_with"]
        if sw and sw[0][1] is True:
            at_rejected = (sw[0][0][2] == (text, T("const", T("str", "@"))) and ret[0] == "agg" and ret[2] == "Err")
            continue
        eqs = [(a, v) for a, v in g if isinstance(a, tuple) and a[0] == "eq"]
        true_eq = [a for a, v in eqs if v is True]
        if true_eq:
            a = true_eq[0]
            lit = cstr(a[1]) if a[2] == text else (cstr(a[2]) if a[1] == text else None)
            val = ret[3][0] if ret[0] == "agg" and ret[2] == "Ok" else None
            if lit is None or not (isinstance(val, tuple) and val[0] == "agg" and val[1] == "key_codes::KeyCode"):
                ck.unrecognised("C15-T1", b.path, "literal-arm-shape")
                continue
            arms[lit] = val[2]
        else:
            # fallback
            r = ret
            if isinstance(r, tuple) and r[0] == "call" and mir.method_name(r[1]) == "map_err":
                inner = r[2][0]
                fallback_ok = (isinstance(inner, tuple) and inner[0] == "call" and inner[1] == FROMSTR and inner[2] == (text,))
    return arms, at_rejected, fallback_ok


def ser_struct_fields(ctx, ck, ty, tag):
    """field names written by a derived struct Serialize impl (every normal leaf must agree)"""
    b = find_ser(ctx, ty)
    lists = set()
    for guards, calls, ret in light.leaves(b):
        if any(v == "Break" for a, v in guards):
            continue
        start = [c for c in calls if mir.method_name(c[0]) == "serialize_struct"]
        if len(start) != 1 or cstr(start[0][1][1]) != tag:
            ck.unrecognised("C15-T2", b.path, "serialize_struct-shape")
            continue
        fields = tuple(cstr(c[1][1]) for c in calls if mir.method_name(c[0]) == "serialize_field")
        declared = const_int(start[0][1][2])
        ended = any(mir.method_name(c[0]) == "end" for c in calls)
        if not ended or declared != len(fields):
            ck.ob("C15-T2", b.path, "all-declared-fields-written", False, detail="declared %s wrote %s" % (declared, fields))
        lists.add(fields)
    if len(lists) != 1:
        ck.unrecognised("C15-T2", b.path, "conditional-field-list")
        return None
    return list(lists.pop())


def run(ctx):
    ck = ctx.check
    ck.rule_text = "one obligation per KeyCode variant (reported individually only when violated) plus one per schema element"
    ck.trusted_base = ["serde_json Value (de)serialisation of arrays/strings/numbers", "rustc MIR/HIR", "tmfacts"]
    # ---------------- T1 key names
    W = writer_keycode_table(ctx, ck)
    P, nleaf = fromstr_table(ctx, ck)
    arms, at_rejected, fallback_ok = reader_arms(ctx, ck)
    kc = ctx.adt("key_codes::KeyCode")
    variants = [v["name"] for v in kc["variants"]]
    ck.analysed.update({"writer_names": len(W), "fromstr_leaves": nleaf, "reader_literal_arms": len(arms), "variants": len(variants)})
    ck.explanation = ("Writer table: %d names read from the derived Serialize impl. Reader: %d literal arms of parse_key_code, '@' "
                      "rejected first, fallback KeyCode::from_str whose decision tree has %d Some-leaves; every accepted string was "
                      "reconstructed from the length/byte guards on its leaf." % (len(W), len(arms), nleaf))
    ck.ob("C15-T1", PARSE_KEY, "alias-prefix-rejected-before-lookup", at_rejected)
    ck.ob("C15-T1", PARSE_KEY, "fallback-is-KeyCode::from_str(text)", fallback_ok)
    fs = ctx.body(FROMSTR)
    ps = [p for p in mir.walk_function(fs) if p.outcome[0] == "return"]
    shape = False
    if len(ps) == 1:
        r = ps[0].outcome[1]
        shape = (isinstance(r, tuple) and r[0] == "call" and mir.method_name(r[1]) == "ok_or" and isinstance(r[2][0], tuple)
                 and r[2][0][0] == "call" and r[2][0][1] == PARSE_TREE)
    ck.ob("C15-T1", FROMSTR, "from_str=ok_or(_parse(bytes))", shape)
    bad = 0
    for v in variants:
        name = W.get(v)
        if name is None:
            bad += 1
            ck.ob("C15-T1", "key_codes::KeyCode", "writer-has-name:" + v, False)
            continue
        back = arms.get(name) if name in arms else P.get(name)
        ok = back == v and not name.startswith("@")
        if not ok:
            bad += 1
            ck.ob("C15-T1", "key_codes::KeyCode", "name-roundtrip:%s" % v, False,
                  detail="written as %r, read back as %s" % (name, back))
    ck.ob("C15-T1", "key_codes::KeyCode", "every-written-key-name-reads-back-as-the-same-key", bad == 0,
          detail="%d variants checked, %d failures" % (len(variants), bad))
    ck.floor("C15-T1", "keycode-variants", len(variants), 484)
    ck.floor("C15-T1", "fromstr-leaves", nleaf, 484)
    ck.floor("C15-T1", "literal-arms", len(arms), 10)

    # ---------------- T2 schema
    hl = ctx.hir("layout_parsing_formatting::parse_layout_from_json")
    hm = ctx.hir("layout_parsing_formatting::parse_mapping_from_json")
    lay_fields = ser_struct_fields(ctx, ck, "keys::Layout", "Layout")
    map_fields = ser_struct_fields(ctx, ck, "keys::Mapping", "Mapping")

    def key_lists(h, fn):
        out = []
        for c in hirq.calls(h["body"], path="layout_parsing_formatting::" + fn):
            out.append(hirq.str_lits(hirq.resolve(h["body"], hirq.call_args(c)[1])))
        return out

    def gets(h):
        out = []
        for c in hirq.calls(h["body"]):
            cal = hirq.callee_of(c)
            if cal and cal.endswith("::get") and "Map" in cal:
                out += hirq.str_lits(hirq.resolve(h["body"], hirq.call_args(c)[1]))
            if cal and cal.endswith("::contains_key") and "Map" in cal:
                pass
        return out
    if lay_fields is not None:
        exact = key_lists(hl, "has_exactly_keys")
        ok = exact == [lay_fields] and set(gets(hl)) == set(lay_fields)
        ck.ob("C15-T2", "keys::Layout", "root-fields==parser's-exact-key-list", ok,
              detail="writer %s, parser exact %s, parser gets %s" % (lay_fields, exact, gets(hl)))
    if map_fields is not None:
        atleast = key_lists(hm, "has_at_least_keys")
        read = set(gets(hm))
        req = set(atleast[0]) if atleast else set()
        ok = bool(atleast) and req <= set(map_fields) and set(map_fields) <= read
        ck.ob("C15-T2", "keys::Mapping", "required<=written<=read", ok,
              detail="required %s, written %s, read %s" % (sorted(req), map_fields, sorted(read)))
    # field kinds: from/to/absorbing are Vec<KeyCode>, repeat is Repeat
    madt = ctx.adt("keys::Mapping")["variants"][0]["fields"]
    kinds = {f["name"]: f["ty"] for f in madt}
    ck.ob("C15-T2", "keys::Mapping", "field-types", kinds == {"from": "std::vec::Vec<key_codes::KeyCode>", "to": "std::vec::Vec<key_codes::KeyCode>",
                                                              "repeat": "keys::Repeat", "absorbing": "std::vec::Vec<key_codes::KeyCode>"},
          detail=str(kinds))
    # Repeat
    rb = find_ser(ctx, "keys::Repeat")
    unit = {}
    special = None
    for guards, calls, ret in light.leaves(rb):
        if any(v == "Break" for a, v in guards):
            continue
        var = [v for a, v in guards if a == T("variantof", T("param", 1, rb.dbg.get(1, "")))]
        uv = [c for c in calls if mir.method_name(c[0]) == "serialize_unit_variant"]
        sv = [c for c in calls if mir.method_name(c[0]) == "serialize_struct_variant"]
        if uv and var:
            unit[var[0]] = cstr(uv[0][1][3])
        elif sv and var:
            fields = [cstr(c[1][1]) for c in calls if mir.method_name(c[0]) == "serialize_field"]
            special = (var[0], cstr(sv[0][1][3]), fields)
    for fn, enum in (("parse_single_repeat", "fancy_keys::SingleRepeat"), ("parse_row_repeat", "fancy_keys::RowRepeat")):
        path = "layout_parsing_formatting::" + fn
        h = ctx.hir(path)
        accepted = {}
        for iff in hirq.exprs(h["body"], "If"):
            c = iff["cond"]
            if c.get("k") != "Binary" or c.get("op") != "Eq":
                continue
            sides = [c["a"], c["b"]]
            lit = [x for x in sides if x.get("k") == "Lit" and x["lit"]["t"] == "str"]
            low = [x for x in sides if x.get("k") == "MethodCall" and x.get("name") == "to_lowercase"]
            if len(lit) != 1:
                continue
            then = iff["then"]
            oks = [x for x in hirq.calls(then) if (hirq.callee_of(x) or "").endswith("Ok")]
            var = None
            for o in oks:
                a0 = hirq.call_args(o)[0]
                if a0.get("k") == "Path" and a0["res"].get("k") == "def" and a0["res"]["path"].startswith(enum + "::"):
                    var = a0["res"]["path"].rsplit("::", 1)[-1]
            if var:
                accepted[lit[0]["lit"]["v"]] = (var, len(low) == 1)
        for var, name in sorted(unit.items()):
            got = accepted.get(name.lower())
            ok = got is not None and got[0] == var and got[1]
            ck.ob("C15-T2", path, "unit-repeat-%s-written-as-%r-is-read-back" % (var, name), ok, detail="parser accepts %s" % accepted)
        if special:
            var, tag, fields = special
            h = ctx.hir(path)
            exact = [hirq.str_lits(hirq.resolve(h["body"], hirq.call_args(c)[1])) for c in hirq.calls(h["body"], path="layout_parsing_formatting::has_exactly_keys")]
            ok = [tag] in exact and any(sorted(e) == sorted(fields) for e in exact)
            ck.ob("C15-T2", path, "Special-tag-and-fields==parser's-exact-key-lists", ok,
                  detail="writer %s %s, parser %s" % (tag, fields, exact))
    ck.ob("C15-T2", "keys::Repeat", "writer-variants", set(unit) == {"Normal", "Disabled"} and special is not None and special[0] == "Special",
          detail="%s %s" % (unit, special))
    # repeat variant is carried over by the converter unchanged: SingleRepeat::X -> Repeat::X
    for fn in ("fancy_layout_interpreting::convert_single",):
        b = ctx.body(fn)
        seen = {}
        for h in b.loops():
            for p in Walker(b).walk(h, start_is_header=True):
                for e in p.events:
                    if e.kind == "guard" and isinstance(e.a, tuple) and e.a[0] == "variantof" and isinstance(e.a[1], tuple) \
                            and e.a[1][0] == "field" and e.a[1][2] == "repeat" and isinstance(e.b, str):
                        src = e.b
                        # value pushed: Mapping{.., repeat: X}
                        for e2 in p.events:
                            if e2.kind == "call" and mir.method_name(e2.a) == "push" and isinstance(e2.b[1], tuple) and e2.b[1][0] == "agg" and e2.b[1][1] == "keys::Mapping":
                                m = e2.b[1]
                                rep = m[3][m[4].index("repeat")]
                                if isinstance(rep, tuple) and rep[0] == "agg":
                                    seen.setdefault(src, set()).add(rep[2])
        ok = seen == {"Normal": {"Normal"}, "Disabled": {"Disabled"}, "Special": {"Special"}}
        ck.ob("C15-T2", fn, "repeat-variant-carried-over-unchanged", ok, detail=str(seen))

    # ---------------- R1 same file, same flag
    us = "udev_utils::write_layout_to_global_config"
    hw = ctx.hir(us)
    lits = hirq.str_lits(hw["body"])
    path_lit = "/etc/totalmapper.json"
    opens = [c for c in hirq.calls(hw["body"]) if (hirq.callee_of(c) or "").endswith("OpenOptions::open")]
    ok_open = len(opens) == 1 and hirq.str_lits(hirq.call_args(opens[0])[1]) == [path_lit]
    ck.ob("C15-R1", us, "saves-to-/etc/totalmapper.json", ok_open)
    wb = ctx.body(us)
    sers = [(i, n, t) for i, n, t in wb.calls() if n.startswith("serde_json::to_writer")]
    ok_ser = len(sers) == 1 and "keys::Layout" in sers[0][2]["callee"].get("args", "")
    ck.ob("C15-R1", us, "serialises-keys::Layout-with-serde_json", ok_ser,
          detail=sers[0][2]["callee"].get("args", "")[:120] if sers else "no serde_json::to_writer* call")
    from .c17 import file_replaced_whole
    okf, whyf = file_replaced_whole(ctx, wb)
    ck.ob("C15-R1", us, "the-saved-file-is-replaced,not-overlaid(truncate+write,no-append)", okf, detail=whyf)
    from ..rustlit import format_template_of
    tmpl = format_template_of(ctx.body("udev_utils::build_service_text"))
    ck.ob("C15-R1", "udev_utils::build_service_text", "service-loads---layout-file-/etc/totalmapper.json",
          tmpl is not None and ("--layout-file " + path_lit + " ") in tmpl, detail=(tmpl or "no format! template found")[-160:])
    # --layout-file reaches load_layout_from_file
    hm_ = ctx.hir("main")
    ml = hirq.str_lits(hm_["body"])
    cone = ctx.cone(["main"])
    ck.ob("C15-R1", "main", "--layout-file-handled-by-load_layout_from_file",
          ("layout-file" in ml or "layout_file" in ml) and "layout_loading::load_layout_from_file" in cone)
    ll = ctx.body("layout_loading::load_layout_from_file")
    names = [n for _, n, _ in ll.calls()]
    loader_chain_rule(ctx, ck, "C15-R1")
    ck.ob("C15-R1", ll.path, "loader-chains-json->parse->convert",
          any(n.startswith("serde_json::from_reader") for n in names)
          and "layout_parsing_formatting::parse_layout_from_json" in names and "fancy_layout_interpreting::convert" in names)

    # ---------------- R2 absorbing of converter output comes from the trigger's own modifiers
    for fn in ("fancy_layout_interpreting::convert_single", "fancy_layout_interpreting::convert_row", "fancy_layout_interpreting::convert_alias",
               "fancy_layout_interpreting::adjust_repeats"):
        b = ctx.body(fn)
        srcs = set()

        def scan(paths):
            for p in paths:
                for e in p.events:
                    for tt in (e.a, e.b, e.c):
                        if not isinstance(tt, tuple):
                            continue
                        for a in mir.subterms(tt):
                            if isinstance(a, tuple) and len(a) > 4 and a[0] == "agg" and a[1] == "keys::Mapping":
                                ab = a[3][a[4].index("absorbing")]
                                srcs.add(_absorb_src(ab))
                if p.outcome[0] == "return":
                    for s_ in mir.subterms(p.outcome[1]):
                        if isinstance(s_, tuple) and s_ and s_[0] == "agg" and s_[1] == "keys::Mapping":
                            ab = s_[3][s_[4].index("absorbing")]
                            srcs.add(_absorb_src(ab))
        scan(mir.walk_function(b))
        for h in b.loops():
            scan(Walker(b).walk(h, start_is_header=True))
        ok = bool(srcs) and srcs <= {"empty", "reify(absorbing)"}
        ck.ob("C15-R2", fn, "absorbing-is-empty-or-reified-from-the-mapping's-own-absorbing-list", ok, detail=str(sorted(srcs)))
    # ---------------- R3: the reload converts every saved (plain, alias-free) mapping into exactly one mapping, in
    # order, with its own keys: the structural clauses of the conversion pipeline that a plain mapping goes through
    # (convert's pass S5, convert_single S6, plain-key branches of S2/S3/S4) hold on this tree
    from ..report import Check
    from . import c13s
    sub = Check("C13", quiet=True)
    from ..ctx import Ctx
    sctx = Ctx(ctx.F, sub, ctx.tier)
    for f in (c13s.s2_from_modifiers, c13s.s3_reify_modifiers, c13s.s4_translate, c13s.s5_convert, c13s.s6_convert_single):
        f(sctx, sub)
    bad = [v["key"] for v in sub.violations]
    ck.ob("C15-R3", "fancy_layout_interpreting::convert", "a-saved-mapping-reloads-as-exactly-one-mapping,in-place(conversion-pipeline-clauses-S2-S6)", not bad,
          detail=None if not bad else bad[0][:220])
    ck.analysed["conversion_clauses_rerun"] = len(sub.obligations)
    r4_reader_lists(ctx, ck)
    r5_cross_field_rejections(ctx, ck)
    r6_layout_level_rejections(ctx, ck)
    r7_number_fields(ctx, ck)
    r8_special_attributes(ctx, ck)


def _absorb_src(ab):
    if isinstance(ab, tuple) and ab:
        if ab[0] == "okval" and isinstance(ab[1], tuple) and ab[1][0] == "call" and mir.method_name(ab[1][1]) == "reify_modifiers":
            arg = ab[1][2][1]
            if isinstance(arg, tuple) and arg[0] == "field" and arg[2] == "absorbing":
                return "reify(absorbing)"
            return "reify(other)"
        if ab[0] == "call" and mir.method_name(ab[1]) in ("new", "into_vec", "from_elem"):
            return "empty" if _is_empty_vec(ab) else "vec(?)"
    return show(ab)[:60]


def _is_empty_vec(t):
    if t[0] == "call" and mir.method_name(t[1]) == "new" and not t[2]:
        return True
    # vec![] lowers to Vec::new(); vec![x..] to into_vec(box [..])
    return False


# ---------------------------------------------------------------------------------------------
# R4: the reader's list plumbing.  A saved mapping is four lists of key names; on reload every name must go through
# parse_key_code (the only function that knows the digit spellings serde writes), and every list must come back in the
# order it was written, split as "all but the last" ++ [last].
LPF = "layout_parsing_formatting::"


def _in_order_list_parser(ctx, fn, elem_parsers, arg_index=1):
    """fn(xs) == [elem_parser(x) for x in xs] (forward, every element, only error exits), as a loop with push or as
    xs.iter().map(|x| elem_parser(x)).collect()  ->  (ok, why)"""
    from .. import ktloops
    b = ctx.body(fn)
    xs = T("param", arg_index, b.dbg.get(arg_index, ""))
    loops = sorted(b.loops())
    if len(loops) == 1:
        il = ktloops.index_loop(b, loops[0])
        if not (il.kind == "for-elements" and il.list_term == xs and il.complete and il.direction == "fwd"):
            return False, "the loop does not visit every element of the list from the front"
        from .c13s import _err_exit
        if [p for p in il.break_paths if not _err_exit(p)]:
            return False, "the loop can be left early without an error"
        acc = None
        for p in il.cont_paths:
            calls = [e for e in p.events if e.kind == "call" and e.a in elem_parsers]
            pushes = [e for e in p.events if e.kind == "call" and mir.method_name(e.a) == "push"]
            if len(calls) != 1 or mir.strip(calls[0].b[0]) != il.elem or len(pushes) != 1:
                return False, "an element is not parsed by %s and pushed exactly once" % "/".join(x.rsplit("::", 1)[-1] for x in elem_parsers)
            v = pushes[0].b[1]
            if not (v == T("okval", calls[0].c) or v == calls[0].c):
                return False, "what is pushed is not the parsed element"
            if [e for e in p.events if e.kind == "guard" and not (isinstance(e.a, tuple) and e.a[0] == "variantof")]:
                return False, "an element is handled conditionally"
            acc = mir.strip(pushes[0].b[0])
        rets = [p for p in mir.walk_function(b) if p.outcome[0] == "return" and isinstance(p.outcome[1], tuple) and p.outcome[1][0] == "agg" and p.outcome[1][2] == "Ok"]
        if not rets or any(mir.strip(p.outcome[1][3][0]) != acc for p in rets):
            return False, "the accumulated vector is not what is returned"
        return True, None
    if not loops:
        for p in mir.walk_function(b):
            if p.outcome[0] != "return":
                continue
            r = p.outcome[1]
            if isinstance(r, tuple) and r[0] == "call" and mir.method_name(r[1]) == "collect":
                m_ = r[2][0]
                if isinstance(m_, tuple) and m_[0] == "call" and mir.method_name(m_[1]) == "map" and m_[2][0] == T("iter", xs, "fwd") and isinstance(m_[2][1], tuple) \
                        and m_[2][1][0] == "const" and isinstance(m_[2][1][1], tuple) and m_[2][1][1][0] == "fn" and m_[2][1][1][1] in elem_parsers:
                    return True, None        # .map(parse_elem): the element parser itself is the mapping function
                if isinstance(m_, tuple) and m_[0] == "call" and mir.method_name(m_[1]) == "map" and m_[2][0] == T("iter", xs, "fwd") and isinstance(m_[2][1], tuple) and m_[2][1][0] == "closure":
                    cps, cb = mir.walk_closure(ctx.body, m_[2][1], param_terms=[T("mapelem", xs)])
                    outs = [q.outcome[1] for q in cps if q.outcome[0] == "return"]
                    if len(outs) == 1 and isinstance(outs[0], tuple) and outs[0][0] == "call" and outs[0][1] in elem_parsers and mir.strip(outs[0][2][0]) == T("mapelem", xs):
                        return True, None
        return False, "neither an in-order loop nor iter().map(parse).collect()"
    return False, "several loops"


def r4_reader_lists(ctx, ck):
    # (a) who may turn text into a KeyCode
    callers = set()
    for p in ctx.F.bodies:
        if not p.startswith(LPF) or "::tests::" in p:
            continue
        for i, name, t in ctx.body(p).calls():
            if name == FROMSTR:
                callers.add(p.split("::{closure")[0])
    ck.ob("C15-R4", "-", "key-names-become-KeyCodes-only-in-parse_key_code(the-one-place-that-knows-the-digit-spellings)", callers == {PARSE_KEY}, detail=str(sorted(callers)))
    # (b) in-order list parsers
    for fn, eps in ((LPF + "parse_from_modifiers", {LPF + "parse_from_modifier"}), (LPF + "parse_to_initial", {LPF + "parse_to_initial_elem"})):
        ok, why = _in_order_list_parser(ctx, fn, eps)
        ck.ob("C15-R4", fn, "list-read-back-in-written-order,element-by-element", ok, detail=why)
    # element parsers reach parse_key_code with the element's own text
    for fn in (LPF + "parse_from_modifier", LPF + "parse_to_initial_elem", LPF + "parse_modifier", LPF + "parse_single_to_text", LPF + "parse_from_key_text"):
        b = ctx.body(fn)
        names = {n for _, n, _ in b.calls()}
        ck.ob("C15-R4", fn, "a-plain-key-name-is-parsed-by-parse_key_code", PARSE_KEY in names)
    # absorbing: loop over the array, every string element through parse_modifier, in order
    pa = ctx.body(LPF + "parse_absorbing")
    from .. import ktloops
    lp = sorted(pa.loops())
    okab = False
    why = "no loop"
    if len(lp) == 1:
        il = ktloops.index_loop(pa, lp[0])
        from .c13s import _err_exit
        okab = il.kind == "for-elements" and il.complete and il.direction == "fwd" and not [p for p in il.break_paths if not _err_exit(p)]
        why = None if okab else "loop shape"
        for p in il.cont_paths:
            calls = [e for e in p.events if e.kind == "call" and e.a == LPF + "parse_modifier"]
            pushes = [e for e in p.events if e.kind == "call" and mir.method_name(e.a) == "push"]
            if len(calls) != 1 or len(pushes) != 1 or pushes[0].b[1] != T("okval", calls[0].c) or not any(isinstance(s_, tuple) and s_ == il.elem for s_ in mir.subterms(calls[0].b[0])):
                okab, why = False, "an element is not parsed by parse_modifier and pushed exactly once"
    ck.ob("C15-R4", pa.path, "absorbing-list-read-back-in-written-order,element-by-element", okab, detail=why)
    # (c) splits: all-but-last ++ [last]
    for fn, par, first, last in ((LPF + "parse_from", None, LPF + "parse_from_modifiers", LPF + "parse_from_key"),
                                  (LPF + "parse_single_to_array", 1, LPF + "parse_to_initial", LPF + "parse_single_to_terminal")):
        b = ctx.body(fn)
        oks = []
        for p in mir.walk_function(b):
            c1 = [e for e in p.events if e.kind == "call" and e.a == first]
            c2 = [e for e in p.events if e.kind == "call" and e.a == last]
            if not c1:
                continue
            a = c1[0].b[0]
            good = False
            if mir.strip(a) == T("array", ()) and par is None:
                # the bare value read like a one-element list: no leading elements, the value itself is the last
                good = not c2 or mir.strip(c2[0].b[0]) == T("param", 1, b.dbg.get(1, ""))
            if isinstance(a, tuple) and a[0] == "index" and isinstance(a[2], tuple) and a[2][0] == "agg" and a[2][1] == "std::ops::Range":
                xs = a[1]
                lo, hi = a[2][3]
                good = mir.const_int(lo) == 0 and hi == T("binop", "Sub", T("len", xs), T("const", T("int", 1, "usize")))
                if good and c2:
                    l_ = c2[0].b[0]
                    good = isinstance(l_, tuple) and l_[0] == "index" and l_[1] == xs and l_[2] == hi
            oks.append(good)
        ck.ob("C15-R4", fn, "list-split-as-all-but-the-last++[last]", bool(oks) and all(oks), detail="%d paths" % len(oks))



def _error_adapter_param(ctx, name):
    """a crate-local fn that only rewrites the error side of a Result it is given:  r.map_err(..)  or
    match r { Ok(v) => Ok(v), Err(e) => Err(..) }   -> index of that parameter, else None"""
    if not ctx.has_body(name) or "{closure" in name:
        return None
    b = ctx.body(name)
    if len(b.blocks) > 60 or b.loops():
        return None
    for i in range(1, b.argc + 1):
        if not b.ltypes.get(i, "").startswith("std::result::Result<"):
            continue
        r = T("param", i, b.dbg.get(i, ""))
        ok = True
        n = 0
        for p in mir.walk_function(b):
            if p.outcome[0] in ("unreachable", "infeasible"):
                continue
            if p.outcome[0] != "return":
                ok = False
                break
            ret = mir.strip(p.outcome[1])
            n += 1
            if isinstance(ret, tuple) and ret[0] == "call" and mir.method_name(ret[1]) == "map_err" and mir.strip(ret[2][0]) == r:
                continue
            var = [e.b for e in p.events if e.kind == "guard" and e.a == T("variantof", r)]
            if var == ["Ok"] and isinstance(ret, tuple) and ret[0] == "agg" and ret[2] == "Ok" and mir.strip(ret[3][0]) == T("field", T("variant", r, "Ok"), "0"):
                continue
            if var == ["Err"] and isinstance(ret, tuple) and ret[0] == "agg" and ret[2] == "Err":
                continue
            ok = False
            break
        if ok and n:
            return i - 1
    return None


def loader_chain_rule(ctx, ck, rid):
    """load_layout_from_file hands the JSON value exactly as serde_json::from_reader produced it to
    parse_layout_from_json, and its result exactly to convert: no pass in between rewrites the document or the layout
    (only error-message adapters over the Result are allowed)"""
    ok = False
    why = "no successful path"
    other_ok = None
    saved = mir.Walker.AUTO_INLINE
    mir.Walker.AUTO_INLINE = False      # a new helper between the steps must stay visible as a call (body as compiled)
    try:
        ll = ctx.body("layout_loading::load_layout_from_file")
        paths = mir.walk_function(ll)
    finally:
        mir.Walker.AUTO_INLINE = saved
    for p in paths:
        if p.outcome[0] != "return":
            continue
        r = p.outcome[1]
        if not (isinstance(r, tuple) and r[0] == "call" and r[1] == "fancy_layout_interpreting::convert"):
            # any other way out must be a failure: a layout that is returned without having been converted (a cache, a
            # "the file is already in expanded form" fast path) has skipped the parser's and the converter's checks
            if not (_is_failure(r)):
                other_ok = "a path returns %s: a layout that did not come out of convert(parse(document))" % show(r)[:80]
            continue

        def through_adapters(t):
            # okval / try / error adapters (a crate-local fn whose name says convert_*_error, map_err) around a Result
            for _ in range(8):
                if isinstance(t, tuple) and t and t[0] in ("okval",):
                    t = t[1]
                elif isinstance(t, tuple) and t and t[0] == "call" and (mir.method_name(t[1]) in ("map_err",) or (t[1].startswith("layout_loading::convert_") and t[1].endswith("_error"))):
                    t = t[2][-1] if t[1].startswith("layout_loading::") else t[2][0]
                elif isinstance(t, tuple) and t and t[0] == "call" and _error_adapter_param(ctx, t[1]) is not None:
                    t = t[2][_error_adapter_param(ctx, t[1])]
                else:
                    break
            return t
        a1 = through_adapters(mir.strip(r[2][0]))
        if not (isinstance(a1, tuple) and a1[0] == "call" and a1[1] == "layout_parsing_formatting::parse_layout_from_json"):
            why = "convert is not given the result of parse_layout_from_json itself: %s" % show(a1)[:80]
            break
        a2 = through_adapters(mir.strip(a1[2][0]))
        if not (isinstance(a2, tuple) and a2[0] == "call" and a2[1].startswith("serde_json::from_reader")):
            why = "parse_layout_from_json is not given the value read by serde_json::from_reader itself: %s" % show(a2)[:80]
            break
        # ... and nothing in between gets `&mut` access to the document or to the parsed layout
        doc = mir.strip(a1[2][0])
        lay = mir.strip(r[2][0])
        start = max([i for i, e in enumerate(p.events) if e.kind == "call" and e.a.startswith("serde_json::from_reader")] or [0])
        touched = [e for e in p.events[start + 1:] if e.kind == "call" and e.d and any(mir.strip(x) in (doc, lay) or mir.mentions(mir.strip(x), doc) or mir.mentions(mir.strip(x), lay) for x in e.d)
                   and e.a not in ("fancy_layout_interpreting::convert", "layout_parsing_formatting::parse_layout_from_json") and not e.a.startswith("serde_json::from_reader")
                   and mir.method_name(e.a) not in ("branch", "from_residual")]
        if touched:
            why = "%s is given mutable access to the document between reading and converting it" % touched[0].a
            break
        ok, why = True, None
    if other_ok is not None:
        ok, why = False, other_ok
    ck.ob(rid, ll.path, "the-document-goes-from-from_reader-to-parse-to-convert-untouched", ok, detail=why)


def _is_failure(r):
    """Err(..) built here, or the failure of a `?`"""
    if isinstance(r, tuple) and r and r[0] == "from_residual":
        return True
    return isinstance(r, tuple) and len(r) > 2 and r[0] == "agg" and r[2] == "Err"


# ---------------------------------------------------------------------------------------------------------------
# R5: what the reader may refuse on the plain-mapping path
_MEMBER_SCANS = {"find": "Some", "position": "Some", "any": True, "all": False}


def _membership_closure(ctx, cname, negated_expected):
    """closure |m| [!] <m is one of the captured trigger modifiers>  -> (ok, why).  The test has to be a function of `m`
    and of the captured list alone: `list.contains(m)` or `list.iter().any(|x| x == m)` with the iterator made inside the
    closure.  A closure that advances an iterator it captured carries state from one element to the next."""
    if not ctx.has_body(cname):
        return False, "closure body not found"
    cb = ctx.body(cname)
    if cb.loops():
        return False, "the test closure has a loop"
    rets = [p for p in mir.walk_function(cb) if p.outcome[0] == "return"]
    if len(rets) != 1:
        return False, "the test closure is not a single expression"
    r = mir.strip(rets[0].outcome[1])
    neg = False
    while isinstance(r, tuple) and r and r[0] == "not":
        neg = not neg
        r = mir.strip(r[1])
    if neg != negated_expected:
        return False, "the test closure has the wrong polarity for the scan that uses it"
    env = T("param", 1, cb.dbg.get(1, ""))
    if not (isinstance(r, tuple) and r[0] == "call"):
        return False, "the test closure does not end in a membership call: %s" % show(r)[:80]
    mn = mir.method_name(r[1])
    recv = mir.strip(r[2][0]) if r[2] else None
    if mn == "contains":
        ok = mir.mentions(recv, env) and any(isinstance(x, tuple) and x[0] == "param" and x[1] == 2 for x in _subterms(r[2][1]))
        return ok, None if ok else "contains() is not applied to the captured list and the element"
    if mn == "any":
        if not (isinstance(recv, tuple) and recv[0] == "call" and mir.method_name(recv[1]) in ("iter", "into_iter") and mir.mentions(recv, env)):
            return False, ("the element test advances an iterator it captured (%s): what it says about one absorbed key depends on "
                           "the keys tested before it" % show(recv)[:60])
        inner = mir.strip(r[2][1])
        if isinstance(inner, tuple) and inner[0] == "closure" and ctx.has_body(inner[1]):
            ib = ctx.body(inner[1])
            ir = [p for p in mir.walk_function(ib) if p.outcome[0] == "return"]
            if len(ir) == 1:
                v = mir.strip(ir[0].outcome[1])
                if isinstance(v, tuple) and v[0] in ("eq",) or (isinstance(v, tuple) and v[0] == "call" and mir.method_name(v[1]) == "eq"):
                    return True, None
        return False, "the inner test of any() is not an equality with the element"
    return False, "unrecognised membership test %s" % mn


def _subterms(t):
    out = [t]
    if isinstance(t, tuple):
        for x in t:
            if isinstance(x, (tuple, list)):
                for y in (x if isinstance(x, list) else [x]):
                    out += _subterms(y)
    return out


def r5_cross_field_rejections(ctx, ck):
    fn = "layout_parsing_formatting::parse_mapping_from_json"
    b = ctx.body(fn)
    paths = [p for p in mir.walk_function(b) if p.outcome[0] == "return"]

    def kinds(p):
        out = []
        for e in p.events:
            if e.kind == "guard" and isinstance(e.a, tuple) and e.a[0] == "variantof" and isinstance(e.b, str):
                s_ = show(e.a)
                if "okval" in s_ and ("parse_from(" in s_ or "parse_single_or_alias_to(" in s_):
                    out.append(e.b)
        return out
    plain = [p for p in paths if kinds(p) == ["Single", "Single"]]
    oks = [p for p in plain if isinstance(p.outcome[1], tuple) and p.outcome[1][0] == "agg" and p.outcome[1][2] == "Ok"]
    ck.floor("C15-R5", "plain-mapping-paths", len(plain), 3)
    ck.ob("C15-R5", fn, "the-plain-mapping-path-is-found(from:Single,to:Single)", bool(oks), detail="%d paths, %d accepting" % (len(plain), len(oks)))
    rejections = [p for p in plain if _is_failure(p.outcome[1]) and p.outcome[1][0] != "from_residual"]
    n = 0
    for p in rejections:
        n += 1
        ok, why = _absorbed_rejection(ctx, b, p)
        ck.ob("C15-R5", fn, "a-plain-mapping-is-refused-only-when-an-absorbed-key-is-not-among-its-own-trigger-modifiers", ok, detail=why)
    ck.analysed["plain_mapping_rejections"] = n


def _absorbed_rejection(ctx, b, p):
    """is this Err path of the plain-mapping branch `some element of the absorbing list is not contained in from.modifiers`?"""
    def is_abs(t):
        s_ = show(t)
        return "parse_absorbing(" in s_

    def is_mods(t):
        s_ = show(t)
        return "parse_from(" in s_ and "modifiers" in s_
    # form 1: a loop over the absorbing list left through a failed contains()
    exits = [e for e in p.events if e.kind == "loopexit"]
    if exits:
        h = exits[-1].a
        lp = mir.walk_loop_only(b, h)
        rej = [q for q in lp if q.outcome[0] == "after-loop" and not any(e.kind == "guard" and e.b == "None" for e in q.events)]
        back = [q for q in lp if q.outcome[0] == "backedge"]

        def tests(q):
            out = []
            for e in q.events:
                if e.kind != "guard":
                    continue
                if isinstance(e.a, tuple) and e.a[0] == "variantof" and e.b in ("Some", "None"):
                    if not is_abs(e.a):
                        return None
                    continue
                out.append(e)
            return out
        ok = bool(rej) and bool(back)
        for q, want in [(x, False) for x in rej] + [(x, True) for x in back]:
            t_ = tests(q)
            if t_ is None or len(t_) != 1:
                return False, "the loop that refuses the mapping is not one membership test per absorbed key"
            g = t_[0]
            a = g.a
            if isinstance(a, tuple) and a and a[0] == "in" and len(a) >= 3:
                lst, el = a[2], a[1]           # (the canonical membership atom the walker makes of contains())
            elif isinstance(a, tuple) and a[0] == "call" and mir.method_name(a[1]) == "contains":
                lst, el = a[2][0], a[2][1]
            else:
                lst = el = None
            if not (lst is not None and g.b == want and is_mods(lst) and is_abs(el) and "elem(" in show(el)):
                return False, "the test in the refusing loop is not from.modifiers.contains(absorbed key): %s = %s" % (show(a)[:80], g.b)
        return ok, None if ok else "no refusing/continuing path found in the loop"
    # form 2: a scan of the absorbing list with a membership closure
    gs = [e for e in p.events if e.kind == "guard"]
    if not gs:
        return False, "no guard"
    g = gs[-1]
    a = g.a
    if isinstance(a, tuple) and a[0] == "variantof":
        a = a[1]
    a = mir.strip(a)
    if isinstance(a, tuple) and a[0] == "call" and mir.method_name(a[1]) in _MEMBER_SCANS and is_abs(a[2][0]):
        mn = mir.method_name(a[1])
        if g.b != _MEMBER_SCANS[mn]:
            return False, "the mapping is refused when %s(..) is %s" % (mn, g.b)
        cl = mir.strip(a[2][1])
        if not (isinstance(cl, tuple) and cl[0] == "closure"):
            return False, "the scan's test is not a closure"
        return _membership_closure(ctx, cl[1], negated_expected=(mn != "all"))
    return False, "a refusal of a plain mapping that is neither a field parser's failure nor the absorbed-key membership test: last test %s = %s" % (show(g.a)[:80], g.b)


# ---------------------------------------------------------------------------------------------------------------
# R6: what the reader may refuse at the level of the whole document
def r6_layout_level_rejections(ctx, ck):
    """parse_layout_from_json refuses a document only because (a) it is not {"mappings": [...]}, (b) one of its mappings
    is refused by parse_mapping_from_json (R5), or (c) a mapping uses an alias nobody defines (a saved layout uses
    none).  Any other refusal is a condition on the LIST -- the converter's output is not known to satisfy it (two
    shorthand mappings may expand to the same trigger, the list may be empty, ...)."""
    fn = "layout_parsing_formatting::parse_layout_from_json"
    b = ctx.body(fn)
    PM = "layout_parsing_formatting::parse_mapping_from_json"
    UA = "layout_parsing_formatting::mapping_all_used_aliases"
    HK = "layout_parsing_formatting::has_exactly_keys"

    cg = ctx.callgraph()

    def local_calls(t):
        """crate-local functions called in the term, closures it passes along included (their bodies' callees)"""
        out = set()
        todo = []
        for x in _subterms(t):
            if isinstance(x, tuple) and x and x[0] == "call" and isinstance(x[1], str) and x[1] in ctx.F.raw_bodies:
                out.add(x[1])
            if isinstance(x, tuple) and len(x) > 1 and x[0] == "closure" and isinstance(x[1], str):
                todo.append(x[1])
        seen = set()
        while todo:
            c = todo.pop()
            if c in seen:
                continue
            seen.add(c)
            for callee in cg.get(c, ()):
                if "{closure" in callee:
                    todo.append(callee)
                elif callee in ctx.F.raw_bodies:
                    out.add(callee)
        return out

    def is_next(g):
        return isinstance(g.a, tuple) and g.a[0] == "variantof" and isinstance(g.a[1], tuple) and g.a[1] and g.a[1][0] == "next"

    def classify(g):
        a = g.a
        s_ = show(a)
        if isinstance(a, tuple) and a[0] == "variantof":
            inner = mir.strip(a[1])
            if isinstance(inner, tuple) and inner[0] == "call" and inner[1] == PM and g.b == "Err":
                return "mapping-refused-by-parse_mapping_from_json"
            # the same through `?`, map_err, or a collect() into Result<Vec<_>, _>: the failing side of a value that is
            # made from parse_mapping_from_json's result and from nothing else of this crate
            lc = local_calls(a)
            if PM in lc and lc <= {PM} and g.b in ("Err", "Break", "None"):
                return "mapping-refused-by-parse_mapping_from_json"
        if isinstance(a, tuple) and a and a[0] == "in" and g.b is False and UA in local_calls(a[1]):
            return "alias-not-defined"
        if isinstance(a, tuple) and a and a[0] == "call" and mir.method_name(a[1]) == "contains" and g.b is False and UA in local_calls(a):
            return "alias-not-defined"
        if local_calls(a) <= {HK} and "root" in s_:
            return "document-shape"
        return None
    n = 0
    classes = set()
    # refusals inside loops: every exit of a loop that is not its exhaustion
    for h in sorted(b.loops()):
        for q in mir.walk_loop_only(b, h):
            if q.outcome[0] not in ("after-loop", "return"):
                continue
            gs = [e for e in q.events if e.kind == "guard"]
            if gs and is_next(gs[-1]) and gs[-1].b == "None" and q.outcome[0] == "after-loop":
                continue                # exhaustion
            own = [g for g in gs if not is_next(g)]
            if not own:
                continue                # an inner loop's exit passing through
            if q.outcome[0] == "return" and not _is_failure(q.outcome[1]):
                ck.ob("C15-R6", fn, "no-early-Ok-out-of-a-validation-loop", False, detail="bb%d returns %s" % (h, show(q.outcome[1])[:80]))
                continue
            # the decisive test is the last one that is not a pattern match on the visited element
            dec = own[-1]
            cls = classify(dec)
            n += 1
            if cls:
                classes.add(cls)
            ck.ob("C15-R6", fn, "a-document-is-refused-only-for-its-shape,a-refused-mapping-or-an-undefined-alias", cls is not None, site="bb%d" % h,
                  detail=cls or "a loop in parse_layout_from_json is left early when %s = %s: a refusal that depends on the list of mappings as a whole" % (show(dec.a)[:100], dec.b))
    # refusals outside loops
    for p_ in mir.walk_function(b):
        if p_.outcome[0] != "return" or not _is_failure(p_.outcome[1]):
            continue
        idx = [i for i, e in enumerate(p_.events) if e.kind == "loopexit"]
        tail = p_.events[(idx[-1] + 1) if idx else 0:]
        gs = [e for e in tail if e.kind == "guard"]
        if idx and not gs:
            continue                    # the continuation of a loop's early exit (classified above)
        if not gs:
            ck.ob("C15-R6", fn, "unconditional-refusal", False)
            continue
        cls = classify(gs[-1])
        n += 1
        if cls:
            classes.add(cls)
        ck.ob("C15-R6", fn, "a-document-is-refused-only-for-its-shape,a-refused-mapping-or-an-undefined-alias", cls is not None and (not idx or cls != "document-shape"),
              detail=cls or "refused when %s = %s" % (show(gs[-1].a)[:100], gs[-1].b))
    ck.analysed["layout_level_rejections"] = n
    ck.floor("C15-R6", "layout-level-rejection-sites", n, 3)
    ck.ob("C15-R6", fn, "the-per-mapping-parser-is-the-one-R5-looks-at", "mapping-refused-by-parse_mapping_from_json" in classes)


# ---------------------------------------------------------------------------------------------------------------
# R7: the two numbers of a Special repeat come back as written
def _int_bits(ty):
    import re
    m = re.match(r"^[iu](8|16|32|64|128|size)$", ty or "")
    if not m:
        return None
    return 64 if m.group(1) == "size" else int(m.group(1))


def r7_number_fields(ctx, ck):
    """serde writes delay_ms / interval_ms as the JSON integer of the field's value; the reader takes the integer of the
    JSON number (`as_i64`) and converts it to the field's type.  That is the identity as long as no conversion on the
    way is narrower than the field itself and nothing is computed from the number."""
    width = {}
    for v in ctx.adt("keys::Repeat")["variants"]:
        for f in v["fields"]:
            if f["name"] in ("delay_ms", "interval_ms"):
                width[f["name"]] = _int_bits(f["ty"])
    for name in ("delay_ms", "interval_ms"):
        fn = "layout_parsing_formatting::parse_repeat_" + name
        b = ctx.body(fn)
        need = width.get(name)
        ck.ob("C15-R7", fn, "the-field-is-an-integer-type", need is not None, detail="keys::Repeat::Special.%s" % name)
        oks = [p_ for p_ in mir.walk_function(b) if p_.outcome[0] == "return" and isinstance(p_.outcome[1], tuple)
               and p_.outcome[1][0] == "agg" and p_.outcome[1][2] == "Ok"]
        ck.ob("C15-R7", fn, "accepting-path-found", bool(oks))
        for p_ in oks:
            x = p_.outcome[1][3][0]
            narrow = None
            while isinstance(x, tuple) and x and x[0] == "cast":
                bts = _int_bits(x[2])
                if bts is None or (need is not None and bts < need):
                    narrow = x[2]
                x = x[1]
            subs = _subterms(x)
            src = [s for s in subs if isinstance(s, tuple) and s and s[0] == "call" and s[1] == "serde_json::Number::as_i64"
                   and s[2] and mir.strip(s[2][0]) == T("field", T("variant", T("param", 1, b.dbg.get(1, "")), "Number"), "0")]
            arith = [s for s in subs if isinstance(s, tuple) and s and s[0] in ("binop", "unop", "checked")]
            whole = bool(src) and not arith and (x == src[0] or (isinstance(x, tuple) and x[0] in ("okval", "someval", "call")))
            ck.ob("C15-R7", fn, "value==the-JSON-number's-integer(as_i64-of-the-argument,nothing-computed)", whole, detail=None if whole else show(x)[:160])
            ck.ob("C15-R7", fn, "no-conversion-narrower-than-the-field(%s-bit)" % need, narrow is None,
                  detail=None if narrow is None else "the number passes through `%s` on its way to the %s-bit field: a saved value outside that range reloads as another number" % (narrow, need))


# ---------------------------------------------------------------------------------------------------------------
# R8: each attribute of a Special repeat is read from the key the writer puts it under
def r8_special_attributes(ctx, ck):
    """The derived writer puts field f of Repeat::Special under the key "f" (R2 reads those names from the Serialize
    impl).  The reader must build field f from `get("f")` -- two same-typed numbers exchanged still type-check."""
    number_parsers = {"layout_parsing_formatting::parse_repeat_delay_ms", "layout_parsing_formatting::parse_repeat_interval_ms"}
    n = 0
    for fn in ("layout_parsing_formatting::parse_single_repeat", "layout_parsing_formatting::parse_row_repeat"):
        b = ctx.body(fn)
        for p_ in mir.walk_function(b):
            o = p_.outcome
            if not (o[0] == "return" and isinstance(o[1], tuple) and o[1][0] == "agg" and o[1][2] == "Ok"):
                continue
            v = o[1][3][0]
            if not (isinstance(v, tuple) and v[0] == "agg" and v[2] == "Special"):
                continue
            names = v[4]
            for f, a in zip(names, v[3]):
                n += 1
                strs = {s[1][1] for s in _subterms(a) if isinstance(s, tuple) and len(s) > 1 and s[0] == "const" and isinstance(s[1], tuple) and s[1] and s[1][0] == "str"}
                own = strs & set(names)
                ok = own == {f}
                ck.ob("C15-R8", fn, "Special.%s<-get(\"%s\")" % (f, f), ok,
                      detail=None if ok else "field `%s` of the Special repeat is built from the attribute(s) %s" % (f, sorted(own) or "none"))
                if f in ("delay_ms", "interval_ms"):
                    calls = {s[1] for s in _subterms(a) if isinstance(s, tuple) and s and s[0] == "call" and isinstance(s[1], str) and s[1] in ctx.F.raw_bodies}
                    okp = bool(calls) and calls <= number_parsers
                    ck.ob("C15-R8", fn, "Special.%s-goes-through-a-number-parser-R7-has-read(and-nothing-else)" % f, okp,
                          detail=None if okp else "crate-local calls on the way: %s" % sorted(calls))
    ck.floor("C15-R8", "Special-attributes-read", n, 6)
    # the same for the mapping records themselves: field f of every record parse_mapping_from_json builds is read from
    # the attribute "f" (a saved mapping is the Single record; the others are the shorthand forms)
    fn = "layout_parsing_formatting::parse_mapping_from_json"
    b = ctx.body(fn)
    n = 0
    done = set()
    for p_ in mir.walk_function(b):
        o = p_.outcome
        if not (o[0] == "return" and isinstance(o[1], tuple) and o[1][0] == "agg" and o[1][2] == "Ok"):
            continue
        v = o[1][3][0]
        rec = v[3][0] if isinstance(v, tuple) and v[0] == "agg" and v[1] == "fancy_keys::Mapping" and v[3] else None
        if not (isinstance(rec, tuple) and rec[0] == "agg" and len(rec) > 4):
            ck.ob("C15-R8", fn, "accepted-mapping-is-a-record-built-in-place", False, detail=show(v)[:120])
            continue
        names = rec[4]
        for f, a in zip(names, rec[3]):
            strs = {s[1][1] for s in _subterms(a) if isinstance(s, tuple) and len(s) > 1 and s[0] == "const" and isinstance(s[1], tuple) and s[1] and s[1][0] == "str"}
            own = strs & {"from", "to", "repeat", "absorbing"}
            ok = own == {f}
            key = (rec[2], f, ok)
            if key in done:
                continue
            done.add(key)
            n += 1
            ck.ob("C15-R8", fn, "%s.%s<-get(\"%s\")" % (rec[2], f, f), ok,
                  detail=None if ok else "field `%s` of %s is built from the attribute(s) %s" % (f, rec[2], sorted(own) or "none"))
    ck.floor("C15-R8", "mapping-record-fields-read", n, 12)
