"""C13 — row and alias shorthands mean exactly their hand-written expansion (table and constant clauses)."""
import json
import os

from .. import mir, hirq, hircanon, ktloops
from ..facts import VERIF
from ..mir import T, show, method_name, const_int, Walker, subterms
from ..report import Unrecognised

LEVEL = "other"
META = {
    "technique": "table extraction from MIR (insert sequences, vec!/array literals, match arms) and agreement with an independent US-QWERTY oracle, exhaustive over all 94 printable characters; sibling-table agreement for row names; decision table of convert_row_to; sibling agreement of the two repeat parsers; bare-value vs one-element-array branch comparison",
    "level_text": ("Decides the table/constant clauses of C13 exactly: CHAR_ACCESS_MAP equals the US-QWERTY oracle on every one of the "
                   "94 printable characters (key and shift bit; space absent; nothing extra); each physical row table is a prefix "
                   "of the oracle's row ('1' = grave row from index 1); the three row-name tables agree and the parser upper-cases; "
                   "convert_row_to's table is: index past the letters or space -> unmapped, unknown character -> error, else "
                   "modifiers ++ [shift iff the character needs it; right shift iff the trigger contains RIGHTSHIFT] ++ [key]; the "
                   "two repeat parsers are the same term; a bare value parses like the one-element array."),
    "level_note": ("NOT decided (the bulk of C13): the cartesian product over alias definitions, alias substitution on the output side, "
                   "preservation of source order and the repeat-only pass are the semantics of a small compiler over unbounded "
                   "programs; no structural rule here pins them down without executing the converter. Trusted: the oracle "
                   "transcription (oracles/us_qwerty.json), rustc MIR/HIR, tmfacts."),
}

# --- additions to the level description (rules added after the first version)
META['level_text'] += " Structural clauses of the expansion pipeline (S1-S7, tmv/rules/c13s.py) are decided in addition: build_combinations stores each alias's ordinal among the aliases and the number of its definitions; from_modifiers and reify_modifiers pick, for the j-th alias, the definition chosen by the j-th digit of the combination (output side through alias_map); translate_single_to_keys appends the terminal after the reified modifiers; convert appends every produced mapping once, in source order, indexed by its position, then applies repeat-only entries; convert_single emits exactly one mapping per combination with from/to/repeat/absorbing built from that combination; alias definitions are collected in source order."
META["level_note"] = "NOT decided: that the composition of these per-function clauses is the hand-written expansion for every layout is an argument on paper (the product iterator MultiplyIter is trusted to enumerate every digit vector once, in odometer order); adjust_repeats' lookup-by-trigger-set and convert_row's per-letter loop are covered only by the table clauses. Trusted: the oracle transcription (oracles/us_qwerty.json), rustc MIR/HIR, tmfacts."
META["technique"] += "; MIR path rules for the per-function clauses of the alias/row expansion pipeline (index provenance, iteration order, one-mapping-per-combination)"
META['level_text'] += " S5 also: every produced mapping's position is ADDED to the list kept under FromSet(its from) (get_mut/insert or entry API), so repeat-only entries reach every mapping with that key set."
# --- end additions

CAM = "char_production_map::_char_access_map"
ROWS = "physical_keyboard_layouts::_us_keyboard_layout"


def oracle():
    with open(os.path.join(VERIF, "oracles", "us_qwerty.json")) as fh:
        return json.load(fh)["rows"]


def keycode_of(t):
    if isinstance(t, tuple) and t:
        if t[0] == "agg" and t[1] == "key_codes::KeyCode":
            return t[2]
        if t[0] == "const" and isinstance(t[1], tuple) and t[1][0] == "val" and "KeyCode::" in str(t[1][1]):
            return t[1][1].rsplit("::", 1)[-1]
    return None


def enum_const(t, prefix):
    if isinstance(t, tuple) and t:
        if t[0] == "agg" and t[1].startswith(prefix):
            return t[2]
        if t[0] == "clone":
            return enum_const(t[1], prefix)
        if t[0] == "const" and isinstance(t[1], tuple) and t[1][0] == "val" and prefix in str(t[1][1]):
            return t[1][1].rsplit("::", 1)[-1]
    return None


def cstr(t):
    if isinstance(t, tuple) and t and t[0] == "const" and isinstance(t[1], tuple) and t[1][0] == "str":
        return t[1][1]
    if isinstance(t, tuple) and t and t[0] == "call" and method_name(t[1]) in ("to_string", "to_owned", "from", "into") and len(t[2]) == 1:
        return cstr(t[2][0])
    return None


def static_vec(ctx, name):
    """KeyCode list of `static ref NAME: Vec<KeyCode> = vec![..]`"""
    p = "<physical_keyboard_layouts::%s as std::ops::Deref>::deref::__static_ref_initialize" % name
    b = ctx.body(p)
    ps = [q for q in mir.walk_function(b) if q.outcome[0] == "return"]
    if len(ps) != 1:
        return None
    arrs = []
    for e in ps[0].events:
        for tt in (e.a, e.b, e.c):
            if isinstance(tt, tuple):
                for s in subterms(tt):
                    if isinstance(s, tuple) and s and s[0] == "array" and s[1] and all(keycode_of(x) for x in s[1]):
                        arrs.append([keycode_of(x) for x in s[1]])
    uniq = []
    for a in arrs:
        if a not in uniq:
            uniq.append(a)
    return uniq[0] if len(uniq) == 1 else None


def run(ctx):
    ck = ctx.check
    ck.rule_text = "one obligation per character of the US-QWERTY oracle (reported individually when violated), per row table, per row name, per row of convert_row_to's table, per parser pair"
    ck.trusted_base = ["oracles/us_qwerty.json (transcription of the ANSI layout)", "std HashMap insert semantics (last insert wins)", "rustc MIR/HIR", "tmfacts"]
    ora = oracle()
    want = {}
    for row in ora.values():
        for key, lo, up in row:
            want[lo] = (key, False)
            want[up] = (key, True)
    # ---------------- T1
    b = ctx.body(CAM)
    ps = [p for p in mir.walk_function(b) if p.outcome[0] == "return"]
    table = {}
    straight = len(ps) == 1 and not any(e.kind in ("guard", "loop") for e in ps[0].events)
    ck.ob("C13-T1", CAM, "table-is-a-straight-line-insert-sequence", straight)
    n_ins = 0
    if ps:
        ret = ps[0].outcome[1]
        for e in ps[0].events:
            if e.kind == "call" and method_name(e.a) == "insert" and "HashMap" in e.a and len(e.b) == 3:
                ch = const_int(e.b[1])
                v = e.b[2]
                if ch is None or not (isinstance(v, tuple) and v[0] == "agg" and v[1].endswith("SinkKey")):
                    ck.unrecognised("C13-T1", CAM, "insert-of-non-constant")
                    continue
                f = dict(zip(v[4], v[3]))
                table[chr(ch)] = (keycode_of(f["k"]), bool(const_int(f["sh"])))
                n_ins += 1
                ck.ob("C13-T1", CAM, "inserts-go-into-the-returned-map", mir.strip(e.b[0]) == mir.strip(ret))
    bad = 0
    for ch, (key, sh) in sorted(want.items()):
        got = table.get(ch)
        if got != (key, sh):
            bad += 1
            ck.ob("C13-T1", CAM, "char-U+%04X" % ord(ch), False, detail="%r: table says %s, a US-QWERTY keyboard needs %s%s" % (ch, got, "Shift+" if sh else "", key))
    extra = sorted(set(table) - set(want))
    ck.ob("C13-T1", CAM, "all-94-printable-characters-map-to-their-US-QWERTY-key-and-shift-state", bad == 0, detail="%d characters compared, %d wrong" % (len(want), bad))
    ck.ob("C13-T1", CAM, "space-and-other-characters-absent", not extra, detail=str(extra))
    ck.floor("C13-T1", "insert-calls", n_ins, 94)
    cam_callers = [c for c in ctx.callers_of(CAM)]
    ck.ob("C13-T1", CAM, "CHAR_ACCESS_MAP-is-initialised-from-this-table", any("CHAR_ACCESS_MAP" in c for c in cam_callers), detail=str(cam_callers)[:120])

    # ---------------- T2 rows
    rb = ctx.body(ROWS)
    rps = [p for p in mir.walk_function(rb) if p.outcome[0] == "return"]
    rowmap = {}
    if len(rps) == 1:
        for e in rps[0].events:
            if e.kind == "call" and method_name(e.a) == "insert" and "HashMap" in e.a and len(e.b) == 3:
                rname = enum_const(e.b[1], "fancy_keys::Row")
                sl = e.b[2]
                base = None
                start = None
                if isinstance(sl, tuple) and sl[0] == "index":
                    src, rng = sl[1], sl[2]
                    for s in subterms(src):
                        if isinstance(s, tuple) and s and s[0] == "const" and isinstance(s[1], tuple) and "US_ROW_" in str(s[1][1]):
                            base = "US_ROW_" + str(s[1][1]).split("US_ROW_")[1].split("}")[0].split(" ")[0].split(")")[0]
                    if isinstance(rng, tuple) and rng[0] == "agg":
                        if rng[1] == "std::ops::RangeFull":
                            start = 0
                        elif rng[1] == "std::ops::RangeFrom":
                            start = const_int(rng[3][0])
                rowmap[rname] = (base, start)
    ck.analysed["row_tables"] = {str(k): v for k, v in rowmap.items()}
    expect = {"USQuertyGrave": ("grave", 0), "USQuerty1": ("grave", 1), "USQuertyQ": ("q", 0), "USQuertyA": ("a", 0), "USQuertyZ": ("z", 0)}
    ck.ob("C13-T2", ROWS, "five-rows-defined", set(rowmap) == set(expect), detail=str(sorted(map(str, rowmap))))
    for rname, (orow, ostart) in sorted(expect.items()):
        base, start = rowmap.get(rname, (None, None))
        keys = static_vec(ctx, base) if base else None
        okeys = [k for k, _, _ in ora[orow]]
        ok = keys is not None and start == ostart and keys[:len(keys)] == okeys[:len(keys)] and len(keys) - start >= 10
        ck.ob("C13-T2", ROWS, "row-%s-is-the-physical-%s-row-from-index-%d" % (rname, orow, ostart), ok,
              detail="table %s[%s..] = %s; oracle %s" % (base, start, keys, okeys))

    # ---------------- T3 row names
    rn = ctx.body("<layout_parsing_formatting::ROW_NAMES as std::ops::Deref>::deref::__static_ref_initialize")
    names_parser = {}
    for p in mir.walk_function(rn):
        for e in p.events:
            for tt in (e.a, e.b, e.c):
                if isinstance(tt, tuple):
                    for s in subterms(tt):
                        if isinstance(s, tuple) and s and s[0] == "tuple" and len(s[1]) == 2 and cstr(s[1][0]) is not None and enum_const(s[1][1], "fancy_keys::Row"):
                            names_parser[cstr(s[1][0])] = enum_const(s[1][1], "fancy_keys::Row")
    disp = {}
    db = ctx.body("<fancy_keys::Row as std::fmt::Display>::fmt")
    me = T("param", 1, db.dbg.get(1, ""))
    for p in mir.walk_function(db):
        var = [v for a, v in p.guards() if a == T("variantof", me)]
        ws = [e for e in p.events if e.kind == "call" and method_name(e.a) == "write_str"]
        if len(var) == 1 and len(ws) == 1 and cstr(ws[0].b[1]) is not None:
            disp[var[0]] = cstr(ws[0].b[1])
    fr = {}
    fb = ctx.body("layout_parsing_formatting::format_row")
    rowp = T("param", 1, fb.dbg.get(1, ""))
    for p in mir.walk_function(fb):
        var = [v for a, v in p.guards() if a == T("variantof", rowp)]
        lits = []
        for e in p.events:
            if e.kind == "call" and method_name(e.a) in ("to_owned", "to_string") and cstr(e.b[0]) is not None:
                lits.append(cstr(e.b[0]))
        lits = [l for l in lits if l != "row"]
        if len(var) == 1 and len(lits) == 1:
            fr[var[0]] = lits[0]
    inv_parser = {v: k for k, v in names_parser.items()}
    ck.analysed["row_names"] = {"parser": names_parser, "display": disp, "format_row": fr}
    ck.ob("C13-T3", "-", "three-row-name-tables-agree", inv_parser == disp == fr and len(disp) == 5, detail="parser %s, Display %s, format_row %s" % (inv_parser, disp, fr))
    ck.ob("C13-T3", "-", "row-names-are-their-own-upper-case", all(k == k.upper() for k in names_parser), detail=str(sorted(names_parser)))
    pr = ctx.hir("layout_parsing_formatting::parse_row")
    ups = [c for c in hirq.calls(pr["body"]) if (hirq.callee_of(c) or "").endswith("str>::to_uppercase")]
    gets = [c for c in hirq.calls(pr["body"]) if (hirq.callee_of(c) or "").endswith("::get")]
    ok = len(gets) == 1 and len(ups) == 1 and any(x is ups[0] for x in hirq.walk(gets[0]["args"][0]))
    ck.ob("C13-T3", "layout_parsing_formatting::parse_row", "parser-upper-cases-before-lookup", ok)

    # ---------------- T4 convert_row_to
    cb = ctx.body("fancy_layout_interpreting::convert_row_to")
    hrs, mods, terms, ci = (T("param", i, cb.dbg.get(i, "")) for i in (1, 2, 3, 4))
    classes = set()
    for p in mir.walk_function(cb):
        if p.outcome[0] != "return":
            continue
        g = p.guards()
        ret = p.outcome[1]
        past = [v for a, v in g if isinstance(a, tuple) and a[0] == "binop" and a[1] in ("Ge", "Lt") and a[2] == ci and a[3] == T("len", terms)]
        past_true = bool(past) and ((past[0] is True) == ([a[1] for a, v in g if isinstance(a, tuple) and a[0] == "binop" and a[2] == ci][0] == "Ge"))
        # the same test written as terminals.get(char_i): None <=> the index is past the letters
        getc = [(a, v) for a, v in g if isinstance(a, tuple) and a[0] == "variantof" and isinstance(a[1], tuple) and a[1][0] == "call" and method_name(a[1][1]) == "get"
                and "HashMap" not in a[1][1] and len(a[1][2]) == 2 and mir.strip(a[1][2][0]) == terms and a[1][2][1] == ci]
        if getc and getc[0][1] == "None":
            past_true = True
        if past_true:
            classes.add("past-end")
            ck.ob("C13-T4", cb.path, "index-past-the-letters->unmapped", _is_ok_none(ret))
            continue
        ch = T("index", terms, ci)
        chs = {ch}
        if getc:
            chs.add(T("field", T("variant", getc[0][0][1], "Some"), "0"))
        sp = [v for a, v in g if Walker._eq_const(a) is not None and mir.strip(Walker._eq_const(a)[0]) in chs and Walker._eq_const(a)[1] == 32]
        # (the same test as a match arm `Some(' ') => ..`: a switch on the character itself)
        for a, v in g:
            if isinstance(a, tuple) and mir.strip(a) in chs and not sp:
                if v == 32:
                    sp = [True]
                elif isinstance(v, tuple) and v and v[0] == "other" and 32 in v[1]:
                    sp = [False]
        if sp == [True]:
            classes.add("space")
            ck.ob("C13-T4", cb.path, "space->unmapped", _is_ok_none(ret))
            continue
        look = [(a, v) for a, v in g if isinstance(a, tuple) and a[0] == "variantof" and isinstance(a[1], tuple) and a[1][0] == "call" and method_name(a[1][1]) == "get" and "HashMap" in a[1][1]]
        if not look:
            ck.ob("C13-T4", cb.path, "path-class", False, detail=str([(show(a)[:40], v) for a, v in g]))
            continue
        a, v = look[0]
        key_ok = mir.strip(a[1][2][1]) in chs and any("CHAR_ACCESS_MAP" in str(s) for s in subterms(a[1][2][0]))
        if v == "None":
            classes.add("unknown")
            ck.ob("C13-T4", cb.path, "unknown-character->error", key_ok and _is_err(ret))
            continue
        sk = T("field", T("variant", a[1], "Some"), "0")
        sh = [vv for aa, vv in g if aa == T("field", sk, "sh")]
        rs = [vv for aa, vv in g if aa == hrs]
        pushes = [e for e in p.events if e.kind == "call" and method_name(e.a) == "push" and "Vec" in e.a]
        base_ok = bool(pushes) and all(mir.strip(e.b[0]) == mods or e.b[0] == T("clone", mods) for e in pushes)
        vals = [e.b[1] for e in pushes]
        okret = isinstance(ret, tuple) and ret[0] == "agg" and ret[2] == "Ok" and isinstance(ret[3][0], tuple) and ret[3][0][2] == "Some" and ret[3][0][3][0] == T("clone", mods)
        if sh == [False]:
            classes.add("plain")
            ok = len(vals) == 1 and vals[0] == T("field", sk, "k")
            ck.ob("C13-T4", cb.path, "unshifted-character->modifiers++[key]", ok and base_ok and okret and key_ok)
        elif sh == [True] and rs in ([True], [False]):
            classes.add("shift-right" if rs == [True] else "shift-left")
            wantk = "RIGHTSHIFT" if rs == [True] else "LEFTSHIFT"
            ok = len(vals) == 2 and keycode_of(vals[0]) == wantk and vals[1] == T("field", sk, "k")
            ck.ob("C13-T4", cb.path, "shifted-character->modifiers++[%s]++[key]" % wantk, ok and base_ok and okret and key_ok, detail=str([show(v_)[:40] for v_ in vals]))
        else:
            ck.ob("C13-T4", cb.path, "shift-decision-recognised", False, detail="sh %s right %s" % (sh, rs))
    ck.ob("C13-T4", cb.path, "all-six-classes", classes == {"past-end", "space", "unknown", "plain", "shift-left", "shift-right"}, detail=str(sorted(classes)))
    # has_right_shift argument = find_right_shift(trigger modifiers)
    frs = ctx.body("fancy_layout_interpreting::find_right_shift")
    from .. import tables
    okf = False
    if len(frs.loops()) == 1:
        h = list(frs.loops())[0]
        il = ktloops.index_loop(frs, h, full=True)
        hit = [p for p in il.break_paths if p.outcome[0] == "return" and const_int(p.outcome[1]) == 1]
        exh = [p for p in il.exh_paths if p.outcome[0] == "return" and const_int(p.outcome[1]) == 0]
        cond = bool(hit)
        for p in hit:
            eqs = [a for a, v in p.guards() if isinstance(a, tuple) and a[0] == "eq"]
            tr = [a for a, v in p.guards() if v is True and isinstance(a, tuple) and a[0] == "eq"]
            cond = cond and len(eqs) == 1 and len(tr) == 1 and {keycode_of(tr[0][1]) or "elem", keycode_of(tr[0][2]) or "elem"} == {"RIGHTSHIFT", "elem"}
        okf = il.kind == "for-elements" and il.list_term == T("param", 1, frs.dbg.get(1, "")) and bool(hit) and bool(exh) and cond
    ck.ob("C13-T4", frs.path, "find_right_shift=some-trigger-key-is-RIGHTSHIFT", okf)
    cr = ctx.body("fancy_layout_interpreting::convert_row")
    args_ok = 0
    for i, name, t in cr.calls():
        if name == cb.path:
            gt = mir.Evaluator(cr, None).operand(t["args"][0])
            if isinstance(gt, tuple) and gt[0] == "call" and gt[1] == frs.path:
                inner = gt[2][0]
                if isinstance(inner, tuple) and (inner[0] == "clone" or True) and any(isinstance(s, tuple) and s and s[0] == "call" and method_name(s[1]) == "from_modifiers" for s in subterms(inner)):
                    args_ok += 1
    ck.ob("C13-T4", cr.path, "right-shift-flag-comes-from-the-trigger's-own-modifiers", args_ok >= 1, detail="%d call sites" % args_ok)

    # ---------------- T5 repeat parsers agree
    h1 = ctx.hir("layout_parsing_formatting::parse_single_repeat")
    h2 = ctx.hir("layout_parsing_formatting::parse_row_repeat")
    ren = {"fancy_keys::RowRepeat::Normal": "fancy_keys::SingleRepeat::Normal", "fancy_keys::RowRepeat::Disabled": "fancy_keys::SingleRepeat::Disabled",
           "fancy_keys::RowRepeat::Special": "fancy_keys::SingleRepeat::Special", "layout_parsing_formatting::parse_row_repeat_keys": "layout_parsing_formatting::parse_single_repeat_keys"}
    ca, cb2 = hircanon.Canon(rename=ren), hircanon.Canon(rename=ren)
    for p in h1["params"]:
        ca.pat(p)
    for p in h2["params"]:
        cb2.pat(p)
    ea, eb = ca.expr(h1["body"]), cb2.expr(h2["body"])
    ck.ob("C13-T5", "-", "parse_single_repeat==parse_row_repeat(modulo-the-result-type)", ea == eb, detail=None if ea == eb else "; ".join(hircanon.diff(ea, eb))[:300])
    for fn, h in (("parse_single_repeat", h1), ("parse_row_repeat", h2)):
        lits = set()
        for iff in hirq.exprs(h["body"], "If"):
            c = iff["cond"]
            if c.get("k") == "Binary" and c.get("op") == "Eq":
                l = [x for x in (c["a"], c["b"]) if x.get("k") == "Lit" and x["lit"]["t"] == "str"]
                low = [x for x in (c["a"], c["b"]) if x.get("k") == "MethodCall" and x.get("name") == "to_lowercase"]
                if l and low:
                    lits.add(l[0]["lit"]["v"])
        ck.ob("C13-T5", "layout_parsing_formatting::" + fn, "repeat-names-compared-case-insensitively", lits == {"normal", "disabled"}, detail=str(sorted(lits)))

    # ---------------- R1 bare value == one-element array
    for fn, arr_fn, term_fn, ctor in (("parse_single_to", "parse_single_to_array", "parse_single_to_terminal", "fancy_keys::SingleToKeys"),
                                      ("parse_row_to", "parse_row_to_array", "parse_row_to_terminal", "fancy_keys::RowToKeys")):
        P = "layout_parsing_formatting::"
        b = ctx.body(P + fn)
        v = T("param", 1, b.dbg.get(1, ""))
        ok_bare = ok_arr = False
        for p in mir.walk_function(b):
            if p.outcome[0] != "return":
                continue
            arr = [val for a, val in p.guards() if a == T("variantof", v)]
            ret = p.outcome[1]
            if arr == ["Array"]:
                ok_arr = isinstance(ret, tuple) and ret[0] == "call" and ret[1] == P + arr_fn
            elif ret[0] == "agg" and ret[2] == "Ok":
                st = ret[3][0]
                if isinstance(st, tuple) and st[0] == "agg" and st[1] == ctor:
                    f = dict(zip(st[4], st[3]))
                    init = f.get("initial")
                    term = f.get("terminal")
                    ok_bare = (isinstance(init, tuple) and init[0] == "call" and method_name(init[1]) == "new" and not init[2]
                               and isinstance(term, tuple) and term[0] == "okval" and isinstance(term[1], tuple) and term[1][1] == P + term_fn and term[1][2] == (v,))
        ab = ctx.body(P + arr_fn)
        el = T("param", 1, ab.dbg.get(1, ""))
        ok_one = False
        for p in mir.walk_function(ab):
            if p.outcome[0] != "return" or not (isinstance(p.outcome[1], tuple) and p.outcome[1][0] == "agg" and p.outcome[1][2] == "Ok"):
                continue
            st = p.outcome[1][3][0]
            if isinstance(st, tuple) and st[0] == "agg" and st[1] == ctor:
                f = dict(zip(st[4], st[3]))
                term = f.get("terminal")
                init = f.get("initial")
                last = T("index", el, T("binop", "Sub", T("len", el), T("const", T("int", 1, "usize"))))
                t_ok = isinstance(term, tuple) and term[0] == "okval" and isinstance(term[1], tuple) and term[1][1] == P + term_fn and mir.strip(term[1][2][0]) == last
                i_ok = isinstance(init, tuple) and init[0] == "okval" and isinstance(init[1], tuple) and init[1][1] == P + "parse_to_initial" and \
                    isinstance(init[1][2][0], tuple) and init[1][2][0][0] == "index" and init[1][2][0][1] == el
                if t_ok and i_ok:
                    rng = init[1][2][0][2]
                    ops = dict(zip(rng[4], rng[3])) if isinstance(rng, tuple) and rng[0] == "agg" else {}
                    ok_one = const_int(ops.get("start")) == 0 and ops.get("end") == T("binop", "Sub", T("len", el), T("const", T("int", 1, "usize")))
        ck.ob("C13-R1", P + fn, "bare-value=={initial:[],terminal:T(value)};array=={initial:parse(elems[0..len-1]),terminal:T(elems[len-1])}", ok_bare and ok_arr and ok_one,
              detail="bare %s, dispatch %s, array %s" % (ok_bare, ok_arr, ok_one))
    # the list parsers return the empty list for an empty slice (so a one-element array has initial == [])
    for fn in ("parse_to_initial", "parse_from_modifiers"):
        b = ctx.body("layout_parsing_formatting::" + fn)
        ok = False
        if len(b.loops()) == 1:
            il = ktloops.index_loop(b, list(b.loops())[0], full=True)
            exh = [p for p in il.exh_paths if p.outcome[0] == "return"]
            ok = il.kind == "for-elements" and bool(exh) and all(
                isinstance(p.outcome[1], tuple) and p.outcome[1][0] == "agg" and p.outcome[1][2] == "Ok" and isinstance(p.outcome[1][3][0], tuple)
                and p.outcome[1][3][0][0] == "call" and method_name(p.outcome[1][3][0][1]) == "new" for p in exh)
            pre = [e for e in mir.walk_function(b)[0].events if e.kind == "call" and method_name(e.a) == "push"]
            ok = ok and not [e for e in pre if e.blk not in b.loops()[list(b.loops())[0]]]
        if not b.loops():
            # xs.iter().map(parse_elem).collect::<Result<Vec<_>, _>>(): nothing to map gives Ok(vec![])
            rs = [p for p in mir.walk_function(b) if p.outcome[0] == "return"]
            if len(rs) == 1 and not [e for e in rs[0].events if e.kind in ("guard", "store")]:
                r = rs[0].outcome[1]
                ok = (isinstance(r, tuple) and r[0] == "call" and method_name(r[1]) == "collect" and isinstance(r[2][0], tuple) and r[2][0][0] == "call" and method_name(r[2][0][1]) == "map"
                      and r[2][0][2][0] == T("iter", T("param", 1, b.dbg.get(1, "")), "fwd") and b.ltypes.get(0, "").startswith("std::result::Result<std::vec::Vec<"))
        ck.ob("C13-R1", "layout_parsing_formatting::" + fn, "empty-slice->empty-list", ok)
    # every list of the shorthand is read element by element, in order, each element exactly once (alias definitions
    # with extra output keys included)
    from .c15 import _in_order_list_parser
    LPF_ = "layout_parsing_formatting::"
    for fn_, eps_ in ((LPF_ + "parse_from_modifiers", {LPF_ + "parse_from_modifier"}), (LPF_ + "parse_to_initial", {LPF_ + "parse_to_initial_elem"}),
                      (LPF_ + "parse_alias_to_initial", {LPF_ + "parse_key_code_j"})):
        if not ctx.has_body(fn_):
            continue
        ok_, why_ = _in_order_list_parser(ctx, fn_, eps_)
        ck.ob("C13-R1", fn_, "list-parsed-in-order,element-by-element", ok_, detail=why_)
    pf = ctx.body("layout_parsing_formatting::parse_from")
    v = T("param", 1, pf.dbg.get(1, ""))
    bare_ok = arr_ok = False
    for p in mir.walk_function(pf):
        if p.outcome[0] != "return" or not (isinstance(p.outcome[1], tuple) and p.outcome[1][0] == "agg" and p.outcome[1][2] == "Ok"):
            continue
        arr = [val for a, val in p.guards() if a == T("variantof", v)]
        keycalls = [e for e in p.events if e.kind == "call" and e.a == "layout_parsing_formatting::parse_from_key"]
        modcalls = [e for e in p.events if e.kind == "call" and e.a == "layout_parsing_formatting::parse_from_modifiers"]
        st = p.outcome[1][3][0]
        inner = st[3][0] if isinstance(st, tuple) and st[0] == "agg" else None
        f = dict(zip(inner[4], inner[3])) if isinstance(inner, tuple) and inner[0] == "agg" else {}
        if arr == ["Array"]:
            el = T("field", T("variant", v, "Array"), "0")
            last = T("index", el, T("binop", "Sub", T("len", el), T("const", T("int", 1, "usize"))))
            arr_ok = len(keycalls) == 1 and mir.strip(keycalls[0].b[0]) == last and len(modcalls) == 1 and isinstance(f.get("modifiers"), tuple) and f["modifiers"][0] == "okval"
        else:
            m_ = f.get("modifiers")
            fresh = not modcalls and isinstance(m_, tuple) and m_[0] == "call" and method_name(m_[1]) == "new"
            # ... or the list parser applied to the empty slice `&[]` (it answers Ok([]): obligation empty-slice->empty-list above)
            via_parser = (len(modcalls) == 1 and mir.strip(modcalls[0].b[0]) == T("array", ()) and isinstance(m_, tuple) and m_[0] == "okval" and m_[1] == modcalls[0].c)
            bare_ok = len(keycalls) == 1 and keycalls[0].b[0] == v and (fresh or via_parser)
    ck.ob("C13-R1", pf.path, "bare-key=={modifiers:[],key:K(value)};array=={modifiers:parse(elems[0..len-1]),key:K(elems[len-1])}", bare_ok and arr_ok, detail="bare %s array %s" % (bare_ok, arr_ok))
    pa = ctx.hir("layout_parsing_formatting::parse_absorbing")
    pm = [c for c in hirq.calls(pa["body"], path="layout_parsing_formatting::parse_modifier")]
    ck.ob("C13-R1", "layout_parsing_formatting::parse_absorbing", "bare-string-and-array-elements-both-go-through-parse_modifier", len(pm) == 2, detail="%d call sites" % len(pm))
    # ---------------- structural clauses of the expansion pipeline
    from . import c13s
    c13s.run(ctx, ck)
    from . import c15
    c15.loader_chain_rule(ctx, ck, "C13-S12")
    ck.explanation = ("CHAR_ACCESS_MAP: %d inserts compared with the 94-character oracle; rows %s; row names %s; convert_row_to classes %s."
                      % (n_ins, {str(k): v for k, v in rowmap.items()}, disp, sorted(classes)))


def _is_err(ret):
    """Err(..) built here, or handed on by `?` from an Err built here (`.ok_or_else(|| ..)?`)"""
    if isinstance(ret, tuple) and ret and ret[0] == "from_residual" and isinstance(ret[1], tuple) and ret[1] and ret[1][0] == "residual":
        ret = ret[1][1]
    return isinstance(ret, tuple) and len(ret) > 2 and ret[0] == "agg" and ret[2] == "Err"


def _is_ok_none(ret):
    return isinstance(ret, tuple) and ret[0] == "agg" and ret[2] == "Ok" and isinstance(ret[3][0], tuple) and ret[3][0][0] == "agg" and ret[3][0][2] == "None"
