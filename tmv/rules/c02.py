"""C02 — every key held on the output is justified by what is held on the input."""
from .. import mir, kt, ktx, ktloops, tables
from ..kt import MOD, list_of, HELD
from ..mir import T, show, method_name

LEVEL = "other"
META = {
    "technique": "call-cone queries (no Pressed constructible from a release), closure decision tables of the trigger-consumption sweep, may-add-to-pass_through effect summaries between sweep and registration (atomicity), decision table of remove_mapping against its specification, existential-scan idiom checks",
    "level_text": ("s1 is I1∧I2∧I3∧C19 (rules of C01/C19, re-run here). s3 exact: no function reachable from a physical release "
                   "constructs a Pressed event, and release_all steps only Released events. s2: the only press of the pressed key "
                   "itself is the pass-through press, dominated by the false hit flag, which every path that fires a mapping sets. "
                   "s4: the consumption sweep's closure table removes every pass-through key in from∪to (release if not in to, "
                   "move if in to); between that sweep and the registration of the mapping nothing that can add to "
                   "pass_through is reachable; remove_mapping's table equals its specification (keep iff another mapping outputs "
                   "the key; hand over iff held, not the released key and not a trigger of another mapping; release otherwise)."),
    "level_note": "Trusted: rustc MIR, tmfacts, walker; residual risk is the paper induction for s1 (as C01).",
}

# --- additions to the level description (rules added after the first version)
META['level_text'] += " The reach of remove_mapping's two scans is decided per role: index i is skipped while the mapping being removed is still listed, everything is scanned once it has been taken out; iterator any()/slice forms are read as scans; the still-used scan must never count the removed mapping and the still-shadowed scan must see every remaining one. s2 also needs input_pressed_keys to forget every released key on every path (C01-R2, re-run)."
# --- end additions

ANM = MOD + "add_new_mapping"


def may_add_pt(ctx, K):
    """functions that can (transitively) insert into pass_through_keys"""
    direct = set()
    for b in K.fn_bodies:
        for fx in K.path_fx(b):
            for e in fx.effects:
                if e.kind == "ADD" and e.lst == "PT":
                    direct.add(b.path)
                if e.kind == "RETAIN" and e.sub:
                    for sub, v in e.sub:
                        for e2 in sub.effects:
                            if e2.kind == "ADD" and e2.lst == "PT":
                                direct.add(b.path)
    out = set(direct)
    changed = True
    cg = ctx.callgraph()
    while changed:
        changed = False
        for p, cs in cg.items():
            if p.startswith(MOD) and p not in out and any(c in out for c in cs):
                out.add(p)
                out.add(p.split("::{closure")[0])
                changed = True
    return direct, out


def run(ctx):
    ck = ctx.check
    K = kt.KT(ctx)
    A = ktx.Analysis(ctx, K)
    ck.rule_text = "one obligation per function in the release cone, per closure-table row of the consumption sweep, per call between sweep and registration, per row of remove_mapping's table"
    ck.trusted_base = ["rustc front end + MIR builder", "tmfacts exporter", "tmv path walker", "C01/C19 rules"]

    # ---------------- s3 / R1: a physical release never causes a virtual press
    rel = kt.may_press(ctx, [MOD + "newly_release"])
    cone = sorted(x for x in ctx.cone([MOD + "newly_release"]) if x.startswith(MOD))
    ck.analysed["release_cone"] = [x[len(MOD):] for x in cone]
    ck.ob("C02-R1", MOD + "newly_release", "release-cone-constructs-no-Pressed", not rel, detail="cone %s; Pressed in %s" % ([x[len(MOD):] for x in cone], sorted(rel)))
    pos = kt.may_press(ctx, [MOD + "newly_press"])
    ck.ob("C02-R1", MOD + "newly_press", "positive-control:press-cone-constructs-Pressed", len(pos) >= 2, detail=str(sorted(pos)))
    st = ctx.body(MOD + "Mapper::step")
    for p in mir.walk_function(st):
        ev = [v for a, v in p.guards() if isinstance(a, tuple) and a[0] == "variantof" and a[1] == T("param", 2, st.dbg.get(2, ""))]
        calls = [e.a for e in p.events if e.kind == "call" and e.a.startswith(MOD)]
        if ev == ["Released"]:
            ck.ob("C02-R1", st.path, "Released-arm-calls-only-newly_release", set(calls) <= {MOD + "newly_release"}, detail=str(calls))
    ra = ctx.body(MOD + "Mapper::release_all")
    steps = 0
    segs = list(K.segments(ra))
    for cp in sorted(ctx.F.bodies):
        if cp.startswith(ra.path + "::{closure"):
            segs += list(K.segments(ctx.body(cp)))     # release_all written as an iterator expression steps inside a closure
    for tag, paths in segs:
        for p in paths:
            for e in p.events:
                if e.kind == "call" and e.a == MOD + "Mapper::step":
                    steps += 1
                    arg = e.b[1]
                    ck.ob("C02-R1", ra.path, "release_all-steps-only-Released-events", kt.is_event_agg(arg) and arg[2] == "Released", detail=show(arg)[:60])
    ck.floor("C02-R1", "release_all-step-calls", steps, 1)

    # ---------------- s2 / R2, R5: the pressed key itself appears only through the guarded pass-through press
    np_ = ctx.body(MOD + "newly_press")
    k = T("param", 2, np_.dbg.get(2, ""))
    own = [tx for tx in A.txs if tx.kind == "PRESS" and tx.fn == np_.path]
    ck.ob("C02-R2", np_.path, "one-pass-through-press-site", len({tx.site() for tx in own}) == 1 and all(tx.lists == ["PT"] and tx.key == k for tx in own))
    for tx in own:
        fx = tx.fx
        e = tx.effs[0]
        # no mapping was fired on this path, and the scan of active mappings (from or to contains k) found nothing
        fired = [ev for ev in fx.path.events[:e.pos] if ev.kind == "call" and ev.a == ANM]
        ck.ob("C02-R2", np_.path, "pass-through-press-only-when-no-mapping-fired", not fired, site=tx.site())
        scans = []
        for pe in fx.path.events[:e.pos]:
            if pe.kind == "loopexit":
                ex = np_.exhaustion_exit(pe.a)
                el = tables.exists_loop(np_, pe.a)
                if ex is not None and ex[1] == pe.b and not el.problems and isinstance(el.iter_term, tuple) and el.iter_term[0] == "iter" and list_of(el.iter_term[1]) == "AM":
                    conds = set()
                    for gs in el.set_paths:
                        for a, v in gs:
                            if v is True and isinstance(a, tuple) and a[0] == "in" and a[1] == k and isinstance(a[2], tuple) and a[2][0] == "field":
                                conds.add(a[2][2])
                    scans.append(conds)
        for a, v in fx.guards_before(e):
            if v is False and isinstance(a, tuple) and a and a[0] == "call" and method_name(a[1]) == "any":
                el = tables.any_scan(ctx.body, a)
                if not el.problems and isinstance(el.iter_term, tuple) and el.iter_term[0] == "iter" and list_of(el.iter_term[1]) == "AM":
                    conds = set()
                    for gs in el.set_paths:
                        for aa, vv in gs:
                            if vv is True and isinstance(aa, tuple) and aa[0] == "in" and aa[1] == k and isinstance(aa[2], tuple) and aa[2][0] == "field":
                                conds.add(aa[2][2])
                    scans.append(conds)
        ck.ob("C02-R5", np_.path, "pass-through-press-only-when-no-active-mapping-mentions-the-key", {"from", "to"} in scans or any(s >= {"from", "to"} for s in scans),
              site=tx.site(), detail="scans of active_mappings left by exhaustion: %s" % scans)
    # the flag is set on every path that fires a mapping: the call and the pass-through press never share a path
    both = 0
    for fx in K.path_fx(np_):
        if fx.tag != "fn":
            continue
        fired = [e for e in fx.path.events if e.kind == "call" and e.a == ANM]
        pressed = [e for e in fx.effects if e.kind == "EMIT" and e.aux == "Pressed" and e.key == k]
        if fired and pressed:
            both += 1
    ck.ob("C02-R2", np_.path, "firing-a-mapping-excludes-the-pass-through-press", both == 0)
    # other ways into PT: only MOVE from MO
    others = {(tx.fn, tx.kind) for tx in A.txs if tx.lists and tx.lists[-1] == "PT" and tx.kind in ("MOVE", "REPRESS+MOVE")}
    ck.ob("C02-R2", "-", "other-pass_through-insertions-are-moves-from-mapped_output", others == {(MOD + "remove_mapping", "MOVE")}, detail=str(sorted(others)))

    # ---------------- s4 / R3: consumption sweep table
    anm = ctx.body(ANM)
    m = T("param", 3, anm.dbg.get(3, ""))
    sweeps = []
    for fx in K.path_fx(anm):
        if fx.tag != "fn" or fx.path.outcome[0] != "return":
            continue
        rs = [e for e in fx.effects if e.kind == "RETAIN" and e.lst == "PT" and e.sub and len(e.sub) > 1]
        regs = [e for e in fx.effects if e.kind == "ADD" and e.lst == "AM"]
        if len(rs) != 1 or len(regs) != 1:
            ck.ob("C02-R3", ANM, "one-consumption-sweep-and-one-registration-per-path", False, detail="%d sweeps, %d registrations" % (len(rs), len(regs)))
            continue
        sweeps.append((fx, rs[0], regs[0]))
    ck.ob("C02-R3", ANM, "paths-analysed", len(sweeps) >= 3, detail="%d return paths" % len(sweeps))
    seen_tables = set()
    for fx, r, reg in sweeps:
        rows = {}
        ok = True
        for sub, verdict in r.sub:
            val = {}
            for a, v in sub.all_guards():
                if isinstance(a, tuple) and a[0] == "in" and isinstance(a[1], tuple) and a[1][0] == "retelem" and isinstance(a[2], tuple) and a[2][0] == "field" and a[2][1] == m:
                    val[a[2][2]] = v
                else:
                    ok = False
            em = [e for e in sub.effects if e.kind == "EMIT"]
            ad = [e for e in sub.effects if e.kind == "ADD"]
            if verdict == "keep" and not sub.effects:
                oc = "stay"
            elif verdict == "remove" and len(em) == 1 and not ad and em[0].aux == "Released":
                oc = "release"
            elif verdict == "remove" and len(ad) == 1 and not em and ad[0].lst == "MO":
                oc = "move"
            else:
                oc = "?"
            infrom, into = val.get("from"), val.get("to")
            # specification on the partial valuation
            if into is True:
                want = "move"
            elif into is False and infrom is True:
                want = "release"
            elif into is False and infrom is False:
                want = "stay"
            else:
                want = None
            rows[(infrom, into)] = (oc, want)
            if want is None or oc != want:
                ok = False
        key = tuple(sorted((str(k2), v) for k2, v in rows.items()))
        if key in seen_tables:
            continue
        seen_tables.add(key)
        ck.ob("C02-R3", ANM, "consumption-sweep:key-in-from∪to-leaves-pass_through(release-if-not-in-to,move-if-in-to),else-stays", ok, site=r.ev.span,
              detail=str({str(k2): v for k2, v in rows.items()}))
        # ---------------- R4 atomicity: nothing that may add to PT between the sweep and the registration
    direct, mayadd = may_add_pt(ctx, K)
    ck.analysed["may_add_to_pass_through"] = sorted(x[len(MOD):] for x in mayadd)
    for fx, r, reg in sweeps:
        between = [e for e in fx.effects if r.pos < e.pos < reg.pos]
        bad = [e for e in between if (e.kind == "CALL" and e.key in mayadd) or (e.kind == "ADD" and e.lst == "PT")]
        # loops between the sweep and the registration: their bodies must not add either
        for pe in fx.path.events[r.pos:reg.pos]:
            if pe.kind == "loop":
                for q in mir.walk_loop_only(anm, pe.a):
                    for e2 in K._one(anm, q, "x", None).effects:
                        if (e2.kind == "CALL" and e2.key in mayadd) or (e2.kind == "ADD" and e2.lst == "PT"):
                            bad.append(e2)
        ck.ob("C02-R4", ANM, "consume-then-register:nothing-can-add-to-pass_through-between-sweep-and-registration", not bad, site=r.ev.span,
              detail=None if not bad else ("after the trigger keys were swept out of pass_through_keys and before the mapping is pushed onto active_mappings the "
                                           "path calls %s, which can hand a key back to pass_through_keys" % (bad[0].key if bad[0].kind == "CALL" else "push")))
        ck.ob("C02-R4", ANM, "sweep-precedes-registration", r.pos < reg.pos)

    # ---------------- T1 remove_mapping's table
    R = ktloops.remove_mapping_analysis(ctx, K)
    pr = R.all_problems()
    ck.ob("C02-T1", MOD + "remove_mapping", "sweep-and-scan-shapes", not pr, detail="; ".join(pr)[:300] or None)
    ck.ob("C02-T1", MOD + "remove_mapping", "both-scans-present", set(R.flags) == {"used", "shadowed"}, detail=str(sorted(R.flags)))
    # `other mappings` = all active mappings but the one being removed: skip index i while it is still listed, or scan
    # everything once it has been taken out. A still-used scan that counts the removed mapping keeps an unjustified key
    # down; a still-shadowed scan that misses a remaining mapping hands a consumed trigger key back to pass-through.
    ck.ob("C02-T1", MOD + "remove_mapping", "still-used-scan-never-counts-the-mapping-being-removed", R.covers("used") in ("exact", "subset"),
          detail="removal %s the sweep, scan %s" % (R.am_removal, R.scan_text("used")))
    ck.ob("C02-T1", MOD + "remove_mapping", "still-shadowed-scan-sees-every-remaining-mapping", R.covers("shadowed") in ("exact", "superset"),
          detail="removal %s the sweep, scan %s (after the removal index i names a different, remaining mapping)" % (R.am_removal, R.scan_text("shadowed")))
    outcomes = set()
    for val, outcome, site in R.rows:
        want = ktloops.remove_mapping_spec(val)
        outcomes.add(outcome)
        ck.ob("C02-T1", MOD + "remove_mapping", "row:%s" % ",".join("%s=%s" % (k2, "T" if v else "F") for k2, v in sorted(val.items())) or "row:-",
              want is not None and want == outcome, site=site, detail="code: %s, specification: %s" % (outcome, want))
    ck.ob("C02-T1", MOD + "remove_mapping", "all-three-outcomes-present", outcomes == {"keep", "handover", "release"}, detail=str(sorted(outcomes)))

    # ---------------- s1: the invariant rules (C01) and the discipline (C19) hold on this tree
    bad = [t for t in A.txs if not t.guard_ok] + list(A.problems)
    ck.ob("C02-s1", "-", "transaction-discipline(C19)-holds", not bad, detail=None if not bad else str(bad[0])[:200])
    # ---------------- s2: input_pressed_keys never lists a key that is physically up (the hand-over test and
    # is_supported both read it): every acted-on release forgets its key on every path (C01-R2)
    from .. import premises
    if not getattr(ctx, "no_premises", False):
        stale = [k for k in premises.own_violations(ctx, "C01") if "/C01-R2/" in k]
        ck.ob("C02-s2", "-", "input_pressed_keys-forgets-every-released-key(C01-R2)", not stale, detail=None if not stale else stale[0][:200])
    ck.explanation = ("release cone %s; consumption sweep tables %d; may-add-to-pass_through %s; remove_mapping rows %d."
                      % ([x[len(MOD):] for x in cone], len(seen_tables), sorted(x[len(MOD):] for x in mayadd), len(R.rows)))
