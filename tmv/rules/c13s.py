"""C13 — structural clauses of the shorthand converter (second half of the C13 rule set).

These rules decide the *shape* of the expansion pipeline on MIR paths: which vectors are filled from what, in which
order, once per what.  They do not execute the converter; the odometer MultiplyIter is not decided.
"""
from .. import mir, ktloops
from ..mir import T, show, method_name, const_int, Walker, subterms

FLI = "fancy_layout_interpreting::"
AC = FLI + "AliasCombination::<'s, 't>::"


def _calls(p, name=None, method=None):
    out = []
    for i, e in enumerate(p.events):
        if e.kind == "call" and (name is None or e.a == name) and (method is None or method_name(e.a) == method):
            out.append((i, e))
    return out


def _variant_guard(p, subject_pred):
    for e in p.events:
        if e.kind == "guard" and isinstance(e.a, tuple) and e.a[0] == "variantof" and subject_pred(e.a[1]):
            return e.b
    return None


def _data_guards(p):
    return [(e.a, e.b) for e in p.events if e.kind == "guard" and not (isinstance(e.a, tuple) and e.a[0] == "variantof" and isinstance(e.a[1], tuple) and e.a[1][0] == "next")]


def alias_keys_term(afm, tup, idx):
    """self.it.alias_found_mappings[idx][self.tuple[idx]].from.keys"""
    return T("field", T("field", T("index", T("index", afm, idx), T("index", tup, idx)), "from"), "keys")


def run(ctx, ck):
    s1_build_combinations(ctx, ck)
    s2_from_modifiers(ctx, ck)
    s3_reify_modifiers(ctx, ck)
    s4_translate(ctx, ck)
    s5_convert(ctx, ck)
    s6_convert_single(ctx, ck)
    s7_alias_tables(ctx, ck)


# ---------------------------------------------------------------------------------------------
def s1_build_combinations(ctx, ck):
    fn = FLI + "build_combinations"
    b = ctx.body(fn)
    amaps, mods = T("param", 1, b.dbg.get(1, "")), T("param", 2, b.dbg.get(2, ""))
    oks = [p for p in mir.walk_function(b) if p.outcome[0] == "return" and isinstance(p.outcome[1], tuple) and p.outcome[1][0] == "agg" and p.outcome[1][2] == "Ok"]
    if len(oks) != 1:
        ck.unrecognised("C13-S1", fn, "single-Ok-return-path")
        return
    st = oks[0].outcome[1][3][0]
    f = dict(zip(st[4], st[3])) if isinstance(st, tuple) and st[0] == "agg" else {}
    aq, afm, amap = mir.strip(f.get("alias_quantities")), mir.strip(f.get("alias_found_mappings")), mir.strip(f.get("alias_map"))
    ck.ob("C13-S1", fn, "returns-the-modifier-list-it-was-given", f.get("modifiers") == mods)
    loops = sorted(b.loops())
    if len(loops) != 1:
        ck.unrecognised("C13-S1", fn, "single-loop")
        return
    il = ktloops.index_loop(b, loops[0])
    ck.ob("C13-S1", fn, "visits-every-modifier-in-order", il.kind in ("for-range", "for-elements") and il.list_term == mods and il.complete and il.direction == "fwd")
    m = T("index", mods, il.index) if il.kind == "for-range" else il.elem
    seen = set()
    for p in il.cont_paths:
        var = _variant_guard(p, lambda t: mir.strip(t) == m)
        pushes = _calls(p, method="push")
        inserts = [(i, e) for i, e in _calls(p, method="insert") if "HashMap" in e.a]
        if var == "Alias":
            seen.add("Alias")
            alias = T("field", T("variant", m, "Alias"), "0")
            look = [e for i, e in _calls(p, method="get") if "HashMap" in e.a and e.b[0] == amaps and mir.strip(e.b[1]) == alias]
            pq = [(i, e) for i, e in pushes if mir.strip(e.b[0]) == aq]
            pf = [(i, e) for i, e in pushes if mir.strip(e.b[0]) == afm]
            ins = [(i, e) for i, e in inserts if mir.strip(e.b[0]) == amap]
            ok = len(look) == 1 and len(pq) == 1 and len(pf) == 1 and len(ins) == 1 and len(pushes) == 2
            ck.ob("C13-S1", fn, "alias-modifier:one-entry-in-each-of-the-three-tables", ok, detail="lookups %d, quantity pushes %d, definition pushes %d, map inserts %d" % (len(look), len(pq), len(pf), len(ins)))
            if not ok:
                continue
            found = pf[0][1].b[1]
            qty = pq[0][1].b[1]
            ck.ob("C13-S1", fn, "alias-modifier:quantity==number-of-definitions-found", qty == T("len", found) and mentions_get(found, look[0]))
            # the index stored for the alias is its ordinal: len(alias_quantities) read BEFORE this iteration's push
            idx = ins[0][1].b[2]
            lens = [i for i, e in _calls(p, method="len") if mir.strip(e.b[0]) == aq]
            ok_idx = idx == T("len", aq) and bool(lens) and lens[-1] < pq[0][0] and lens[-1] < pf[0][0]
            ck.ob("C13-S1", fn, "alias-modifier:alias_map-stores-the-alias's-ordinal(index-into-the-other-two-tables)", ok_idx,
                  detail=None if ok_idx else "alias_map value is %s; alias_found_mappings/alias_quantities are indexed by the number of aliases pushed so far" % show(idx)[:80])
            ck.ob("C13-S1", fn, "alias-modifier:keyed-by-the-alias-name", mir.strip(ins[0][1].b[1]) == alias or ins[0][1].b[1] == T("clone", alias))
        else:
            seen.add("Key")
            ck.ob("C13-S1", fn, "plain-key-modifier:tables-untouched", not pushes and not inserts)
    ck.ob("C13-S1", fn, "both-modifier-kinds-handled", seen == {"Alias", "Key"}, detail=str(sorted(seen)))


def mentions_get(found, look_ev):
    return mir.mentions(found, look_ev.c) or any(isinstance(s, tuple) and s and s[0] == "call" and method_name(s[1]) == "get" for s in subterms(found))


# ---------------------------------------------------------------------------------------------
def s2_from_modifiers(ctx, ck):
    fn = AC + "from_modifiers"
    b = ctx.body(fn)
    me = T("param", 1, b.dbg.get(1, ""))
    it = T("field", me, "it")
    mods = T("field", it, "modifiers")
    afm, tup = T("field", it, "alias_found_mappings"), T("field", me, "tuple")
    loops = sorted(b.loops())
    if len(loops) != 1:
        ck.unrecognised("C13-S2", fn, "single-loop")
        return
    il = ktloops.index_loop(b, loops[0], full=True)
    ck.ob("C13-S2", fn, "visits-every-trigger-modifier-in-order", il.kind == "for-range" and il.list_term == mods and il.complete and il.index[1][2] == "fwd" and not il.break_paths)
    m = T("index", mods, il.index)
    # j starts at 0
    pre = mir.walk_function(b)[0].events
    j_sets = [e for e in pre if e.kind == "set" and const_int(e.b) == 0]
    seen = set()
    acc = None
    for p in il.cont_paths:
        var = _variant_guard(p, lambda t: mir.strip(t) == m)
        exts = _calls(p, method="extend")
        pushes = _calls(p, method="push")
        jsets = [e for e in p.events if e.kind == "set" and isinstance(e.b, tuple) and e.b[0] == "binop" and e.b[1] == "Add" and const_int(e.b[3]) == 1]
        if var == "Alias":
            seen.add("Alias")
            ok = len(exts) == 1 and not pushes and len(jsets) == 1
            if ok:
                j = jsets[0].b[2]
                ok = exts[0][1].b[1] == alias_keys_term(afm, tup, j) and any(js.a == j[2] for js in j_sets)
                acc = mir.strip(exts[0][1].b[0])
            ck.ob("C13-S2", fn, "alias-modifier:appends-the-chosen-definition's-keys(found[j][tuple[j]])-and-advances-j", ok)
        elif var == "Key":
            seen.add("Key")
            k = T("field", T("variant", m, "Key"), "0")
            ok = len(pushes) == 1 and not exts and not jsets and mir.strip(pushes[0][1].b[1]) == k
            ck.ob("C13-S2", fn, "plain-key-modifier:appends-the-key-itself", ok)
    ck.ob("C13-S2", fn, "both-modifier-kinds-handled", seen == {"Alias", "Key"})
    rets = [p for p in il.exh_paths if p.outcome[0] == "return"]
    ck.ob("C13-S2", fn, "returns-the-accumulated-keys", bool(rets) and acc is not None and all(mir.strip(p.outcome[1]) == acc for p in rets))


# ---------------------------------------------------------------------------------------------
def s3_reify_modifiers(ctx, ck):
    fn = AC + "reify_modifiers"
    b = ctx.body(fn)
    me, mods = T("param", 1, b.dbg.get(1, "")), T("param", 2, b.dbg.get(2, ""))
    it = T("field", me, "it")
    afm, tup, amap = T("field", it, "alias_found_mappings"), T("field", me, "tuple"), T("field", it, "alias_map")
    loops = sorted(b.loops())
    if len(loops) != 1:
        ck.unrecognised("C13-S3", fn, "single-loop")
        return
    il = ktloops.index_loop(b, loops[0], full=True)
    ck.ob("C13-S3", fn, "visits-every-listed-modifier-in-order", il.kind == "for-elements" and il.list_term == mods and bool(il.exh_paths) and il.elem[1][2] == "fwd")
    m = il.elem
    seen = set()
    acc = None
    for p in il.cont_paths:
        var = _variant_guard(p, lambda t: mir.strip(t) == m)
        exts = _calls(p, method="extend")
        pushes = _calls(p, method="push")
        if var == "Key":
            seen.add("Key")
            ok = len(pushes) == 1 and not exts and mir.strip(pushes[0][1].b[1]) == T("field", T("variant", m, "Key"), "0")
            ck.ob("C13-S3", fn, "plain-key->the-key-itself", ok)
            if pushes:
                acc = mir.strip(pushes[0][1].b[0])
        elif var == "Alias":
            seen.add("Alias")
            alias = T("field", T("variant", m, "Alias"), "0")
            gets = [e for i, e in _calls(p, method="get") if "HashMap" in e.a]
            ok = len(gets) == 1 and gets[0].b[0] == amap and mir.strip(gets[0].b[1]) == alias and len(exts) == 1 and not pushes
            if ok:
                i_t = T("field", T("variant", gets[0].c, "Some"), "0")
                ok = exts[0][1].b[1] == alias_keys_term(afm, tup, i_t)
            ck.ob("C13-S3", fn, "alias->keys-of-the-definition-chosen-on-the-trigger-side(found[i][tuple[i]],i=alias_map[alias])", ok)
    for p in il.break_paths:
        if p.outcome[0] == "return":
            r = p.outcome[1]
            var = _variant_guard(p, lambda t: mir.strip(t) == m)
            ck.ob("C13-S3", fn, "alias-not-on-the-trigger-side->error", var == "Alias" and isinstance(r, tuple) and r[0] == "agg" and r[2] == "Err")
    ck.ob("C13-S3", fn, "both-modifier-kinds-handled", seen == {"Alias", "Key"})
    rets = [p for p in il.exh_paths if p.outcome[0] == "return"]
    ok = bool(rets) and all(isinstance(p.outcome[1], tuple) and p.outcome[1][0] == "agg" and p.outcome[1][2] == "Ok" and (acc is None or mir.strip(p.outcome[1][3][0]) == acc) for p in rets)
    ck.ob("C13-S3", fn, "returns-the-accumulated-keys", ok)


# ---------------------------------------------------------------------------------------------
def s4_translate(ctx, ck):
    fn = AC + "translate_single_to_keys"
    b = ctx.body(fn)
    me, to = T("param", 1, b.dbg.get(1, "")), T("param", 2, b.dbg.get(2, ""))
    seen = set()
    for p in mir.walk_function(b):
        if p.outcome[0] != "return":
            continue
        var = _variant_guard(p, lambda t: mir.strip(t) == T("field", to, "terminal"))
        r = p.outcome[1]
        if r[0] == "from_residual":
            continue
        if var == "Physical":
            seen.add(var)
            re_ = [e for i, e in _calls(p, name=AC + "reify_modifiers")]
            pushes = _calls(p, method="push")
            ok = (len(re_) == 1 and re_[0].b == (me, T("field", to, "initial")) and len(pushes) == 1
                  and mir.strip(pushes[0][1].b[0]) == T("okval", re_[0].c) and mir.strip(pushes[0][1].b[1]) == T("field", T("variant", T("field", to, "terminal"), "Physical"), "0")
                  and isinstance(r, tuple) and r[0] == "agg" and r[2] == "Ok" and mir.strip(r[3][0]) == T("okval", re_[0].c))
            ck.ob("C13-S4", fn, "physical-terminal->reified-initial-modifiers++[terminal]", ok)
        elif var == "Null":
            seen.add(var)
            ok = isinstance(r, tuple) and r[0] == "agg" and r[2] == "Ok" and isinstance(r[3][0], tuple) and r[3][0][0] == "call" and method_name(r[3][0][1]) == "new" and not _calls(p, method="push")
            ck.ob("C13-S4", fn, "null-terminal->empty-output", ok)
    ck.ob("C13-S4", fn, "both-terminal-kinds", seen == {"Physical", "Null"}, detail=str(sorted(seen)))


# ---------------------------------------------------------------------------------------------
def _err_exit(p):
    if p.outcome[0] != "return":
        return False
    r = p.outcome[1]
    return isinstance(r, tuple) and bool(r) and (r[0] == "from_residual" or (r[0] == "agg" and len(r) > 2 and r[2] == "Err"))


def s5_convert(ctx, ck):
    fn = FLI + "convert"
    b = ctx.body(fn)
    f = T("param", 1, b.dbg.get(1, ""))
    oks = [p for p in mir.walk_function(b) if p.outcome[0] == "return" and isinstance(p.outcome[1], tuple) and p.outcome[1][0] == "agg" and p.outcome[1][2] == "Ok"]
    if not oks:
        ck.unrecognised("C13-S5", fn, "Ok-path")
        return
    lay = oks[0].outcome[1][3][0]
    res = mir.strip(lay[3][lay[4].index("mappings")])
    order = [e.a for e in oks[0].events if e.kind == "loop"]
    conv_loop = None
    adj_loop = None
    for h in order:
        il = ktloops.index_loop(b, h)
        if il.kind == "for-elements" and il.list_term == T("field", f, "mappings"):
            calls = [e.a for p in il.cont_paths for e in p.events if e.kind == "call" and e.a.startswith(FLI)]
            if FLI + "convert_mapping" in calls:
                conv_loop = (h, il)
            elif FLI + "adjust_repeats" in calls:
                adj_loop = (h, il)
    ck.ob("C13-S5", fn, "source-mappings-converted-in-one-forward-pass,then-repeat-only-entries-applied", conv_loop is not None and adj_loop is not None
          and order.index(conv_loop[0]) < order.index(adj_loop[0]) and conv_loop[1].elem[1][2] == "fwd" and adj_loop[1].elem[1][2] == "fwd"
          and conv_loop[1].complete and adj_loop[1].complete)
    if conv_loop is None:
        return
    h, il = conv_loop
    # inner loop over the produced mappings: every one is pushed onto res, in order, exactly once
    inner = [hh for hh in b.loops() if hh != h and hh in b.loops()[h]]
    ok_inner = False
    for hh in inner:
        il2 = ktloops.index_loop(b, hh)
        if il2.kind != "for-elements":
            continue
        src = il2.list_term
        if not (isinstance(src, tuple) and src[0] == "okval" and isinstance(src[1], tuple) and src[1][1] == FLI + "convert_mapping"):
            continue
        allp = True
        for p in il2.cont_paths:
            pushes = [e for i, e in _calls(p, method="push") if mir.strip(e.b[0]) == res]
            allp = allp and len(pushes) == 1 and mir.strip(pushes[0].b[1]) == il2.elem
            # from_table bookkeeping: index recorded == len(res) read before the push
            idxs = [e for i, e in _calls(p, method="push") if mir.strip(e.b[0]) != res] + [e for i, e in _calls(p, method="insert") if "HashMap" in e.a]
            lens = [i for i, e in _calls(p, method="len") if mir.strip(e.b[0]) == res]
            pr = [i for i, e in _calls(p, method="push") if mir.strip(e.b[0]) == res]
            allp = allp and bool(lens) and bool(pr) and max(lens) < pr[0]
        # (leaving the loop with an error -- `?` -- abandons the whole conversion; only successful conversions matter)
        early = [p for p in il2.break_paths if not _err_exit(p)]
        ok_inner = allp and il2.complete and not early and il2.elem[1][2] == "fwd" and bool(il2.cont_paths)
    ck.ob("C13-S5", fn, "every-produced-mapping-is-appended-once,in-order,and-indexed-by-its-position", ok_inner)


# ---------------------------------------------------------------------------------------------
def s6_convert_single(ctx, ck):
    fn = FLI + "convert_single"
    b = ctx.body(fn)
    amaps, single = T("param", 1, b.dbg.get(1, "")), T("param", 2, b.dbg.get(2, ""))
    loops = sorted(b.loops())
    if len(loops) != 1:
        ck.unrecognised("C13-S6", fn, "single-loop")
        return
    il = ktloops.index_loop(b, loops[0], full=True)
    it = il.elem[1] if il.elem else None
    src_ok = False
    if isinstance(it, tuple) and it[0] == "iter":
        s_ = it[1]
        src_ok = (isinstance(s_, tuple) and s_[0] == "call" and s_[1] == FLI + "iterate_combinations" and isinstance(s_[2][0], tuple) and s_[2][0][0] == "okval"
                  and s_[2][0][1][1] == FLI + "build_combinations" and s_[2][0][1][2] == (amaps, T("field", T("field", single, "from"), "modifiers")))
    ck.ob("C13-S6", fn, "one-iteration-per-combination-of-the-trigger's-alias-definitions", src_ok and bool(il.exh_paths))
    comb = il.elem
    n = 0
    for p in il.cont_paths:
        pushes = _calls(p, method="push")
        maps = [e for i, e in pushes if isinstance(e.b[1], tuple) and len(e.b[1]) > 4 and e.b[1][0] == "agg" and e.b[1][1] == "keys::Mapping"]
        if len(maps) != 1:
            ck.ob("C13-S6", fn, "exactly-one-mapping-per-combination", False, detail="%d" % len(maps))
            continue
        n += 1
        mp = dict(zip(maps[0].b[1][4], maps[0].b[1][3]))
        fm = [e for i, e in _calls(p, name=AC + "from_modifiers")]
        frm = mir.strip(mp["from"])
        keypush = [e for i, e in pushes if mir.strip(e.b[0]) == frm]
        ok_from = (len(fm) == 1 and fm[0].b == (comb,) and frm == mir.strip(fm[0].c) and len(keypush) == 1
                   and mir.strip(keypush[0].b[1]) == T("field", T("field", single, "from"), "key"))
        ck.ob("C13-S6", fn, "from==chosen-alias-keys-and-plain-modifiers++[trigger-key]", ok_from)
        to = mp["to"]
        ok_to = isinstance(to, tuple) and to[0] == "okval" and to[1][1] == AC + "translate_single_to_keys" and to[1][2] == (comb, T("field", single, "to"))
        ck.ob("C13-S6", fn, "to==translation-of-the-mapping's-output-under-the-same-combination", ok_to)
        ab = mp["absorbing"]
        ok_ab = isinstance(ab, tuple) and ab[0] == "okval" and ab[1][1] == AC + "reify_modifiers" and ab[1][2] == (comb, T("field", single, "absorbing"))
        ck.ob("C13-S6", fn, "absorbing==reified-absorbing-list-under-the-same-combination", ok_ab)
        rep = mp["repeat"]
        arm = _variant_guard(p, lambda t: mir.strip(t) == T("field", single, "repeat"))
        if arm == "Special":
            f = dict(zip(rep[4], rep[3])) if isinstance(rep, tuple) and rep[0] == "agg" else {}
            sp = T("variant", T("field", single, "repeat"), "Special")
            k = f.get("keys")
            ok_rep = (rep[2] == "Special" and isinstance(k, tuple) and k[0] == "okval" and k[1][1] == AC + "translate_single_to_keys" and k[1][2] == (comb, T("field", sp, "keys"))
                      and f.get("delay_ms") == T("field", sp, "delay_ms") and f.get("interval_ms") == T("field", sp, "interval_ms"))
        else:
            ok_rep = isinstance(rep, tuple) and rep[0] == "agg" and rep[2] == arm
        ck.ob("C13-S6", fn, "repeat-%s-carried-over(chord-translated-under-the-same-combination)" % arm, ok_rep)
    ck.floor("C13-S6", "combination-paths", n, 3)


# ---------------------------------------------------------------------------------------------
def s7_alias_tables(ctx, ck):
    fn = FLI + "find_alias_mappings"
    b = ctx.body(fn)
    f = T("param", 1, b.dbg.get(1, ""))
    loops = sorted(b.loops())
    if len(loops) != 1:
        ck.unrecognised("C13-S7", fn, "single-loop")
        return
    il = ktloops.index_loop(b, loops[0])
    ck.ob("C13-S7", fn, "alias-definitions-collected-in-one-forward-pass-over-the-layout", il.kind == "for-elements" and il.list_term == T("field", f, "mappings") and il.complete
          and not il.break_paths and il.elem[1][2] == "fwd")
    m = il.elem
    for p in il.cont_paths:
        var = _variant_guard(p, lambda t: mir.strip(t) == m)
        pushes = _calls(p, method="push")
        inserts = [(i, e) for i, e in _calls(p, method="insert") if "HashMap" in e.a]
        if var == "Alias":
            alias = T("field", T("variant", m, "Alias"), "0")
            name = T("field", T("field", alias, "to"), "terminal")
            g = [e for i, e in _calls(p, method="get_mut")]
            if inserts:
                ok = len(inserts) == 1 and not pushes and (mir.strip(inserts[0][1].b[1]) == name or inserts[0][1].b[1] == T("clone", name))
                ck.ob("C13-S7", fn, "first-definition-of-an-alias-opens-its-list(keyed-by-the-alias-name)", ok and len(g) == 1 and mir.strip(g[0].b[1]) == name)
            else:
                ok = len(pushes) == 1 and mir.strip(pushes[0][1].b[1]) == alias and len(g) == 1 and mir.strip(g[0].b[1]) == name
                ck.ob("C13-S7", fn, "later-definitions-are-appended-in-source-order", ok)
        else:
            ck.ob("C13-S7", fn, "other-mappings-do-not-touch-the-alias-table", not pushes and not inserts)
