"""C13 — structural clauses of the shorthand converter (second half of the C13 rule set).

These rules decide the *shape* of the expansion pipeline on MIR paths: which vectors are filled from what, in which
order, once per what.  They do not execute the converter; the odometer MultiplyIter is not decided.
"""
from .. import mir, ktloops
from ..mir import T, show, method_name, const_int, Walker, subterms

FLI = "fancy_layout_interpreting::"
AC = FLI + "AliasCombination::<'s, 't>::"


def _calls(p, name=None, method=None):
    out = []
    for i, e in enumerate(p.events):
        if e.kind == "call" and (name is None or e.a == name) and (method is None or method_name(e.a) == method):
            out.append((i, e))
    return out


def _variant_guard(p, subject_pred):
    for e in p.events:
        if e.kind == "guard" and isinstance(e.a, tuple) and e.a[0] == "variantof" and subject_pred(e.a[1]):
            return e.b
    return None


def _data_guards(p):
    return [(e.a, e.b) for e in p.events if e.kind == "guard" and not (isinstance(e.a, tuple) and e.a[0] == "variantof" and isinstance(e.a[1], tuple) and e.a[1][0] == "next")]


def alias_keys_term(afm, tup, idx):
    """self.it.alias_found_mappings[idx][self.tuple[idx]].from.keys"""
    return T("field", T("field", T("index", T("index", afm, idx), T("index", tup, idx)), "from"), "keys")


def run(ctx, ck):
    s1_build_combinations(ctx, ck)
    s2_from_modifiers(ctx, ck)
    s3_reify_modifiers(ctx, ck)
    s4_translate(ctx, ck)
    s5_convert(ctx, ck)
    s6_convert_single(ctx, ck)
    s7_alias_tables(ctx, ck)
    s8_adjust_repeats(ctx, ck)
    s9_convert_row(ctx, ck)
    s10_combination_iterator(ctx, ck)
    s11_dispatch(ctx, ck)


# ---------------------------------------------------------------------------------------------
def s1_build_combinations(ctx, ck):
    fn = FLI + "build_combinations"
    b = ctx.body(fn)
    amaps, mods = T("param", 1, b.dbg.get(1, "")), T("param", 2, b.dbg.get(2, ""))
    oks = [p for p in mir.walk_function(b) if p.outcome[0] == "return" and isinstance(p.outcome[1], tuple) and p.outcome[1][0] == "agg" and p.outcome[1][2] == "Ok"]
    if len(oks) != 1:
        ck.unrecognised("C13-S1", fn, "single-Ok-return-path")
        return
    st = oks[0].outcome[1][3][0]
    f = dict(zip(st[4], st[3])) if isinstance(st, tuple) and st[0] == "agg" else {}
    aq, afm, amap = mir.strip(f.get("alias_quantities")), mir.strip(f.get("alias_found_mappings")), mir.strip(f.get("alias_map"))
    ck.ob("C13-S1", fn, "returns-the-modifier-list-it-was-given", f.get("modifiers") == mods)
    loops = sorted(b.loops())
    if len(loops) != 1:
        ck.unrecognised("C13-S1", fn, "single-loop")
        return
    il = ktloops.index_loop(b, loops[0])
    ck.ob("C13-S1", fn, "visits-every-modifier-in-order", il.kind in ("for-range", "for-elements") and il.list_term == mods and il.complete and il.direction == "fwd")
    m = T("index", mods, il.index) if il.kind == "for-range" else il.elem
    seen = set()
    for p in il.cont_paths:
        var = _variant_guard(p, lambda t: mir.strip(t) == m)
        pushes = _calls(p, method="push")
        inserts = [(i, e) for i, e in _calls(p, method="insert") if "HashMap" in e.a]
        if var == "Alias":
            seen.add("Alias")
            alias = T("field", T("variant", m, "Alias"), "0")
            look = [e for i, e in _calls(p, method="get") if "HashMap" in e.a and e.b[0] == amaps and mir.strip(e.b[1]) == alias]
            pq = [(i, e) for i, e in pushes if mir.strip(e.b[0]) == aq]
            pf = [(i, e) for i, e in pushes if mir.strip(e.b[0]) == afm]
            ins = [(i, e) for i, e in inserts if mir.strip(e.b[0]) == amap]
            ok = len(look) == 1 and len(pq) == 1 and len(pf) == 1 and len(ins) == 1 and len(pushes) == 2
            ck.ob("C13-S1", fn, "alias-modifier:one-entry-in-each-of-the-three-tables", ok, detail="lookups %d, quantity pushes %d, definition pushes %d, map inserts %d" % (len(look), len(pq), len(pf), len(ins)))
            if not ok:
                continue
            found = pf[0][1].b[1]
            qty = pq[0][1].b[1]
            ck.ob("C13-S1", fn, "alias-modifier:quantity==number-of-definitions-found", qty == T("len", found) and mentions_get(found, look[0]))
            # the index stored for the alias is its ordinal: len(alias_quantities) read BEFORE this iteration's push
            idx = ins[0][1].b[2]
            lens = [i for i, e in _calls(p, method="len") if mir.strip(e.b[0]) == aq]
            ok_idx = idx == T("len", aq) and bool(lens) and lens[-1] < pq[0][0] and lens[-1] < pf[0][0]
            ck.ob("C13-S1", fn, "alias-modifier:alias_map-stores-the-alias's-ordinal(index-into-the-other-two-tables)", ok_idx,
                  detail=None if ok_idx else "alias_map value is %s; alias_found_mappings/alias_quantities are indexed by the number of aliases pushed so far" % show(idx)[:80])
            ck.ob("C13-S1", fn, "alias-modifier:keyed-by-the-alias-name", mir.strip(ins[0][1].b[1]) == alias or ins[0][1].b[1] == T("clone", alias))
        else:
            seen.add("Key")
            ck.ob("C13-S1", fn, "plain-key-modifier:tables-untouched", not pushes and not inserts)
    ck.ob("C13-S1", fn, "both-modifier-kinds-handled", seen == {"Alias", "Key"}, detail=str(sorted(seen)))


def mentions_get(found, look_ev):
    return mir.mentions(found, look_ev.c) or any(isinstance(s, tuple) and s and s[0] == "call" and method_name(s[1]) == "get" for s in subterms(found))


# ---------------------------------------------------------------------------------------------
def s2_from_modifiers(ctx, ck):
    fn = AC + "from_modifiers"
    b = ctx.body(fn)
    me = T("param", 1, b.dbg.get(1, ""))
    it = T("field", me, "it")
    mods = T("field", it, "modifiers")
    afm, tup = T("field", it, "alias_found_mappings"), T("field", me, "tuple")
    loops = sorted(b.loops())
    if len(loops) != 1:
        ck.unrecognised("C13-S2", fn, "single-loop")
        return
    il = ktloops.index_loop(b, loops[0], full=True)
    ck.ob("C13-S2", fn, "visits-every-trigger-modifier-in-order", il.kind == "for-range" and il.list_term == mods and il.complete and il.index[1][2] == "fwd" and not il.break_paths)
    m = T("index", mods, il.index)
    # j starts at 0
    pre = mir.walk_function(b)[0].events
    j_sets = [e for e in pre if e.kind == "set" and const_int(e.b) == 0]
    seen = set()
    acc = None
    for p in il.cont_paths:
        var = _variant_guard(p, lambda t: mir.strip(t) == m)
        exts = _calls(p, method="extend")
        pushes = _calls(p, method="push")
        jsets = [e for e in p.events if e.kind == "set" and isinstance(e.b, tuple) and e.b[0] == "binop" and e.b[1] == "Add" and const_int(e.b[3]) == 1]
        if var == "Alias":
            seen.add("Alias")
            ok = len(exts) == 1 and not pushes and len(jsets) == 1
            if ok:
                j = jsets[0].b[2]
                ok = exts[0][1].b[1] == alias_keys_term(afm, tup, j) and any(js.a == j[2] for js in j_sets)
                acc = mir.strip(exts[0][1].b[0])
            ck.ob("C13-S2", fn, "alias-modifier:appends-the-chosen-definition's-keys(found[j][tuple[j]])-and-advances-j", ok)
        elif var == "Key":
            seen.add("Key")
            k = T("field", T("variant", m, "Key"), "0")
            ok = len(pushes) == 1 and not exts and not jsets and mir.strip(pushes[0][1].b[1]) == k
            ck.ob("C13-S2", fn, "plain-key-modifier:appends-the-key-itself", ok)
    ck.ob("C13-S2", fn, "both-modifier-kinds-handled", seen == {"Alias", "Key"})
    rets = [p for p in il.exh_paths if p.outcome[0] == "return"]
    ck.ob("C13-S2", fn, "returns-the-accumulated-keys", bool(rets) and acc is not None and all(mir.strip(p.outcome[1]) == acc for p in rets))


# ---------------------------------------------------------------------------------------------
def s3_reify_modifiers(ctx, ck):
    fn = AC + "reify_modifiers"
    b = ctx.body(fn)
    me, mods = T("param", 1, b.dbg.get(1, "")), T("param", 2, b.dbg.get(2, ""))
    it = T("field", me, "it")
    afm, tup, amap = T("field", it, "alias_found_mappings"), T("field", me, "tuple"), T("field", it, "alias_map")
    loops = sorted(b.loops())
    if len(loops) != 1:
        ck.unrecognised("C13-S3", fn, "single-loop")
        return
    il = ktloops.index_loop(b, loops[0], full=True)
    ck.ob("C13-S3", fn, "visits-every-listed-modifier-in-order", il.kind == "for-elements" and il.list_term == mods and bool(il.exh_paths) and il.elem[1][2] == "fwd")
    m = il.elem
    seen = set()
    acc = None
    for p in il.cont_paths:
        var = _variant_guard(p, lambda t: mir.strip(t) == m)
        exts = _calls(p, method="extend")
        pushes = _calls(p, method="push")
        if var == "Key":
            seen.add("Key")
            ok = len(pushes) == 1 and not exts and mir.strip(pushes[0][1].b[1]) == T("field", T("variant", m, "Key"), "0")
            ck.ob("C13-S3", fn, "plain-key->the-key-itself", ok)
            if pushes:
                acc = mir.strip(pushes[0][1].b[0])
        elif var == "Alias":
            seen.add("Alias")
            alias = T("field", T("variant", m, "Alias"), "0")
            gets = [e for i, e in _calls(p, method="get") if "HashMap" in e.a]
            ok = len(gets) == 1 and gets[0].b[0] == amap and mir.strip(gets[0].b[1]) == alias and len(exts) == 1 and not pushes
            if ok:
                i_t = T("field", T("variant", gets[0].c, "Some"), "0")
                ok = exts[0][1].b[1] == alias_keys_term(afm, tup, i_t)
            ck.ob("C13-S3", fn, "alias->keys-of-the-definition-chosen-on-the-trigger-side(found[i][tuple[i]],i=alias_map[alias])", ok)
    for p in il.break_paths:
        if p.outcome[0] == "return":
            r = p.outcome[1]
            var = _variant_guard(p, lambda t: mir.strip(t) == m)
            ck.ob("C13-S3", fn, "alias-not-on-the-trigger-side->error", var == "Alias" and isinstance(r, tuple) and r[0] == "agg" and r[2] == "Err")
    ck.ob("C13-S3", fn, "both-modifier-kinds-handled", seen == {"Alias", "Key"})
    rets = [p for p in il.exh_paths if p.outcome[0] == "return"]
    ok = bool(rets) and all(isinstance(p.outcome[1], tuple) and p.outcome[1][0] == "agg" and p.outcome[1][2] == "Ok" and (acc is None or mir.strip(p.outcome[1][3][0]) == acc) for p in rets)
    ck.ob("C13-S3", fn, "returns-the-accumulated-keys", ok)


# ---------------------------------------------------------------------------------------------
def s4_translate(ctx, ck):
    fn = AC + "translate_single_to_keys"
    b = ctx.body(fn)
    me, to = T("param", 1, b.dbg.get(1, "")), T("param", 2, b.dbg.get(2, ""))
    seen = set()
    for p in mir.walk_function(b):
        if p.outcome[0] != "return":
            continue
        var = _variant_guard(p, lambda t: mir.strip(t) == T("field", to, "terminal"))
        r = p.outcome[1]
        if r[0] == "from_residual":
            continue
        if var == "Physical":
            seen.add(var)
            re_ = [e for i, e in _calls(p, name=AC + "reify_modifiers")]
            pushes = _calls(p, method="push")
            ok = (len(re_) == 1 and re_[0].b == (me, T("field", to, "initial")) and len(pushes) == 1
                  and mir.strip(pushes[0][1].b[0]) == T("okval", re_[0].c) and mir.strip(pushes[0][1].b[1]) == T("field", T("variant", T("field", to, "terminal"), "Physical"), "0")
                  and isinstance(r, tuple) and r[0] == "agg" and r[2] == "Ok" and mir.strip(r[3][0]) == T("okval", re_[0].c))
            ck.ob("C13-S4", fn, "physical-terminal->reified-initial-modifiers++[terminal]", ok)
        elif var == "Null":
            seen.add(var)
            ok = isinstance(r, tuple) and r[0] == "agg" and r[2] == "Ok" and isinstance(r[3][0], tuple) and r[3][0][0] == "call" and method_name(r[3][0][1]) == "new" and not _calls(p, method="push")
            ck.ob("C13-S4", fn, "null-terminal->empty-output", ok)
    ck.ob("C13-S4", fn, "both-terminal-kinds", seen == {"Physical", "Null"}, detail=str(sorted(seen)))


# ---------------------------------------------------------------------------------------------
def _err_exit(p):
    """the path leaves the loop to report an error: `?` on a failed call, or an explicit `return Err(..)`"""
    if any(e.kind == "guard" and isinstance(e.a, tuple) and e.a[0] == "variantof" and isinstance(e.a[1], tuple) and e.a[1][0] == "try" and e.b == "Break" for e in p.events):
        return True
    if p.outcome[0] != "return":
        # (the return block is shared: an explicit `return Err(format!(..))` reaches it as ordinary control flow,
        # with the return place already holding the Err)
        r0 = (p.env or {}).get(0) if hasattr(p, "env") else None
        return isinstance(r0, tuple) and bool(r0) and (r0[0] == "from_residual" or (len(r0) > 2 and r0[0] == "agg" and r0[2] == "Err"))
    r = p.outcome[1]
    return isinstance(r, tuple) and bool(r) and (r[0] == "from_residual" or (r[0] == "agg" and len(r) > 2 and r[2] == "Err"))


def s5_convert(ctx, ck):
    fn = FLI + "convert"
    b = ctx.body(fn)
    f = T("param", 1, b.dbg.get(1, ""))
    oks = [p for p in mir.walk_function(b) if p.outcome[0] == "return" and isinstance(p.outcome[1], tuple) and p.outcome[1][0] == "agg" and p.outcome[1][2] == "Ok"]
    if not oks:
        ck.unrecognised("C13-S5", fn, "Ok-path")
        return
    lay = oks[0].outcome[1][3][0]
    res = mir.strip(lay[3][lay[4].index("mappings")])
    order = [e.a for e in oks[0].events if e.kind == "loop"]
    # every successful way out runs the same passes and returns the same list (no "simple layout" fast path beside them)
    same = all([e.a for e in p.events if e.kind == "loop"] == order and isinstance(p.outcome[1][3][0], tuple) and p.outcome[1][3][0][0] == "agg"
               and "mappings" in p.outcome[1][3][0][4] and mir.strip(p.outcome[1][3][0][3][p.outcome[1][3][0][4].index("mappings")]) == res for p in oks)
    ck.ob("C13-S5", fn, "every-Ok-result-comes-out-of-the-same-passes", same, detail=None if same else "%d Ok paths, not all through loops %s" % (len(oks), order))
    conv_loop = None
    adj_loop = None
    for h in order:
        il = ktloops.index_loop(b, h)
        if il.kind == "for-elements" and il.list_term == T("field", f, "mappings"):
            calls = [e.a for p in il.cont_paths for e in p.events if e.kind == "call" and e.a.startswith(FLI)]
            if FLI + "convert_mapping" in calls:
                conv_loop = (h, il)
            elif FLI + "adjust_repeats" in calls:
                adj_loop = (h, il)
    ck.ob("C13-S5", fn, "source-mappings-converted-in-one-forward-pass,then-repeat-only-entries-applied", conv_loop is not None and adj_loop is not None
          and order.index(conv_loop[0]) < order.index(adj_loop[0]) and conv_loop[1].elem[1][2] == "fwd" and adj_loop[1].elem[1][2] == "fwd"
          and conv_loop[1].complete and adj_loop[1].complete)
    if conv_loop is None:
        return
    h, il = conv_loop
    # inner loop over the produced mappings: every one is pushed onto res, in order, exactly once
    inner = [hh for hh in b.loops() if hh != h and hh in b.loops()[h]]
    ok_inner = False
    for hh in inner:
        il2 = ktloops.index_loop(b, hh)
        if il2.kind != "for-elements":
            continue
        src = il2.list_term
        if not (isinstance(src, tuple) and src[0] == "okval" and isinstance(src[1], tuple) and src[1][1] == FLI + "convert_mapping"):
            continue
        allp = True
        for p in il2.cont_paths:
            pushes = [e for i, e in _calls(p, method="push") if mir.strip(e.b[0]) == res]
            allp = allp and len(pushes) == 1 and mir.strip(pushes[0].b[1]) == il2.elem
            # from_table bookkeeping: index recorded == len(res) read before the push
            idxs = [e for i, e in _calls(p, method="push") if mir.strip(e.b[0]) != res] + [e for i, e in _calls(p, method="insert") if "HashMap" in e.a]
            lens = [i for i, e in _calls(p, method="len") if mir.strip(e.b[0]) == res]
            pr = [i for i, e in _calls(p, method="push") if mir.strip(e.b[0]) == res]
            allp = allp and bool(lens) and bool(pr) and max(lens) < pr[0]
        # (leaving the loop with an error -- `?` -- abandons the whole conversion; only successful conversions matter)
        early = [p for p in il2.break_paths if not _err_exit(p)]
        ok_inner = allp and il2.complete and not early and il2.elem[1][2] == "fwd" and bool(il2.cont_paths)
        # the table that repeat-only entries are looked up in lists EVERY produced mapping under its key set
        for p in il2.cont_paths:
            ok_t, why_t = _from_table_entry(p, il2.elem, res)
            ck.ob("C13-S5", fn, "every-produced-mapping's-position-is-recorded-under-FromSet(its-from)", ok_t, detail=why_t)
    ck.ob("C13-S5", fn, "every-produced-mapping-is-appended-once,in-order,and-indexed-by-its-position", ok_inner)


def _entry_or_empty(recv, is_key):
    """recv = map.entry(K).or_default() | .or_insert_with(Vec::new) | .or_insert(Vec::new())  with is_key(K)"""
    recv = mir.strip(recv)
    if not (isinstance(recv, tuple) and recv[0] == "call" and mir.method_name(recv[1]) in ("or_default", "or_insert_with", "or_insert") and recv[2]):
        return False
    en = recv[2][0]
    if not (isinstance(en, tuple) and en[0] == "call" and mir.method_name(en[1]) == "entry" and len(en[2]) == 2 and is_key(en[2][1])):
        return False
    if mir.method_name(recv[1]) == "or_default":
        return True
    d = recv[2][1] if len(recv[2]) > 1 else None
    return (isinstance(d, tuple) and d[0] == "call" and mir.method_name(d[1]) == "new" and not d[2]) or (isinstance(d, tuple) and d[0] == "const" and "Vec" in str(d) and "new" in str(d))


def _from_table_entry(p, elem, res):
    """on one pass of the loop that appends a produced mapping: its index (res.len() before the push) is ADDED to the list
    kept under FromSet::new(&mapping.from) -- pushed onto the existing list, or a new one-element list inserted"""
    keys = [e for i, e in _calls(p, name=FLI + "FromSet::new") if mir.strip(e.b[0]) == T("field", elem, "from")]
    if not keys:
        return False, "no FromSet::new(&mapping.from) on this pass"
    key = keys[0].c
    lenres = T("len", res)

    def is_key(t):
        t = mir.strip(t)
        while isinstance(t, tuple) and t and t[0] == "clone":
            t = mir.strip(t[1])
        return t == mir.strip(key)

    def is_len(t):
        t = mir.strip(t)
        return t == lenres or (isinstance(t, tuple) and t and t[0] == "call" and mir.method_name(t[1]) == "len" and mir.strip(t[2][0]) == res)
    pushes = [e for i, e in _calls(p, method="push") if mir.strip(e.b[0]) != res]
    look = [e for i, e in _calls(p, method="get_mut") if "HashMap" in e.a and len(e.b) == 2 and is_key(e.b[1])]
    if look:
        got = [e.b for e in p.events if e.kind == "guard" and e.a == T("variantof", look[0].c)]
        if got and got[0] == "Some":
            want = T("field", T("variant", look[0].c, "Some"), "0")
            ok = len(pushes) == 1 and mir.strip(pushes[0].b[0]) == want and is_len(pushes[0].b[1])
            return ok, None if ok else "key set already known: the position is not pushed onto its list"
        if got:
            ins = [e for i, e in _calls(p, method="insert") if "HashMap" in e.a and len(e.b) == 3 and is_key(e.b[1]) and mir.strip(e.b[0]) == mir.strip(look[0].b[0])]
            # (vec![x] stores the array [x] into a fresh box and turns the box into a Vec)
            filled = [e for e in p.events if e.kind == "store" and (is_len(e.b) or (isinstance(e.b, tuple) and e.b and e.b[0] == "array" and len(e.b[1]) == 1 and is_len(e.b[1][0])))] \
                or [e for e in ins if any(is_len(x) for x in mir.subterms(e.b[2]))]
            ok = len(ins) == 1 and bool(filled)
            return ok, None if ok else "key set not known yet: no one-element list holding the position is inserted"
        return False, "the look-up result is not examined"
    if len(pushes) == 1 and _entry_or_empty(pushes[0].b[0], is_key):
        ok = is_len(pushes[0].b[1])
        return ok, None if ok else "entry(..) form: what is pushed onto the list of this key set is not the mapping's position"
    return False, "the position of the produced mapping is not added to the table on this pass"


# ---------------------------------------------------------------------------------------------
def s6_convert_single(ctx, ck):
    fn = FLI + "convert_single"
    b = ctx.body(fn)
    amaps, single = T("param", 1, b.dbg.get(1, "")), T("param", 2, b.dbg.get(2, ""))
    loops = sorted(b.loops())
    if len(loops) != 1:
        ck.unrecognised("C13-S6", fn, "single-loop")
        return
    il = ktloops.index_loop(b, loops[0], full=True)
    it = il.elem[1] if il.elem else None
    src_ok = False
    if isinstance(it, tuple) and it[0] == "iter":
        s_ = it[1]
        src_ok = (isinstance(s_, tuple) and s_[0] == "call" and s_[1] == FLI + "iterate_combinations" and isinstance(s_[2][0], tuple) and s_[2][0][0] == "okval"
                  and s_[2][0][1][1] == FLI + "build_combinations" and s_[2][0][1][2] == (amaps, T("field", T("field", single, "from"), "modifiers")))
    ck.ob("C13-S6", fn, "one-iteration-per-combination-of-the-trigger's-alias-definitions", src_ok and bool(il.exh_paths))
    comb = il.elem
    n = 0
    for p in il.cont_paths:
        pushes = _calls(p, method="push")
        maps = [e for i, e in pushes if isinstance(e.b[1], tuple) and len(e.b[1]) > 4 and e.b[1][0] == "agg" and e.b[1][1] == "keys::Mapping"]
        if len(maps) != 1:
            ck.ob("C13-S6", fn, "exactly-one-mapping-per-combination", False, detail="%d" % len(maps))
            continue
        n += 1
        mp = dict(zip(maps[0].b[1][4], maps[0].b[1][3]))
        fm = [e for i, e in _calls(p, name=AC + "from_modifiers")]
        frm = mir.strip(mp["from"])
        keypush = [e for i, e in pushes if mir.strip(e.b[0]) == frm]
        ok_from = (len(fm) == 1 and fm[0].b == (comb,) and frm == mir.strip(fm[0].c) and len(keypush) == 1
                   and mir.strip(keypush[0].b[1]) == T("field", T("field", single, "from"), "key"))
        ck.ob("C13-S6", fn, "from==chosen-alias-keys-and-plain-modifiers++[trigger-key]", ok_from)
        to = mp["to"]
        ok_to = isinstance(to, tuple) and to[0] == "okval" and to[1][1] == AC + "translate_single_to_keys" and to[1][2] == (comb, T("field", single, "to"))
        ck.ob("C13-S6", fn, "to==translation-of-the-mapping's-output-under-the-same-combination", ok_to)
        ab = mp["absorbing"]
        ok_ab = isinstance(ab, tuple) and ab[0] == "okval" and ab[1][1] == AC + "reify_modifiers" and ab[1][2] == (comb, T("field", single, "absorbing"))
        ck.ob("C13-S6", fn, "absorbing==reified-absorbing-list-under-the-same-combination", ok_ab)
        rep = mp["repeat"]
        arm = _variant_guard(p, lambda t: mir.strip(t) == T("field", single, "repeat"))
        if arm == "Special":
            f = dict(zip(rep[4], rep[3])) if isinstance(rep, tuple) and rep[0] == "agg" else {}
            sp = T("variant", T("field", single, "repeat"), "Special")
            k = f.get("keys")
            ok_rep = (rep[2] == "Special" and isinstance(k, tuple) and k[0] == "okval" and k[1][1] == AC + "translate_single_to_keys" and k[1][2] == (comb, T("field", sp, "keys"))
                      and f.get("delay_ms") == T("field", sp, "delay_ms") and f.get("interval_ms") == T("field", sp, "interval_ms"))
        else:
            ok_rep = isinstance(rep, tuple) and rep[0] == "agg" and rep[2] == arm
        ck.ob("C13-S6", fn, "repeat-%s-carried-over(chord-translated-under-the-same-combination)" % arm, ok_rep)
    ck.floor("C13-S6", "combination-paths", n, 1)


# ---------------------------------------------------------------------------------------------
def s7_alias_tables(ctx, ck):
    fn = FLI + "find_alias_mappings"
    b = ctx.body(fn)
    f = T("param", 1, b.dbg.get(1, ""))
    loops = sorted(b.loops())
    if len(loops) != 1:
        ck.unrecognised("C13-S7", fn, "single-loop")
        return
    il = ktloops.index_loop(b, loops[0])
    ck.ob("C13-S7", fn, "alias-definitions-collected-in-one-forward-pass-over-the-layout", il.kind == "for-elements" and il.list_term == T("field", f, "mappings") and il.complete
          and not il.break_paths and il.elem[1][2] == "fwd")
    m = il.elem
    for p in il.cont_paths:
        var = _variant_guard(p, lambda t: mir.strip(t) == m)
        pushes = _calls(p, method="push")
        inserts = [(i, e) for i, e in _calls(p, method="insert") if "HashMap" in e.a]
        if var == "Alias":
            alias = T("field", T("variant", m, "Alias"), "0")
            name = T("field", T("field", alias, "to"), "terminal")
            g = [e for i, e in _calls(p, method="get_mut")]
            if inserts:
                ok = len(inserts) == 1 and not pushes and (mir.strip(inserts[0][1].b[1]) == name or inserts[0][1].b[1] == T("clone", name))
                ck.ob("C13-S7", fn, "first-definition-of-an-alias-opens-its-list(keyed-by-the-alias-name)", ok and len(g) == 1 and mir.strip(g[0].b[1]) == name)
            elif not g and len(pushes) == 1 and _entry_or_empty(pushes[0][1].b[0], lambda t: mir.strip(t) == name or t == T("clone", name) or mir.strip(t) == T("clone", name)):
                # map.entry(name).or_insert_with(Vec::new).push(alias): opens the list if need be and appends, in one step
                ok = mir.strip(pushes[0][1].b[1]) == alias
                ck.ob("C13-S7", fn, "first-definition-of-an-alias-opens-its-list(keyed-by-the-alias-name)", ok)
                ck.ob("C13-S7", fn, "later-definitions-are-appended-in-source-order", ok)
            else:
                ok = len(pushes) == 1 and mir.strip(pushes[0][1].b[1]) == alias and len(g) == 1 and mir.strip(g[0].b[1]) == name
                ck.ob("C13-S7", fn, "later-definitions-are-appended-in-source-order", ok)
        else:
            ck.ob("C13-S7", fn, "other-mappings-do-not-touch-the-alias-table", not pushes and not inserts)


# ---------------------------------------------------------------------------------------------
# S8  adjust_repeats, S9 convert_row, S10 the combination iterator (added after the first seeded changes:
#     these functions were covered by table clauses only)

def _comb_loop(ctx, ck, rid, fn, b, amaps, mods_term):
    """the loop `for combination in iterate_combinations(&build_combinations(alias_mappings, <mods>)?)`
    -> (header, IndexLoop) or None"""
    outer = [h for h in b.loops() if not any(h in blks and hh != h for hh, blks in b.loops().items())]
    for h in outer:
        il = ktloops.index_loop(b, h)
        it = il.elem[1] if il.elem else None
        if not (isinstance(it, tuple) and it[0] == "iter"):
            continue
        s_ = it[1]
        if (isinstance(s_, tuple) and s_[0] == "call" and s_[1] == FLI + "iterate_combinations" and isinstance(s_[2][0], tuple) and s_[2][0][0] == "okval"
                and s_[2][0][1][1] == FLI + "build_combinations" and s_[2][0][1][2] == (amaps, mods_term)):
            return h, il
    return None


def _mapping_pushes(p, target=None):
    out = []
    for i, e in _calls(p, method="push"):
        v = e.b[1] if len(e.b) > 1 else None
        if isinstance(v, tuple) and len(v) > 4 and v[0] == "agg" and v[1] == "keys::Mapping" and (target is None or mir.strip(e.b[0]) == target):
            out.append((i, e))
    return out


def s8_adjust_repeats(ctx, ck):
    fn = FLI + "adjust_repeats"
    b = ctx.body(fn)
    res, table, amaps, fm = (T("param", i, b.dbg.get(i, "")) for i in (1, 2, 3, 4))
    single = T("field", T("variant", fm, "RepeatOnlySingle"), "0")
    # other kinds of mapping: nothing happens
    quiet = True
    seen_other = False
    for p in mir.walk_function(b):
        v = _variant_guard(p, lambda t: mir.strip(t) == fm)
        if v is not None and v != "RepeatOnlySingle":
            seen_other = True
            if _calls(p, method="push") or [e for e in p.events if e.kind == "store"] or p.outcome[0] != "return":
                quiet = False
    ck.ob("C13-S8", fn, "only-repeat-only-entries-have-an-effect", quiet and seen_other)
    found = _comb_loop(ctx, ck, "C13-S8", fn, b, amaps, T("field", T("field", single, "from"), "modifiers"))
    ck.ob("C13-S8", fn, "one-iteration-per-combination-of-the-entry's-trigger-aliases", found is not None and found[1].complete and not [p for p in found[1].break_paths if not _err_exit(p)])
    if found is None:
        return
    h, il = found
    comb = il.elem
    inner = [hh for hh in b.loops() if hh != h and hh in b.loops()[h]]
    n_hit = n_miss = 0
    for p in il.cont_paths:
        fmc = [(i, e) for i, e in _calls(p, name=AC + "from_modifiers")]
        if len(fmc) != 1 or fmc[0][1].b != (comb,):
            ck.ob("C13-S8", fn, "trigger==chosen-alias-keys-and-plain-modifiers++[the-entry's-key]", False, detail="from_modifiers calls: %d" % len(fmc))
            continue
        frm = T("clone", fmc[0][1].c) if any(e.c == T("clone", fmc[0][1].c) for e in p.events if e.kind == "call") else mir.strip(fmc[0][1].c)
        keypush = [(i, e) for i, e in _calls(p, method="push") if mir.strip(e.b[0]) in (frm, mir.strip(fmc[0][1].c)) and not (isinstance(e.b[1], tuple) and e.b[1][0] == "agg")]
        fs = [(i, e) for i, e in _calls(p, name=FLI + "FromSet::new")]
        ok_from = (len(keypush) == 1 and mir.strip(keypush[0][1].b[1]) in (T("field", T("field", single, "from"), "key"), T("clone", T("field", T("field", single, "from"), "key")))
                   and len(fs) == 1 and mir.strip(fs[0][1].b[0]) in (frm, mir.strip(fmc[0][1].c)) and keypush[0][0] < fs[0][0])
        ck.ob("C13-S8", fn, "trigger==chosen-alias-keys-and-plain-modifiers++[the-entry's-key](completed-before-the-lookup)", ok_from)
        # repeat value
        arm = _variant_guard(p, lambda t: mir.strip(t) == T("field", single, "repeat"))
        sets = [e for e in p.events if e.kind == "set" and e.c == "repeat"]
        rep = sets[-1].b if sets else None
        if rep is None:
            # single assignment: find the aggregate in the store / push
            cands = [s_ for e in p.events for t in (e.a, e.b) if isinstance(t, tuple) for s_ in subterms(t)
                     if isinstance(s_, tuple) and len(s_) > 2 and s_[0] == "agg" and s_[1] == "keys::Repeat"]
            rep = cands[0] if cands else None
        if arm == "Special":
            f = dict(zip(rep[4], rep[3])) if isinstance(rep, tuple) and rep[0] == "agg" and len(rep) > 4 else {}
            sp = T("variant", T("field", single, "repeat"), "Special")
            k = f.get("keys")
            ok_rep = (isinstance(rep, tuple) and rep[2] == "Special" and isinstance(k, tuple) and k[0] == "okval" and k[1][1] == AC + "translate_single_to_keys"
                      and k[1][2] == (comb, T("field", sp, "keys")) and f.get("delay_ms") == T("field", sp, "delay_ms") and f.get("interval_ms") == T("field", sp, "interval_ms"))
        else:
            ok_rep = isinstance(rep, tuple) and rep[0] == "agg" and rep[2] == arm
        ck.ob("C13-S8", fn, "repeat-%s-carried-over(chord-translated-under-the-same-combination)" % arm, ok_rep)
        # lookup by trigger set
        gets = [(i, e) for i, e in _calls(p, method="get") if "HashMap" in e.a and mir.strip(e.b[0]) == table]
        ok_get = len(gets) == 1 and len(fs) == 1 and mir.strip(gets[0][1].b[1]) == fs[0][1].c
        ck.ob("C13-S8", fn, "mappings-with-the-same-trigger-set-are-looked-up-in-the-table-built-by-convert", ok_get)
        if not ok_get:
            continue
        hit = [e.b for e in p.events if e.kind == "guard" and e.a == T("variantof", gets[0][1].c)]
        pushes = _mapping_pushes(p, res)
        if hit == ["Some"]:
            n_hit += 1
            lps = [e.a for e in p.events if e.kind == "loop" and e.a in inner]
            ok = len(lps) == 1 and not pushes
            if ok:
                il2 = ktloops.index_loop(b, lps[0])
                ok = (il2.kind == "for-elements" and il2.list_term == mir.strip(T("field", T("variant", gets[0][1].c, "Some"), "0")) and il2.complete and not il2.break_paths
                      and len(il2.cont_paths) == 1)
                if ok:
                    q = il2.cont_paths[0]
                    st = [e for e in q.events if e.kind == "store"]
                    want = T("field", T("index", res, il2.elem), "repeat")
                    ok = len(st) == 1 and mir.strip(st[0].a) == want and isinstance(st[0].b, tuple) and st[0].b[0] == "clone" and not _data_guards(q)
            ck.ob("C13-S8", fn, "found:the-repeat-of-EVERY-mapping-with-that-trigger-set-is-overwritten(nothing-else)", ok)
        else:
            n_miss += 1
            ok = len(pushes) == 1 and not [e for e in p.events if e.kind == "loop" and e.a in inner]
            if ok:
                mp = dict(zip(pushes[0][1].b[1][4], pushes[0][1].b[1][3]))
                base = mir.strip(fmc[0][1].c)
                def is_from(t):
                    t = mir.strip(t)
                    while isinstance(t, tuple) and t[0] == "clone":
                        t = mir.strip(t[1])
                    return t == base
                ab = mp["absorbing"]
                ok = (is_from(mp["from"]) and is_from(mp["to"]) and isinstance(ab, tuple) and ab[0] == "call" and method_name(ab[1]) == "new" and not ab[2]
                      and pushes[0][0] > keypush[0][0] if keypush else False)
            ck.ob("C13-S8", fn, "not-found:one-identity-mapping(to==from,no-absorbing)-with-that-repeat-is-appended", ok)
    ck.floor("C13-S8", "found-paths", n_hit, 1)
    ck.floor("C13-S8", "not-found-paths", n_miss, 1)
    # FromSet::new: all but the last key sorted, then the last key
    fsn = ctx.body(FLI + "FromSet::new")
    keys = T("param", 1, fsn.dbg.get(1, ""))
    okf = True
    kinds = set()
    for p in mir.walk_function(fsn):
        if p.outcome[0] != "return":
            continue
        emp = [e.b for e in p.events if e.kind == "guard" and e.a == T("empty", keys)]
        names = [method_name(e.a) for i, e in _calls(p)]
        if emp == [True]:
            kinds.add("empty")
            okf = okf and "sort" not in names and "push" not in names
        elif emp == [False]:
            kinds.add("nonempty")
            idx = [e for i, e in _calls(p, method="index") if mir.strip(e.b[0]) == keys]
            rng_ok = False
            if len(idx) == 1 and isinstance(idx[0].b[1], tuple) and idx[0].b[1][0] == "agg" and idx[0].b[1][1] == "std::ops::RangeTo":
                end = idx[0].b[1][3][0]
                rng_ok = end == T("binop", "Sub", T("len", keys), T("const", T("int", 1, "usize")))
            order = [n for n in names if n in ("collect", "sort", "last", "push")]
            lastc = [e for i, e in _calls(p, method="last") if mir.strip(e.b[0]) == keys]
            okf = okf and rng_ok and order == ["collect", "sort", "last", "push"] and len(lastc) == 1
        else:
            okf = False
    ck.ob("C13-S8", FLI + "FromSet::new", "trigger-set==sorted(all-but-the-last-key)++[last-key]", okf and kinds == {"empty", "nonempty"}, detail=str(sorted(kinds)))


def s9_convert_row(ctx, ck):
    fn = FLI + "convert_row"
    b = ctx.body(fn)
    amaps, row = T("param", 1, b.dbg.get(1, "")), T("param", 2, b.dbg.get(2, ""))
    found = _comb_loop(ctx, ck, "C13-S9", fn, b, amaps, T("field", T("field", row, "from"), "modifiers"))
    if found is None:
        ck.ob("C13-S9", fn, "one-iteration-per-combination-of-the-row's-trigger-aliases", False)
        return
    h, il = found
    comb = il.elem
    inner = [hh for hh in b.loops() if hh != h and hh in b.loops()[h]]
    # leaving the combination loop early is only allowed to report an error (directly, or out of the letter loop)
    def inner_err(p):
        for e in p.events:
            if e.kind == "loopexit" and e.a in inner:
                ex = b.exhaustion_exit(e.a)
                if ex is not None and e.b != ex[1]:
                    return all(_err_exit(q) for q in ktloops.index_loop(b, e.a).break_paths)
        return False
    early = [p for p in il.break_paths if not _err_exit(p) and not inner_err(p)]
    ck.ob("C13-S9", fn, "one-iteration-per-combination-of-the-row's-trigger-aliases", il.complete and not early,
          detail=None if not early else "the loop over combinations can be left early without an error")
    ck.ob("C13-S9", fn, "one-per-letter-loop", len(inner) == 1)
    if len(inner) != 1:
        return
    il2 = ktloops.index_loop(b, inner[0])
    chars_to = T("call", "core::str::<impl str>::chars", (T("field", T("field", row, "to"), "terminal"),), None)
    L = il2.list_term
    ok_letters = (il2.kind == "for-range" and il2.direction == "fwd" and il2.complete and not [p for p in il2.break_paths if not _err_exit(p)]
                  and isinstance(L, tuple) and L[0] == "call" and method_name(L[1]) == "collect" and isinstance(L[2][0], tuple) and method_name(L[2][0][1]) == "chars"
                  and mir.strip(L[2][0][2][0]) == T("field", T("field", row, "to"), "terminal"))
    ck.ob("C13-S9", fn, "letters-of-`to`-visited-in-order,all-of-them(only-error-exits)", ok_letters, detail=show(L)[:100] if L else None)
    ci = il2.index
    # outer path facts
    fm_terms, to_mods, templ = set(), set(), {}
    for p in il.cont_paths:
        fmc = [e for i, e in _calls(p, name=AC + "from_modifiers") if e.b == (comb,)]
        for e in fmc:
            fm_terms.add(e.c)
        for i, e in _calls(p, name=AC + "reify_modifiers"):
            if e.b == (comb, T("field", T("field", row, "to"), "initial")):
                to_mods.add(T("okval", e.c))
        arm = _variant_guard(p, lambda t: mir.strip(t) == T("field", row, "repeat"))
        sets = [e for e in p.events if e.kind == "set" and e.c == "repeat_template"]
        if arm and sets:
            templ.setdefault(arm, set()).add(sets[-1].b)
    ck.ob("C13-S9", fn, "trigger-modifiers-and-output-modifiers-computed-once-per-combination-from-the-row's-own-lists", len(fm_terms) == 1 and len(to_mods) == 1,
          detail="%d/%d" % (len(fm_terms), len(to_mods)))
    if len(fm_terms) != 1 or len(to_mods) != 1:
        return
    fmods = list(fm_terms)[0]
    tmods = list(to_mods)[0]
    # repeat template per arm
    ok_t = set(templ) == {"Normal", "Disabled", "Special"}
    for arm, vals in templ.items():
        if len(vals) != 1:
            ok_t = False
            continue
        v = list(vals)[0]
        if arm in ("Normal", "Disabled"):
            ok_t = ok_t and isinstance(v, tuple) and v[0] == "agg" and v[2] == arm
        else:
            f = dict(zip(v[4], v[3])) if isinstance(v, tuple) and v[0] == "agg" and len(v) > 4 else {}
            sp = T("variant", T("field", row, "repeat"), "Special")
            m_ = f.get("modifiers")
            t_ = f.get("terminal")
            ok_t = ok_t and (v[2] == "Special" and isinstance(m_, tuple) and m_[0] == "okval" and m_[1][1] == AC + "reify_modifiers"
                             and m_[1][2] == (comb, T("field", T("field", sp, "keys"), "initial"))
                             and isinstance(t_, tuple) and t_[0] == "call" and method_name(t_[1]) == "collect" and method_name(t_[2][0][1]) == "chars"
                             and mir.strip(t_[2][0][2][0]) == T("field", T("field", sp, "keys"), "terminal")
                             and f.get("delay_ms") == T("field", sp, "delay_ms") and f.get("interval_ms") == T("field", sp, "interval_ms"))
    ck.ob("C13-S9", fn, "repeat-template==the-row's-repeat(chord-modifiers-reified-under-the-same-combination,chord-letters-from-its-own-terminal)", ok_t, detail=str(sorted(templ)))
    # per-letter paths
    hrs = T("call", FLI + "find_right_shift", (T("clone", fmods),), None)
    n_some = n_none = 0
    rep_arms = set()
    for q in il2.cont_paths:
        crt = [(i, e) for i, e in _calls(q, name=FLI + "convert_row_to")]
        if not crt:
            ck.ob("C13-S9", fn, "letter-path-calls-convert_row_to", False)
            continue
        a0 = crt[0][1].b
        first_ok = (len(a0) == 4 and isinstance(a0[0], tuple) and a0[0][0] == "call" and a0[0][1] == FLI + "find_right_shift" and mir.strip(a0[0][2][0]) in (fmods, T("clone", fmods))
                    and mir.strip(a0[1]) == tmods and mir.strip(a0[2]) == L and a0[3] == ci)
        ck.ob("C13-S9", fn, "output==convert_row_to(right-shift-of-THIS-trigger,output-modifiers,letters,letter-index)", first_ok)
        res0 = T("okval", crt[0][1].c)
        v = [e.b for e in q.events if e.kind == "guard" and e.a == T("variantof", res0)]
        pushes = _mapping_pushes(q)
        if v == ["None"] or (v and v[0] != "Some"):
            n_none += 1
            ck.ob("C13-S9", fn, "unmapped-letter(space/past-the-row)->no-mapping", not pushes)
            continue
        n_some += 1
        if len(pushes) != 1:
            ck.ob("C13-S9", fn, "mapped-letter->exactly-one-mapping", False, detail="%d" % len(pushes))
            continue
        mp = dict(zip(pushes[0][1].b[1][4], pushes[0][1].b[1][3]))
        frm = mir.strip(mp["from"])
        base = frm
        while isinstance(base, tuple) and base[0] == "clone":
            base = mir.strip(base[1])
        keypush = [(i, e) for i, e in _calls(q, method="push") if mir.strip(e.b[0]) == frm and not (isinstance(e.b[1], tuple) and e.b[1][0] == "agg")]
        ok_from = False
        if base == fmods and len(keypush) == 1 and keypush[0][0] < pushes[0][0]:
            kk = mir.strip(keypush[0][1].b[1])
            ok_from = isinstance(kk, tuple) and kk[0] == "index" and kk[2] == ci and isinstance(kk[1], tuple) and kk[1][0] == "okval" and "ok_or" in str(kk[1][1][1])
            if ok_from:
                g = kk[1][1][2][0]   # the Option handed to ok_or: US_KEYBOARD_LAYOUT.get(&row_mapping.from.row)
                ok_from = isinstance(g, tuple) and g[0] == "call" and method_name(g[1]) == "get" and len(g[2]) == 2 \
                    and mir.strip(g[2][1]) == T("field", T("field", row, "from"), "row") and "US_KEYBOARD_LAYOUT" in show(g[2][0])
        ck.ob("C13-S9", fn, "trigger==chosen-alias-keys-and-plain-modifiers++[key-at-the-letter's-position-in-the-row-named-by-the-mapping]", ok_from)
        ck.ob("C13-S9", fn, "to==that-convert_row_to-result", mir.strip(mp["to"]) == T("field", T("variant", res0, "Some"), "0"))
        ab = mp["absorbing"]
        ck.ob("C13-S9", fn, "absorbing==reified-absorbing-list-under-the-same-combination",
              isinstance(ab, tuple) and ab[0] == "okval" and ab[1][1] == AC + "reify_modifiers" and ab[1][2] == (comb, T("field", row, "absorbing")))
        # repeat
        tv = [e.b for e in q.events if e.kind == "guard" and isinstance(e.a, tuple) and e.a[0] == "variantof" and isinstance(e.a[1], tuple) and e.a[1][0] == "var"
              and len(e.a[1]) > 2 and e.a[1][2] == "repeat_template"]
        rep = mp["repeat"]
        arm = tv[0] if tv else None
        if arm in ("Normal", "Disabled"):
            rep_arms.add(arm)
            ck.ob("C13-S9", fn, "repeat-%s-carried-over" % arm, isinstance(rep, tuple) and rep[0] == "agg" and rep[2] == arm)
        elif arm == "Special" and len(crt) == 2:
            a1 = crt[1][1].b
            tmplv = [e.a[1] for e in q.events if e.kind == "guard" and isinstance(e.a, tuple) and e.a[0] == "variantof" and isinstance(e.a[1], tuple) and e.a[1][0] == "var"][0]
            spv = T("variant", tmplv, "Special")
            second_ok = (len(a1) == 4 and a1[0] == a0[0] and mir.strip(a1[1]) == T("field", spv, "modifiers") and mir.strip(a1[2]) == T("field", spv, "terminal") and a1[3] == ci)
            res1 = T("okval", crt[1][1].c)
            v1 = [e.b for e in q.events if e.kind == "guard" and e.a == T("variantof", res1)]
            if v1 == ["Some"]:
                rep_arms.add("Special/Some")
                f = dict(zip(rep[4], rep[3])) if isinstance(rep, tuple) and rep[0] == "agg" and len(rep) > 4 else {}
                okr = (second_ok and rep[2] == "Special" and mir.strip(f.get("keys")) == T("field", T("variant", res1, "Some"), "0")
                       and f.get("delay_ms") == T("field", spv, "delay_ms") and f.get("interval_ms") == T("field", spv, "interval_ms"))
                ck.ob("C13-S9", fn, "repeat-Special:chord==convert_row_to(chord-modifiers,chord-letters,SAME-letter-index),delay-and-interval-carried-over", okr)
            else:
                rep_arms.add("Special/None")
                ck.ob("C13-S9", fn, "repeat-Special:no-chord-letter-at-this-position->Normal", second_ok and isinstance(rep, tuple) and rep[0] == "agg" and rep[2] == "Normal")
        else:
            ck.ob("C13-S9", fn, "letter-path-classifies-the-repeat-template", False, detail=str(arm))
    ck.ob("C13-S9", fn, "all-repeat-cases-present", rep_arms == {"Normal", "Disabled", "Special/Some", "Special/None"}, detail=str(sorted(rep_arms)))
    ck.floor("C13-S9", "mapped-letter-paths", n_some, 2)
    ck.floor("C13-S9", "unmapped-letter-paths", n_none, 1)
    # result: the accumulated vector
    oks = [p for p in mir.walk_function(b) if p.outcome[0] == "return" and isinstance(p.outcome[1], tuple) and p.outcome[1][0] == "agg" and p.outcome[1][2] == "Ok"]
    ck.ob("C13-S9", fn, "returns-the-accumulated-mappings", bool(oks) and all(isinstance(p.outcome[1][3][0], tuple) and p.outcome[1][3][0][0] == "call" and method_name(p.outcome[1][3][0][1]) == "new" for p in oks))


def s10_combination_iterator(ctx, ck):
    """every digit vector 0 <= t[i] < quantities[i] is produced exactly once: the mixed-radix counter's step is
    `return the current vector; bump the first digit that is below its maximum and zero the digits before it; when no
    digit can be bumped the next call ends`"""
    nx = "<fancy_layout_interpreting::MultiplyIter<'s> as std::iter::Iterator>::next"
    b = ctx.body(nx)
    me = T("param", 1, b.dbg.get(1, ""))
    pos, qty, done = T("field", me, "position"), T("field", me, "quantities"), T("field", me, "done")
    outer = [h for h in b.loops() if ktloops.index_loop(b, h).list_term == qty]
    ck.ob("C13-S10", nx, "one-digit-loop", len(outer) == 1)
    if len(outer) != 1:
        return
    h = outer[0]
    il = ktloops.index_loop(b, h)
    ck.ob("C13-S10", nx, "digits-visited-from-the-first,all-of-them", il.kind == "for-range" and il.direction == "fwd" and il.list_term == qty and il.complete)
    i = il.index
    can_bump = T("binop", "Lt", T("index", pos, i), T("binop", "Sub", T("index", qty, i), T("const", T("int", 1, "usize"))))
    okc = len(il.cont_paths) >= 1
    for p in il.cont_paths:
        g = _data_guards(p)
        okc = okc and g == [(can_bump, False)] and not [e for e in p.events if e.kind == "store"]
    ck.ob("C13-S10", nx, "a-digit-at-its-maximum-is-passed-over-untouched", okc)
    okb = len(il.break_paths) == 1
    inner = [hh for hh in b.loops() if hh != h]
    for p in il.break_paths:
        g = _data_guards(p)
        st = [e for e in p.events if e.kind == "store"]
        lps = [e.a for e in p.events if e.kind == "loop"]
        okb = okb and g == [(can_bump, True)] and len(st) == 1 and mir.strip(st[0].a) == T("index", pos, i) \
            and st[0].b == T("binop", "Add", T("index", pos, i), T("const", T("int", 1, "usize"))) and len(lps) == 1
        if okb:
            il2 = ktloops.index_loop(b, lps[0])
            L2 = il2.elem[1][1] if il2.elem else None
            rng = None
            for q in il2.cont_paths + il2.exh_paths:
                for e in q.events:
                    if e.kind == "guard" and isinstance(e.a, tuple) and e.a[0] == "variantof" and isinstance(e.a[1], tuple) and e.a[1][0] == "next":
                        rng = e.a[1][1][1]
            j = T("elem", T("iter", rng, "fwd"), lps[0]) if rng else None
            okz = (isinstance(rng, tuple) and rng[0] == "agg" and rng[1] == "std::ops::Range" and const_int(rng[3][0]) == 0 and rng[3][1] == i
                   and bool(il2.exh_paths) and not il2.break_paths and len(il2.cont_paths) == 1)
            if okz:
                q = il2.cont_paths[0]
                st2 = [e for e in q.events if e.kind == "store"]
                okz = len(st2) == 1 and isinstance(st2[0].a, tuple) and st2[0].a[0] == "index" and mir.strip(st2[0].a[1]) == pos and isinstance(st2[0].a[2], tuple) \
                    and st2[0].a[2][0] == "elem" and st2[0].a[2][1] == T("iter", rng, "fwd") and const_int(st2[0].b) == 0 and not _data_guards(q)
            okb = okb and okz
    ck.ob("C13-S10", nx, "first-digit-below-its-maximum:incremented-by-one,all-earlier-digits-reset-to-0,scan-stops", okb)
    # function level: what is returned, and when the iterator ends
    kinds = set()
    okf = True
    for p in mir.walk_function(b):
        if p.outcome[0] != "return":
            continue
        d = [e.b for e in p.events if e.kind == "guard" and e.a == done]
        r = p.outcome[1]
        if d == [True]:
            kinds.add("ended")
            okf = okf and isinstance(r, tuple) and r[0] == "agg" and r[2] == "None" and not [e for e in p.events if e.kind == "store"]
        elif d == [False]:
            cl = [k for k, e in enumerate(p.events) if e.kind == "call" and method_name(e.a) == "clone" and mir.strip(e.b[0]) == pos]
            first_store = [k for k, e in enumerate(p.events) if e.kind == "store" or e.kind == "loop"]
            ok_ret = (isinstance(r, tuple) and r[0] == "agg" and r[2] == "Some" and r[3][0] == T("clone", pos) and len(cl) == 1
                      and (not first_store or cl[0] < first_store[0]))
            ex = [e for e in p.events if e.kind == "loopexit" and e.a == h]
            exh = b.exhaustion_exit(h)
            dn = [e for e in p.events if e.kind == "store" and mir.strip(e.a) == done]
            if ex and exh and ex[0].b == exh[1]:
                kinds.add("last")
                okf = okf and ok_ret and len(dn) == 1 and const_int(dn[0].b) == 1
            else:
                kinds.add("bumped")
                okf = okf and ok_ret and not dn
        else:
            okf = False
    ck.ob("C13-S10", nx, "returns-the-vector-as-it-was-BEFORE-the-step;ends-after-the-vector-in-which-no-digit-could-be-bumped", okf and kinds == {"ended", "last", "bumped"},
          detail=str(sorted(kinds)))
    # the constructor: all digits 0, not ended
    new = ctx.body([p for p in ctx.F.bodies if p.startswith("fancy_layout_interpreting::MultiplyIter::<") and p.endswith("::new")][0])
    q0 = T("param", 1, new.dbg.get(1, ""))
    okn = False
    lp = sorted(new.loops())
    rets = [p for p in mir.walk_function(new) if p.outcome[0] == "return"]
    if len(lp) == 1 and len(rets) == 1:
        iln = ktloops.index_loop(new, lp[0])
        r = rets[0].outcome[1]
        f = dict(zip(r[4], r[3])) if isinstance(r, tuple) and r[0] == "agg" and len(r) > 4 else {}
        okn = (iln.kind == "for-range" and iln.list_term == q0 and iln.complete and not iln.break_paths and len(iln.cont_paths) == 1
               and f.get("quantities") == q0 and const_int(f.get("done")) == 0 and isinstance(f.get("position"), tuple) and f["position"][0] == "call" and method_name(f["position"][1]) == "new")
        if okn:
            pu = _calls(iln.cont_paths[0], method="push")
            okn = len(pu) == 1 and mir.strip(pu[0][1].b[0]) == f["position"] and const_int(pu[0][1].b[1]) == 0 and not _data_guards(iln.cont_paths[0])
    ck.ob("C13-S10", new.path, "starts-at-the-all-zero-vector-with-one-digit-per-quantity,not-ended", okn)
    # wrappers
    itc = ctx.body(FLI + "iterate_combinations")
    ia = T("param", 1, itc.dbg.get(1, ""))
    rets = [p for p in mir.walk_function(itc) if p.outcome[0] == "return"]
    okw = False
    if len(rets) == 1:
        r = rets[0].outcome[1]
        f = dict(zip(r[4], r[3])) if isinstance(r, tuple) and r[0] == "agg" and len(r) > 4 else {}
        c = f.get("combinations")
        okw = f.get("iterable") == ia and isinstance(c, tuple) and c[0] == "call" and c[1] == FLI + "multiply" and mir.strip(c[2][0]) == T("field", ia, "alias_quantities")
    ck.ob("C13-S10", itc.path, "combinations==the-counter-over-the-aliases'-definition-counts", okw)
    mu = ctx.body(FLI + "multiply")
    rets = [p for p in mir.walk_function(mu) if p.outcome[0] == "return"]
    okm = len(rets) == 1 and isinstance(rets[0].outcome[1], tuple) and rets[0].outcome[1][0] == "call" and rets[0].outcome[1][1] == new.path \
        and rets[0].outcome[1][2] == (T("param", 1, mu.dbg.get(1, "")),)
    ck.ob("C13-S10", mu.path, "multiply==MultiplyIter::new", okm)
    an = ctx.body("<fancy_layout_interpreting::AliasCombinationIterator<'s, 't> as std::iter::Iterator>::next")
    sa = T("param", 1, an.dbg.get(1, ""))
    oka = True
    seen = set()
    for p in mir.walk_function(an):
        if p.outcome[0] != "return":
            continue
        r = p.outcome[1]
        v = [e.b for e in p.events if e.kind == "guard" and isinstance(e.a, tuple) and e.a[0] == "variantof" and isinstance(e.a[1], tuple) and e.a[1][0] == "try"]
        if not v:
            # (`self.combinations.next()?` is read by the walker as the match on the Option it abbreviates)
            v = [{"Some": "Continue", "None": "Break"}.get(e.b, e.b) for e in p.events if e.kind == "guard" and isinstance(e.a, tuple) and e.a[0] == "variantof"
                 and isinstance(e.a[1], tuple) and e.a[1][0] == "next" and mir.strip(e.a[1][1]) in (T("field", sa, "combinations"), T("iter", T("field", sa, "combinations"), "fwd"))]
        if v == ["Continue"]:
            seen.add("some")
            inner_ = r[3][0] if isinstance(r, tuple) and r[0] == "agg" and r[2] == "Some" else None
            f = dict(zip(inner_[4], inner_[3])) if isinstance(inner_, tuple) and inner_[0] == "agg" and len(inner_) > 4 else {}
            t = f.get("tuple")
            from_counter = (isinstance(t, tuple) and t[0] == "okval" and isinstance(t[1], tuple) and t[1][0] == "next" and mir.strip(t[1][1]) == T("field", sa, "combinations")) \
                or (isinstance(t, tuple) and t[0] == "elem" and mir.strip(t[1]) in (T("field", sa, "combinations"), T("iter", T("field", sa, "combinations"), "fwd")))
            oka = oka and mir.strip(f.get("it")) == T("field", sa, "iterable") and from_counter
        elif v == ["Break"]:
            seen.add("end")
            oka = oka and isinstance(r, tuple) and (r[0] == "from_residual" or (r[0] == "agg" and r[2] == "None"))
        else:
            oka = False
    ck.ob("C13-S10", an.path, "one-AliasCombination-per-digit-vector,ending-when-the-counter-ends", oka and seen == {"some", "end"})


def s11_dispatch(ctx, ck):
    fn = FLI + "convert_mapping"
    b = ctx.body(fn)
    amaps, m = T("param", 1, b.dbg.get(1, "")), T("param", 2, b.dbg.get(2, ""))
    seen = {}
    for p in mir.walk_function(b):
        if p.outcome[0] != "return":
            continue
        v = _variant_guard(p, lambda t: mir.strip(t) == m)
        r = p.outcome[1]
        if isinstance(r, tuple) and r[0] == "agg" and r[2] == "Ok":
            r = r[3][0]
        seen[v] = r
    pay = lambda v: T("field", T("variant", m, v), "0")
    ok = (set(seen) == {"Alias", "Single", "Row", "RepeatOnlySingle"}
          and seen["Single"] == T("call", FLI + "convert_single", (amaps, pay("Single")), seen["Single"][3] if isinstance(seen["Single"], tuple) and len(seen["Single"]) > 3 else None)
          and seen["Row"][:3] == ("call", FLI + "convert_row", (amaps, pay("Row")))
          and seen["Alias"][:3] == ("call", FLI + "convert_alias", (pay("Alias"),))
          and isinstance(seen["RepeatOnlySingle"], tuple) and seen["RepeatOnlySingle"][0] == "call" and method_name(seen["RepeatOnlySingle"][1]) == "new")
    ck.ob("C13-S11", fn, "each-kind-of-source-mapping-goes-to-its-own-converter;repeat-only-entries-produce-nothing-here", ok, detail=str(sorted(map(str, seen))))
    # the helper convert_alias asks: true exactly for a one-element list whose element is a modifier
    hj = FLI + "is_just_one_modifier"
    if ctx.has_body(hj):
        hb = ctx.body(hj)
        ks = T("param", 1, hb.dbg.get(1, ""))
        rows = {}
        okh = True
        for p in mir.walk_function(hb):
            if p.outcome[0] != "return":
                continue
            one = [e.b for e in p.events if e.kind == "guard" and Walker._eq_const(e.a) is not None and mir.strip(Walker._eq_const(e.a)[0]) == T("len", ks) and Walker._eq_const(e.a)[1] == 1]
            r = p.outcome[1]
            if one == [True]:
                rows["one"] = (isinstance(r, tuple) and r[0] == "call" and r[1] == FLI + "is_modifier" and isinstance(mir.strip(r[2][0]), tuple) and mir.strip(r[2][0])[0] == "index"
                               and mir.strip(mir.strip(r[2][0])[1]) == ks and const_int(mir.strip(r[2][0])[2]) == 0)
            elif one == [False]:
                rows["other"] = const_int(r) == 0
            else:
                okh = False
        ck.ob("C13-S11", hj, "true-exactly-for-a-single-modifier", okh and rows == {"one": True, "other": True}, detail=str(rows))
    fa = FLI + "convert_alias"
    ab = ctx.body(fa)
    al = T("param", 1, ab.dbg.get(1, ""))
    okA = True
    kinds = set()
    for p in mir.walk_function(ab):
        if p.outcome[0] != "return":
            continue
        g = [e.b for e in p.events if e.kind == "guard" and isinstance(e.a, tuple) and e.a[0] == "call" and e.a[1] == FLI + "is_just_one_modifier"
             and mir.strip(e.a[2][0]) == T("field", T("field", al, "from"), "keys")]
        if not g:
            # the same test written out in place:  keys.len() == 1 && is_modifier(&keys[0])   (also as a slice pattern
            # `[k] if is_modifier(k)`)
            keys_ = T("field", T("field", al, "from"), "keys")
            one = [e.b for e in p.events if e.kind == "guard" and Walker._eq_const(e.a) is not None and mir.strip(Walker._eq_const(e.a)[0]) == T("len", keys_) and Walker._eq_const(e.a)[1] == 1]
            mod = [e.b for e in p.events if e.kind == "guard" and isinstance(e.a, tuple) and e.a[0] == "call" and e.a[1] == FLI + "is_modifier"
                   and isinstance(mir.strip(e.a[2][0]), tuple) and mir.strip(e.a[2][0])[0] == "index" and mir.strip(mir.strip(e.a[2][0])[1]) == keys_
                   and const_int(mir.strip(e.a[2][0])[2]) == 0]
            if one == [True] and mod == [True]:
                g = [True]
            elif one == [False] and not mod:
                g = [False]
            elif one == [True] and mod == [False]:
                g = [False]
        maps = [s_ for e in p.events for t in (e.a, e.b) if isinstance(t, tuple) for s_ in subterms(t)
                if isinstance(s_, tuple) and len(s_) > 4 and s_[0] == "agg" and s_[1] == "keys::Mapping"]
        if g == [True]:
            kinds.add("modifier-alias")
            okA = okA and not maps and isinstance(p.outcome[1], tuple) and p.outcome[1][0] == "call" and method_name(p.outcome[1][1]) == "new"
        elif g == [False]:
            kinds.add("chord-alias")
            if len({m_ for m_ in maps}) != 1:
                okA = False
                continue
            f = dict(zip(maps[0][4], maps[0][3]))
            okA = okA and f.get("from") == T("clone", T("field", T("field", al, "from"), "keys")) and f.get("to") == T("clone", T("field", T("field", al, "to"), "initial")) \
                and isinstance(f.get("repeat"), tuple) and f["repeat"][2] == "Normal" and isinstance(f.get("absorbing"), tuple) and f["absorbing"][0] == "call" and method_name(f["absorbing"][1]) == "new"
        else:
            okA = False
    ck.ob("C13-S11", fa, "alias-definition:a-single-modifier-produces-no-mapping,anything-else-one-plain-mapping(from->to,Normal,no-absorbing)", okA and kinds == {"modifier-alias", "chord-alias"},
          detail=str(sorted(kinds)))
