"""C10 — event-loop output is independent of how input events are chunked.

Decided on the anchor/segment abstraction of the per-device loop (tmv/loopseg.py): every execution is a
concatenation of segments, so a rule true of every segment is true of every delivery schedule.
"""
from .. import mir, loopseg
from ..loopseg import LoopModel, Roles, Trace, payload_kind, DRV, STEP, RELALL, LOOP
from ..mir import T, show, mentions

LEVEL = "other"
META = {
    "technique": "MIR segment graph of the per-device loop: reachability/must-pass-through rules per segment (drain, exactly-once send, payload provenance, end-of-device)",
    "level_text": ("Structural proof that the loop drains each notified device until Busy before it can poll again or move "
                   "on, steps every event it reads exactly once (outside tablet mode), sends each non-empty step result "
                   "exactly once before the next read, sends nothing else, and returns without writes at end of device. "
                   "Chunking only selects which segments are concatenated, so the rules cover every schedule."),
    "level_note": ("Trusted: rustc MIR, tmfacts, the path walker. Not decided: that RealDriver reports Busy exactly on EAGAIN "
                   "is the conversion table of C20-R3; the kernel's edge-trigger semantics are outside the program; the "
                   "mapper's own outputs are C01..C09/C19."),
}

# --- additions to the level description (rules added after the first version)
META['level_text'] += " R7 (below the Driver trait): RealDriver reports Busy only on the reader's Err(Sys(EAGAIN)), and the two readers return no error other than the read() call's own."
META["level_note"] = "Trusted: rustc MIR, tmfacts, the path walker. The kernel's edge-trigger semantics are outside the program; the mapper's own outputs are C01..C09/C19."
META["technique"] += '; error-provenance rule below the Driver trait (Busy only on EAGAIN from read())'
META['level_text'] += ' R10: open_device opens both readers with nonblock=true and that flag means O_NONBLOCK (the read-until-Busy protocol needs reads that return).'
# --- end additions


def run(ctx):
    ck = ctx.check
    ck.explanation = (
        "The per-device loop is cut at its anchors (POLL, NEXT_KB, NEXT_TAB, the device-list iterator, RETURN); all "
        "acyclic paths between anchors are enumerated with uninterpreted terms (%s). Rules R1-R6 of DESIGN.md C10 are "
        "checked on every segment.")
    ck.rule_text = "one obligation per (rule, segment class); segment classes are keyed by source anchor and the variant of the value just read"
    ck.trusted_base = ["rustc front end + MIR builder", "tmfacts exporter", "tmv path walker / segment model"]
    M = LoopModel(ctx)
    R = Roles(M)
    ck.analysed["segments"] = len(M.segments)
    ck.analysed["anchors"] = sorted(M.by_name)
    ck.explanation = ck.explanation % ("%d segments on this tree" % len(M.segments))
    fn = LOOP
    cyc = [s for s in M.segments if s.dst.startswith("?")]
    ck.ob("C10-model", fn, "all-cycles-pass-an-anchor", not cyc,
          detail=None if not cyc else "segment from %s ends in %s" % (cyc[0].src, cyc[0].outcome,))

    # ---- R1 drain, R5 end-of-device, R1b Busy
    for nm, method in (("NEXT_KB", "next_keyboard"), ("NEXT_TAB", "next_tablet")):
        segs = M.from_(nm)
        seen = set()
        for s in segs:
            v, Rt = LoopModel.result_variant(s, method)
            tr = Trace(s, R)
            seen.add(v)
            if v is None:
                ck.ob("C10-R1", fn, "%s:result-inspected" % nm, False, detail="a path leaves %s without matching on its result" % nm)
                continue
            if v == "ERR":
                continue  # C20
            if v == "One":
                ok = s.dst == nm or (s.dst == "RETURN" and s.outcome[1][0] == "from_residual")
                ck.ob("C10-R1", fn, "%s:One->reads-again" % nm, ok,
                      detail=None if ok else "after reading an event the loop can reach %s without another %s" % (s.dst, nm),
                      witness={"blocks": s.p.blocks[-6:]})
            elif v == "Busy":
                quiet = not (tr.of("SEND") or tr.of("STEP") or tr.of("RELALL") or tr.of("SETFLAG") or tr.of("SETTIMER"))
                ok = s.dst == "DEVNEXT" and quiet
                ck.ob("C10-R2", fn, "%s:Busy->next-notified-device" % nm, ok,
                      detail=None if ok else "Busy leads to %s (quiet=%s); remaining notified devices could be skipped" % (s.dst, quiet))
            elif v == "End":
                quiet = not (tr.of("SEND") or tr.of("STEP") or tr.of("RELALL"))
                ret_ok = s.dst == "RETURN" and s.outcome[1][0] == "agg" and s.outcome[1][2] == "Ok"
                ck.ob("C10-R5", fn, "%s:End->return-Ok-without-writes" % nm, ret_ok and quiet,
                      detail=None if (ret_ok and quiet) else "End leads to %s, quiet=%s" % (s.dst, quiet))
            else:
                ck.ob("C10-R1", fn, "%s:unknown-variant:%s" % (nm, v), False)
        for need in ("One", "Busy", "End"):
            ck.ob("C10-R1", fn, "%s:handles-%s" % (nm, need), need in seen)

    # ---- R2 all notified devices
    for s in M.from_("DEVNEXT"):
        nxt = None
        dev = None
        for e in s.events:
            if e.kind == "guard" and isinstance(e.a, tuple) and e.a[0] == "variantof":
                if isinstance(e.a[1], tuple) and e.a[1][0] == "next":
                    nxt = e.b
                elif isinstance(e.a[1], tuple) and e.a[1][0] == "elem":
                    dev = e.b
        tr = Trace(s, R)
        quiet = not (tr.of("SEND") or tr.of("STEP") or tr.of("RELALL"))
        if nxt == "Some":
            want = {"Keyboard": "NEXT_KB", "Tablet": "NEXT_TAB"}.get(dev)
            ok = want is not None and s.dst == want and quiet
            ck.ob("C10-R2", fn, "DEVNEXT:Some(%s)->%s" % (dev, want), ok,
                  detail=None if ok else "notified device %s leads to %s" % (dev, s.dst))
        elif nxt == "None":
            ok = s.dst == "POLL" and quiet
            ck.ob("C10-R2", fn, "DEVNEXT:None->POLL", ok, detail=None if ok else "exhausted device list leads to %s" % s.dst)
        else:
            ck.ob("C10-R2", fn, "DEVNEXT:shape", False, detail="iterator result not matched")
    for s in M.from_("POLL"):
        v, Rt = LoopModel.result_variant(s, "poll")
        if v == "DeviceEvent":
            ok = s.dst == "DEVNEXT"
            ck.ob("C10-R2", fn, "POLL:DeviceEvent->device-list", ok, detail=None if ok else "leads to %s" % s.dst)

    # ---- R3 exactly-once, R4 payloads (all segments)
    nstep = 0
    nsend = 0
    for s in M.segments:
        tr = Trace(s, R)
        steps = tr.of("STEP")
        sends = tr.of("SEND")
        for it in sends:
            nsend += 1
            kind, src = payload_kind(M, it[1])
            ck.ob("C10-R4", fn, "send-payload:%s@%s" % (kind, s.src), kind in ("STEP", "RELALL", "CHORD"),
                  detail=None if kind != "OTHER" else "payload %s" % show(src)[:160])
        v = None
        if s.src == "NEXT_KB":
            v, Rt = LoopModel.result_variant(s, "next_keyboard")
        if s.src == "NEXT_KB" and v == "One":
            flag_at_start = None
            for e in s.events:
                # (a copy of the flag taken earlier counts as "the flag was consulted": whether the copy is still
                # current is tablet-mode behaviour, C12-R1, which this property sets aside)
                pol = R.flag_view(e.a) if e.kind == "guard" and isinstance(e.b, bool) else None
                if pol:
                    flag_at_start = e.b if pol == 1 else (not e.b)
                    break
            if flag_at_start is False:
                # every event read outside tablet mode is stepped exactly once, with itself as argument
                arg_ok = False
                if len(steps) == 1:
                    a = steps[0][1].b
                    payload = T("field", T("variant", LoopModel.ok_base(s, Rt), "One"), "0")
                    arg_ok = len(a) == 2 and a[1] == payload
                ck.ob("C10-R3", fn, "NEXT_KB:One:stepped-exactly-once", len(steps) == 1 and arg_ok,
                      detail=None if (len(steps) == 1 and arg_ok) else "%d STEP calls, argument is the event read: %s" % (len(steps), arg_ok))
            elif flag_at_start is None:
                ck.ob("C10-R3", fn, "NEXT_KB:One:flag-tested", False, detail="no test of the tablet flag before handling the event")
        else:
            if steps:
                ck.ob("C10-R3", fn, "STEP-only-after-keyboard-read@%s" % s.src, False, detail="Mapper::step called in a segment from %s" % s.src)
        for st in steps:
            nstep += 1
            stepcall = st[1].c
            evs = T("field", stepcall, "events")
            idx = s.events.index(st[1])
            after = s.events[idx + 1:]
            my_sends = [e for e in after if e.kind == "call" and e.a == DRV + "send" and len(e.b) > 1 and e.b[1] == evs]
            empty_true = any(e.kind == "guard" and e.a == T("empty", evs) and e.b is True for e in after)
            tested = any(e.kind == "guard" and e.a == T("empty", evs) for e in after)
            errored = s.dst == "RETURN"
            if empty_true:
                ok = len(my_sends) == 0
                ck.ob("C10-R3", fn, "step-result:empty->no-send", ok)
            else:
                ok = len(my_sends) == 1
                ck.ob("C10-R3", fn, "step-result:non-empty->sent-exactly-once", ok,
                      detail=None if ok else "%d sends of this step's events before the next read (tested empty: %s)" % (len(my_sends), tested))
            other_sends = [e for e in after if e.kind == "call" and e.a == DRV + "send" and e not in my_sends]
            ck.ob("C10-R3", fn, "step-segment:no-foreign-send", not other_sends)
    ck.floor("C10-R3", "step-sites-on-segments", nstep, 1)
    ck.floor("C10-R4", "send-events-on-segments", nsend, 2)

    # ---- R6 time-out while idle and interruption: back to POLL silently
    for s in M.from_("POLL"):
        v, Rt = LoopModel.result_variant(s, "poll")
        tr = Trace(s, R)
        if v == "Interrupted":
            quiet = not (tr.of("SEND") or tr.of("STEP") or tr.of("RELALL") or tr.of("SETTIMER") or tr.of("SETFLAG"))
            ck.ob("C10-R6", fn, "POLL:Interrupted->POLL-silently", s.dst == "POLL" and quiet,
                  detail=None if (s.dst == "POLL" and quiet) else "dst %s quiet %s" % (s.dst, quiet))
        elif v == "TimedOut":
            st = tr.timer_state(R.var0(R.timer))
            if st == "Idle":
                # (`timer = match timer { Idle => Idle, .. }` writes Idle over Idle: not a change)
                real_sets = [it for it in tr.of("SETTIMER") if tr.timer_state(it[3]) != "Idle"]
                quiet = not (tr.of("SEND") or tr.of("STEP") or tr.of("RELALL") or real_sets or tr.of("SETFLAG"))
                ck.ob("C10-R6", fn, "POLL:TimedOut+Idle->POLL-silently", s.dst == "POLL" and quiet,
                      detail=None if (s.dst == "POLL" and quiet) else "dst %s quiet %s" % (s.dst, quiet))
            if tr.of("STEP") or tr.of("RELALL"):
                ck.ob("C10-R6", fn, "POLL:TimedOut:no-step", False)

    # ---- R7 below the Driver trait: `Busy` (= "nothing more to read, go back to waiting") is said only when the
    # kernel itself answered EAGAIN to a read().  (a) RealDriver builds Next::Busy only on the Err(Sys(EAGAIN)) arm of
    # the reader's result; (b) the readers return an Err only if it is the read() call's own error (never a made-up one)
    adapters = {"next_keyboard": "<remapping_loop::RealDriver as remapping_loop::Driver>::next_keyboard",
                "next_tablet": "<remapping_loop::RealDriver as remapping_loop::Driver>::next_tablet"}
    readers = set()
    nbusy = 0
    for nm, path in sorted(adapters.items()):
        b = ctx.body(path)
        for i, name, t in b.calls():
            if mir.method_name(name) == "next" and ("Reader" in name):
                readers.add(name)
        for p in mir.walk_function(b):
            if p.outcome[0] != "return":
                continue
            ret = p.outcome[1]
            busy = [s_ for s_ in mir.subterms(ret) if isinstance(s_, tuple) and len(s_) > 2 and s_[0] == "agg" and s_[1].endswith("remapping_loop::Next") and s_[2] == "Busy"]
            if not busy:
                continue
            nbusy += 1
            gs = [(e.a, e.b) for e in p.events if e.kind == "guard"]
            from_reader = [a for a, v in gs if isinstance(a, tuple) and a[0] == "variantof" and v == "Err" and isinstance(a[1], tuple) and a[1][0] == "call"
                           and mir.method_name(a[1][1]) == "next" and "Reader" in a[1][1]]
            eagain = [v for a, v in gs if isinstance(v, str) and v == "EAGAIN"]
            sys_ = [v for a, v in gs if isinstance(v, str) and v == "Sys"]
            ok = bool(from_reader) and bool(eagain) and bool(sys_)
            ck.ob("C10-R7", path, "Busy-only-on-the-reader's-Err(Sys(EAGAIN))", ok,
                  detail=None if ok else "Next::Busy returned under guards %s" % [(show(a)[:50], v) for a, v in gs][:5])
    ck.floor("C10-R7", "Busy-returning-paths", nbusy, 1)
    ck.ob("C10-R7", "-", "readers-behind-the-adapters", len(readers) == 2, detail=str(sorted(readers)))
    from .c20 import _is_err_of
    for rd in sorted(readers):
        b = ctx.body(rd)
        segs = [mir.walk_function(b)] + [mir.Walker(b).walk(h, start_is_header=True) for h in sorted(b.loops())]
        nerr = 0
        for paths in segs:
            for p in paths:
                if p.outcome[0] != "return" or any(e.kind == "loop" for e in p.events):
                    continue   # (returns from inside a summarised loop are analysed on that loop's own paths)
                ret = p.outcome[1]
                is_err = isinstance(ret, tuple) and ret and (ret[0] == "from_residual" or (ret[0] == "agg" and len(ret) > 2 and ret[2] == "Err"))
                if not is_err:
                    continue
                nerr += 1
                reads = [e.c for e in p.events if e.kind == "call" and e.a == "nix::unistd::read"]
                ok = bool(reads) and _is_err_of(ret, reads[-1])
                ck.ob("C10-R7", rd, "every-Err-the-reader-returns-is-the-read()-call's-own-error", ok, site=p.events[-1].span if p.events else None,
                      detail=None if ok else "the reader returns %s, which does not derive from the result of read()" % show(ret)[:100])
        ck.floor("C10-R7", "reader-error-returns:" + rd.rsplit("::", 2)[-2], nerr, 1)

    # ---- R8 the poll adapter: every readiness event of the keyboard (the switch) becomes one Device::Keyboard
    # (Device::Tablet) entry, decided by the event's token alone -- a hang-up or error wake-up carries no READABLE
    # bit but must still lead to a read, which is where ENODEV is seen
    pl = "<remapping_loop::RealDriver as remapping_loop::Driver>::poll"
    rp = "<remapping_loop::RealDriver as remapping_loop::Driver>::register_poll"
    b = ctx.body(pl)
    me = T("param", 1, b.dbg.get(1, ""))
    from .. import ktloops
    lps = sorted(b.loops())
    ok_shape = len(lps) == 1
    tokens = {}
    if ok_shape:
        il = ktloops.index_loop(b, lps[0])
        src = il.list_term
        ok_iter = (il.kind == "for-elements" and il.complete and not il.break_paths and isinstance(src, tuple) and src[0] == "call" and mir.method_name(src[1]) == "iter"
                   and "Events" in src[1])
        ck.ob("C10-R8", pl, "every-readiness-event-of-the-wake-up-is-looked-at", ok_iter, detail=show(src)[:80] if src else None)
        ev = il.elem
        tok = T("call", "mio::event::Event::token", (ev,), None)
        for p in il.cont_paths:
            gs = [(e.a, e.b) for e in p.events if e.kind == "guard" and not (isinstance(e.a, tuple) and e.a[0] == "variantof" and isinstance(e.a[1], tuple) and e.a[1][0] == "next")]
            pushes = [e for e in p.events if e.kind == "call" and mir.method_name(e.a) == "push"]
            only_token = all(isinstance(a, tuple) and any(isinstance(s_, tuple) and s_[:2] == ("call", "mio::event::Event::token") for s_ in mir.subterms(a)) for a, v in gs)
            ck.ob("C10-R8", pl, "an-event-is-classified-by-its-token-alone", only_token and len(gs) == 1,
                  detail=None if (only_token and len(gs) == 1) else "conditions: %s" % [(show(a)[:50], v) for a, v in gs][:3])
            if gs and isinstance(gs[0][1], int) and not isinstance(gs[0][1], bool):
                dev = pushes[0].b[1][2] if len(pushes) == 1 and isinstance(pushes[0].b[1], tuple) and pushes[0].b[1][0] == "agg" else None
                tokens[gs[0][1]] = dev
                ck.ob("C10-R8", pl, "a-known-token-yields-exactly-one-device-entry", len(pushes) == 1 and dev in ("Keyboard", "Tablet"))
            else:
                ck.ob("C10-R8", pl, "an-unknown-token-yields-nothing", not pushes)
    if not ok_shape and not lps:
        # registry.events.iter().filter_map(|event| match event.token() { KEYBOARD => Some(..), .. => None }).collect()
        fm = None
        for p in mir.walk_function(b):
            for e in p.events:
                if e.kind == "call" and mir.method_name(e.a) == "collect" and isinstance(e.b[0], tuple) and e.b[0][0] == "call" and mir.method_name(e.b[0][1]) == "filter_map":
                    fm = e.b[0]
        if fm is not None and isinstance(fm[2][0], tuple) and (fm[2][0][0] == "iter" or (fm[2][0][0] == "call" and mir.method_name(fm[2][0][1]) == "iter")) \
                and "Events" in show(fm[2][0]) and isinstance(fm[2][1], tuple) and fm[2][1][0] == "closure":
            ok_shape = True
            ck.ob("C10-R8", pl, "every-readiness-event-of-the-wake-up-is-looked-at", True, detail=show(fm[2][0])[:80])
            evt = T("fmelem", fm[2][0])
            cps, cb = mir.walk_closure(ctx.body, fm[2][1], param_terms=[evt])
            for q in cps:
                if q.outcome[0] != "return":
                    continue
                gs = [(e.a, e.b) for e in q.events if e.kind == "guard"]
                only_token = all(isinstance(a, tuple) and any(isinstance(s_, tuple) and s_[:2] == ("call", "mio::event::Event::token") for s_ in mir.subterms(a)) for a, v in gs)
                ck.ob("C10-R8", pl, "an-event-is-classified-by-its-token-alone", only_token and len(gs) == 1,
                      detail=None if (only_token and len(gs) == 1) else "conditions: %s" % [(show(a)[:50], v) for a, v in gs][:3])
                r = q.outcome[1]
                dev = None
                if isinstance(r, tuple) and r[0] == "agg" and r[2] == "Some" and isinstance(r[3][0], tuple) and r[3][0][0] == "agg":
                    dev = r[3][0][2]
                if gs and isinstance(gs[0][1], int) and not isinstance(gs[0][1], bool):
                    tokens[gs[0][1]] = dev
                    ck.ob("C10-R8", pl, "a-known-token-yields-exactly-one-device-entry", dev in ("Keyboard", "Tablet"))
                else:
                    ck.ob("C10-R8", pl, "an-unknown-token-yields-nothing", isinstance(r, tuple) and r[0] == "agg" and r[2] == "None")
    ck.ob("C10-R8", pl, "one-loop-over-the-events", ok_shape)
    # registration uses the same tokens for the same descriptors
    rb = ctx.body(rp)
    reg = {}
    for p in mir.walk_function(rb):
        for e in p.events:
            if e.kind == "call" and mir.method_name(e.a) == "register" and len(e.b) >= 3:
                fd = show(e.b[1])
                tk = e.b[2]
                if isinstance(tk, tuple) and tk and tk[0] == "const" and isinstance(tk[1], tuple):
                    tk = tk[1]
                tokv = mir.const_int(e.b[2])
                if tokv is None and isinstance(tk, tuple) and tk and tk[0] == "val" and len(tk) > 2 and isinstance(tk[2], int):
                    tokv = tk[2]
                reg[tokv] = "Keyboard" if ".rw.r.fd" in fd else ("Tablet" if ".rw.t" in fd else fd[:40])
    ck.ob("C10-R8", rp, "tokens-registered-for-the-keyboard-and-the-switch-are-the-ones-poll-maps-back", reg == tokens and set(reg.values()) == {"Keyboard", "Tablet"},
          detail="registered %s, mapped back %s" % (reg, tokens))
    # the wake-up is reported as DeviceEvent exactly when some device entry was produced
    kinds = {}
    for p in mir.walk_function(b):
        if p.outcome[0] != "return" or not (any(e.kind == "loop" for e in p.events) or any(e.kind == "call" and mir.method_name(e.a) == "collect" for e in p.events)):
            continue
        emp = [e.b for e in p.events if e.kind == "guard" and isinstance(e.a, tuple) and e.a[0] == "empty"]
        r = p.outcome[1]
        v = r[3][0][2] if isinstance(r, tuple) and r[0] == "agg" and r[2] == "Ok" and isinstance(r[3][0], tuple) and r[3][0][0] == "agg" else None
        kinds[tuple(emp)] = v
    ck.ob("C10-R8", pl, "DeviceEvent-iff-some-device-entry", kinds == {(False,): "DeviceEvent", (True,): "TimedOut"}, detail=str(kinds))

    # ---- R9 the device queues are read only by the two read adapters: anything else that pulls records off a reader
    # (a drain at registration time, a peek) takes events away from the loop
    callers = {}
    for pth in sorted(ctx.F.bodies):
        if "::tests::" in pth or "::tests" in pth.split("::{closure")[0].split("::")[-2:-1]:
            continue
        for i, name, t in ctx.body(pth).calls():
            if name in readers:
                callers.setdefault(name, set()).add(pth.split("::{closure")[0])
    allowed = set(adapters.values()) | {"main", "monitor_utils::do_monitor", "monitor_utils::monitor"}
    for rd in sorted(readers):
        cs = callers.get(rd, set())
        extra = sorted(c for c in cs if c not in allowed and not c.startswith("monitor") and "exclusion" not in c and not c.startswith("dev_input_rw::do_exclusion_loop"))
        ck.ob("C10-R9", rd, "read-only-by-its-Driver-adapter(and-the-stand-alone-monitor-command)", not extra, detail=str(sorted(cs)))

    # ---- R10 the loop's "read until Busy, then poll again" protocol needs reads that return instead of waiting: both
    # readers are opened O_NONBLOCK by open_device (a blocking read would park the loop inside next_keyboard/next_tablet
    # after the last pending event -- no poll, no timer tick, no tablet event until the next key)
    od = ctx.body("remapping_loop::open_device")
    n_open = 0
    for opener in ("dev_input_rw::DevInputReader::open", "tablet_mode_switch_reader::TabletModeSwitchReader::open"):
        # (the call may sit in a closure of open_device:  path.as_ref().map(|p| Reader::open(p, true)) )
        calls = [(od, i, t) for i, name, t in od.calls() if name == opener]
        for cb in ctx.closures_of(od.path):
            calls += [(cb, i, t) for i, name, t in cb.calls() if name == opener]
        for wb_, i, t in calls:
            n_open += 1
            last = mir.Evaluator(wb_, None).operand(t["args"][-1])
            ck.ob("C10-R10", od.path, "opens-%s-non-blocking" % opener.rsplit("::", 2)[-2], mir.const_int(last) == 1, site=t["span"]["line"],
                  detail=None if mir.const_int(last) == 1 else "nonblock argument is %s" % show(last)[:40])
        ob = ctx.body(opener)
        nb = None
        for j in range(1, ob.argc + 1):
            if ob.dbg.get(j) == "nonblock" or (ob.ltypes.get(j) == "bool" and j == ob.argc):
                nb = T("param", j, ob.dbg.get(j, ""))
        seen = {}
        for p in mir.walk_function(ob):
            opens = [e for e in p.events if e.kind == "call" and e.a.endswith("fcntl::open")]
            if not opens:
                continue
            g = [e.b for e in p.events if e.kind == "guard" and e.a == nb]
            flags = show(opens[0].b[1]) if len(opens[0].b) > 1 else ""
            if g:
                seen[g[0]] = "O_NONBLOCK" in flags or "2048" in flags
            elif nb is None:
                seen[True] = "O_NONBLOCK" in flags
        ck.ob("C10-R10", opener, "nonblock=true-means-O_NONBLOCK", seen.get(True) is True, detail=str(seen))
    ck.floor("C10-R10", "reader-open-sites-in-open_device", n_open, 2)

