"""C07 — a no-repeat mapping never leaves a repeatable key held."""
from .. import mir, kt, ktx
from ..kt import MOD, list_of, MODIFIERS
from ..mir import T, show, method_name

LEVEL = "other"
META = {
    "technique": "MIR must-pass-through on add_new_mapping (Disabled/Special arms -> release_all_action_keys, nothing that can press afterwards), closure decision tables of the sweep, may-press call-cone query for the release side",
    "level_text": ("Structural proof: from the Disabled and Special arms every path to return passes release_all_action_keys after "
                   "the press loop and nothing reachable afterwards can construct a Pressed event; the sweep's retain closures on "
                   "BOTH held lists remove exactly the keys for which is_action_key holds (whose false-set is exactly the eight "
                   "standard modifiers) and every removed key is emitted as Released; no function reachable from a release "
                   "constructs Pressed. With C19 (device state == the two lists) no non-modifier key is down after such a step "
                   "and none comes back on later releases."),
    "level_note": "Trusted: rustc MIR, tmfacts, walker; composition with C19 is a paper argument. 'Each output key was pressed during that step' is C03-R3.",
}

ANM = MOD + "add_new_mapping"
SWEEP = MOD + "release_all_action_keys"


def run(ctx):
    ck = ctx.check
    K = kt.KT(ctx)
    ck.rule_text = "one obligation per return-path class of add_new_mapping (by repeat arm), per retain closure of the sweep, per function in the release cone"
    ck.trusted_base = ["rustc front end + MIR builder", "tmfacts exporter", "tmv path walker"]
    anm = ctx.body(ANM)
    m = T("param", 3, anm.dbg.get(3, ""))
    mrep = T("field", m, "repeat")
    pressers = kt.may_press(ctx, [ANM])
    ck.analysed["functions_that_can_press"] = sorted(pressers)
    arms = set()
    for p in mir.walk_function(anm):
        if p.outcome[0] != "return":
            continue
        # which repeat modes can the firing mapping have on this path?  (a `match`, `matches!`, or several tests)
        poss = kt.variant_set(p.events, mrep, ("Normal", "Disabled", "Special"))
        if len(poss) == 3:
            ck.ob("C07-R1", ANM, "return-path-matches-on-repeat", False)
            continue
        arms |= poss
        if "Normal" in poss:
            if poss != {"Normal"}:
                ck.ob("C07-R1", ANM, "return-path-separates-Normal-from-the-no-repeat-modes", False, detail=str(sorted(poss)))
            continue
        arm = "/".join(sorted(poss))
        sweeps = [i for i, e in enumerate(p.events) if e.kind == "call" and e.a == SWEEP]
        ck.ob("C07-R1", ANM, "%s-arm:passes-release_all_action_keys" % arm, len(sweeps) >= 1,
              detail=None if sweeps else "a path on which the mapping's repeat mode is %s reaches return without the sweep" % arm)
        if not sweeps:
            continue
        before = p.events[:sweeps[-1]]
        # press loop before the sweep: a loop over m.to on the path prefix
        loops_before = [e for e in before if e.kind == "loop"]
        over_to = False
        for e in loops_before:
            el_paths = mir.walk_loop_only(anm, e.a)
            for q in el_paths:
                for ev in q.events:
                    if ev.kind == "guard" and isinstance(ev.a, tuple) and ev.a[0] == "variantof" and isinstance(ev.a[1], tuple) and ev.a[1][0] == "next":
                        it = ev.a[1][1]
                        if isinstance(it, tuple) and it[0] == "iter" and it[1] == T("field", m, "to"):
                            over_to = True
        ck.ob("C07-R1", ANM, "%s-arm:press-loop-over-outputs-comes-first" % arm, over_to)
        tail = p.events[sweeps[-1] + 1:]
        bad = [e for e in tail if (e.kind == "call" and (e.a in pressers or (method_name(e.a) == "push" and len(e.b) > 1 and kt.is_event_agg(e.b[1]) and e.b[1][2] == "Pressed"))) or e.kind == "loop"]
        ck.ob("C07-R1", ANM, "%s-arm:nothing-can-press-after-the-sweep" % arm, not bad,
              detail=None if not bad else "after the sweep the path reaches %s" % (bad[0],))
    ck.ob("C07-R1", ANM, "arms-present", arms >= {"Normal", "Disabled", "Special"}, detail=str(sorted(arms)))

    # ---- R2 sweep completeness
    sw = ctx.body(SWEEP)
    lists_swept = set()
    for fx in K.path_fx(sw):
        if fx.path.outcome[0] != "return":
            continue
        rets = [e for e in fx.effects if e.kind == "RETAIN" and e.lst in kt.HELD]
        here = set()
        for r in rets:
            here.add(r.lst)
            tab = {}
            okshape = True
            for sub, verdict in (r.sub or []):
                g = [(a, v) for a, v in sub.all_guards()]
                if not g and isinstance(verdict, tuple) and verdict[0] == "expr":
                    # the closure is a single boolean expression: keep == !is_action_key(k)  (or is_action_key(k) negated twice)
                    t_ = verdict[1]
                    neg = isinstance(t_, tuple) and t_[0] == "not"
                    a_ = t_[1] if neg else t_
                    if isinstance(a_, tuple) and a_[0] == "call" and a_[1] == MOD + "is_action_key" and a_[2] and isinstance(a_[2][0], tuple) and a_[2][0][0] == "retelem":
                        tab[True] = "remove" if neg else "keep"
                        tab[False] = "keep" if neg else "remove"
                    else:
                        okshape = False
                    continue
                act = [v for a, v in g if isinstance(a, tuple) and a[0] == "call" and a[1] == MOD + "is_action_key" and a[2] and isinstance(a[2][0], tuple) and a[2][0][0] == "retelem"]
                if len(g) != 1 or len(act) != 1 or verdict not in ("keep", "remove"):
                    okshape = False
                    continue
                tab[act[0]] = verdict
            ok = okshape and tab == {True: "remove", False: "keep"}
            ck.ob("C07-R2", SWEEP, "retain(%s):remove-iff-is_action_key" % r.lst, ok, detail=str(tab))
        ck.ob("C07-R2", SWEEP, "sweeps-both-held-lists", here == {"PT", "MO"}, detail=str(sorted(here)))
        lists_swept |= here
    A = ktx.Analysis(ctx, K)
    be = [t for t in A.txs if t.fn == SWEEP and t.kind == "BATCHEMIT"]
    feeds = {t.lists[0] for t in A.txs if t.fn == SWEEP and t.kind == "RETAIN->BATCH"}
    bulk = [t for t in A.txs if t.fn == SWEEP and t.kind == "BULKRELEASE"]
    via_batch = len({id(t.fx) for t in be}) >= 1 and all(t.guard_ok for t in be) and feeds == {"PT", "MO"}
    via_bulk = bool(bulk) and all(t.guard_ok for t in bulk) and all(set(t.lists) == {"PT", "MO"} for t in bulk)
    ck.ob("C07-R2", SWEEP, "every-swept-key-is-emitted-as-Released", via_batch or via_bulk,
          detail="feeds %s, %d batch emissions, %d bulk releases" % (sorted(feeds), len(be), len(bulk)))
    bad_tx = [t for t in A.txs if t.fn == SWEEP and not t.guard_ok]
    ck.ob("C07-R2", SWEEP, "sweep-obeys-the-transaction-discipline", not bad_tx and not [p for p in A.problems if p[0] == SWEEP])
    # is_action_key: false exactly on the eight modifiers
    tab = kt.bool_variant_table(ctx, MOD + "is_action_key")
    ok = tab is not None and tab[1] == MODIFIERS and not tab[0] and tab[2] is True
    ck.ob("C07-R2", MOD + "is_action_key", "false-exactly-on-the-eight-standard-modifiers", ok, detail=None if ok else str(tab))

    # ---- R3 nothing reachable from a release can press
    rel = kt.may_press(ctx, [MOD + "newly_release"])
    ck.ob("C07-R3", MOD + "newly_release", "release-cone-constructs-no-Pressed", not rel,
          detail="cone %s; Pressed constructed in %s" % (sorted(x[len(MOD):] for x in ctx.cone([MOD + "newly_release"]) if x.startswith(MOD)), sorted(rel)))
    pos = kt.may_press(ctx, [MOD + "newly_press"])
    ck.ob("C07-R3", MOD + "newly_press", "positive-control:press-cone-does-construct-Pressed", len(pos) >= 2, detail=str(sorted(pos)))
    ck.explanation = "add_new_mapping arms %s; sweep lists %s; release cone clean: %s" % (sorted(arms), sorted(lists_swept), not rel)
