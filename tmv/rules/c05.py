"""C05 — non-interference: uninvolved keys and mappings are left alone."""
from .. import mir, kt, ktx, tables, ktloops
from ..kt import MOD, list_of, HELD
from ..mir import T, show, method_name
from . import c04

LEVEL = "other"
META = {
    "technique": "who-may-remove classification of every pass_through_keys removal transaction (closed list of six guarded classes), call-context rules for the two batch releases, release-cone emission inventory, reuse of the remove_mapping and batch-membership tables",
    "level_text": ("Every transaction that can take a key out of pass_through_keys is classified into a closed list: trigger "
                   "consumption (key in from∪to of the firing mapping), re-press of an output (key in `to`), batch of "
                   "release_action_mappings (keys drawn from mapped_output_keys, called only when a key-producing press happens), "
                   "no-repeat sweep (non-modifier keys, only from the Disabled/Special arms), absorbed key (drawn from "
                   "mapped_absorbed_keys), the released key itself. A key that occurs nowhere in the layout satisfies none of the "
                   "layout-dependent guards, so it leaves only by its own release or, if non-modifier, by the no-repeat sweep. "
                   "Releases emit only the released key and outputs of mappings removed under fails_when_released, never a key "
                   "another remaining mapping outputs (remove_mapping table)."),
    "level_note": "Trusted: rustc MIR, tmfacts, walker. 'Stays down until its physical release' over whole histories is the composition of these per-site facts with C19, on paper.",
}

# --- additions to the level description (rules added after the first version)
META['level_text'] += " The batch rows are read per push site whatever loop or iterator search (find) selects the mapping; remove_mapping's still-used scan must see every remaining mapping."
# --- end additions

ANM = MOD + "add_new_mapping"
NP = MOD + "newly_press"
NR = MOD + "newly_release"
RAM = MOD + "release_action_mappings"
SWEEP = MOD + "release_all_action_keys"
RAK = MOD + "release_absorbed_keys"


def chain_guards(fx):
    out = []
    f2 = fx
    while f2 is not None:
        out += f2.all_guards()
        f2 = f2.parent[0] if f2.parent else None
    return out


def entry_guards(K, body, h):
    """(atom, value) pairs that hold on EVERY way of reaching loop h from the function's entry (through the
    enclosing loops' bodies, if any)"""
    loops = body.loops()
    enclosing = [hh for hh, blks in loops.items() if hh != h and h in blks]
    outer = min(enclosing, key=lambda hh: len(loops[hh])) if enclosing else None
    tag = "fn" if outer is None else "L%d" % outer
    sets = []
    for t, paths in K.segments(body):
        if t != tag:
            continue
        for p in paths:
            idx = [i for i, e in enumerate(p.events) if e.kind == "loop" and e.a == h]
            if not idx:
                continue
            sets.append({(e.a, e.b) for e in p.events[:idx[0]] if e.kind == "guard" and isinstance(e.a, tuple)})
    must = set.intersection(*sets) if sets else set()
    if outer is not None:
        must |= entry_guards(K, body, outer)
    return must


def batch_push_rows(ctx, K):
    """for every push into the local batch of release_action_mappings: the named conditions known to hold for the
    pushed key x and the mapping M whose output list it is drawn from (whatever the loops around it look like)
    -> (rows, problems)"""
    b = ctx.body(RAM)
    rows, probs = [], []
    for tag, paths in K.segments(b):
        for p in paths:
            fx = K._one(b, p, tag, None)
            for e in fx.effects:
                if e.kind != "ADD" or not isinstance(e.lst, tuple):
                    continue
                x = mir.strip(e.key)
                guards = set(fx.guards_before(e))
                if tag.startswith("L"):
                    guards |= entry_guards(K, b, int(tag[1:]))
                conds = set()
                piped = None
                if isinstance(x, tuple) and x[0] == "elem" and isinstance(x[1], tuple) and x[1][0] == "iter" and isinstance(x[1][1], tuple) and x[1][1][0] in ("call", "clone"):
                    # the loop runs over an iterator pipeline: active_mappings.iter().filter(..).flat_map(|m| m.to.iter()..)
                    pl = tables.pipeline(ctx.body, x[1][1])
                    if not pl["problems"] and pl.get("inner_iter") is not None and pl["elem"] == T("elem", pl["inner_iter"], None):
                        piped = pl
                if piped is not None:
                    inner = piped["inner_iter"]
                    xs = T("elem", inner, None)
                    # conditions known for the pushed key are written over the loop's own element term: rewrite
                    guards = {(mir.subst(a, {x: xs}) if isinstance(a, tuple) else a, v) for a, v in guards}
                    x_loop, x = x, xs
                    src = inner[1]
                    if not (isinstance(src, tuple) and src[0] == "field" and src[2] == "to"):
                        probs.append("a key that is not an element of some mapping's output list is collected: %s" % show(src)[:60])
                        continue
                    M = mir.strip(src[1])
                    for a, v in piped["guards"]:
                        guards.add((a, v))
                        for a2, v2 in tables.expand_pure(ctx.body, ctx.F, a, v):
                            guards.add((a2, v2))
                    if isinstance(piped["base"], tuple) and list_of(piped["base"][1]) == "AM" and M == T("elem", piped["base"], None):
                        conds.add("M-in-active_mappings")
                        conds.add("every-active-mapping-and-every-output-visited")
                else:
                    if not (isinstance(x, tuple) and x[0] == "elem" and isinstance(x[1], tuple) and x[1][0] == "iter"
                            and isinstance(x[1][1], tuple) and x[1][1][0] == "field" and x[1][1][2] == "to"):
                        probs.append("a key that is not an element of some mapping's output list is collected: %s" % show(x)[:60])
                        continue
                    M = mir.strip(x[1][1][1])
                # pure helper predicates (`lifts_its_outputs(m)`) stand for their conjuncts
                for a, v in list(guards):
                    for a2, v2 in tables.expand_pure(ctx.body, ctx.F, a, v):
                        guards.add((a2, v2))
                # where does M come from?
                if isinstance(M, tuple) and M[0] == "elem" and isinstance(M[1], tuple) and M[1][0] == "iter" and list_of(M[1][1]) == "AM":
                    conds.add("M-in-active_mappings")
                elif (isinstance(M, tuple) and M[0] == "field" and isinstance(M[1], tuple) and M[1][0] == "variant" and M[1][2] == "Some"
                      and isinstance(M[1][1], tuple) and M[1][1][0] == "call" and method_name(M[1][1][1]) in ("find", "rfind") and len(M[1][1][2]) == 2):
                    it, clos = M[1][1][2]
                    if isinstance(it, tuple) and it[0] == "iter" and list_of(it[1]) == "AM" and isinstance(clos, tuple) and clos[0] == "closure":
                        conds.add("M-in-active_mappings")
                        # what the search guarantees about the mapping it found
                        try:
                            cps, cb = mir.walk_closure(ctx.body, clos, param_terms=[M])
                            common = None
                            for q in cps:
                                if q.outcome[0] != "return":
                                    continue
                                r = q.outcome[1]
                                gs = {(ev.a, ev.b) for ev in q.events if ev.kind == "guard" and isinstance(ev.a, tuple)}
                                v = mir.const_int(r)
                                if v == 0:
                                    continue
                                if v is None:
                                    neg = isinstance(r, tuple) and r[0] == "not"
                                    gs.add((r[1] if neg else r, not neg))
                                common = gs if common is None else (common & gs)
                            guards |= (common or set())
                        except Exception:
                            pass
                from . import c04
                for a, v in guards:
                    nm = c04._cond_name(a, v, M)
                    if nm:
                        conds.add(nm)
                    if isinstance(a, tuple) and a[0] == "in" and mir.strip(a[1]) == x and list_of(a[2]) == "MO":
                        conds.add("in_MO" if v else "!in_MO")
                    if isinstance(a, tuple) and a[0] == "in" and mir.strip(a[1]) == x and isinstance(list_of(a[2]), tuple):
                        conds.add("in_batch" if v else "!in_batch")
                rows.append(frozenset(conds))
    return rows, probs


def run(ctx):
    ck = ctx.check
    K = kt.KT(ctx)
    A = ktx.Analysis(ctx, K)
    ck.rule_text = "one obligation per pass_through removal transaction (classified), per caller context, per Released site in the release cone"
    ck.trusted_base = ["rustc front end + MIR builder", "tmfacts exporter", "tmv path walker", "C19 transaction recogniser"]
    anm = ctx.body(ANM)
    m = T("param", 3, anm.dbg.get(3, ""))

    # ---------------- R1 classification
    classes = {}
    for tx in A.txs:
        removes_pt = (tx.kind == "RELEASE" and "PT" in tx.lists) or (tx.kind in ("MOVE", "REPRESS+MOVE") and tx.lists and tx.lists[0] == "PT") \
            or (tx.kind in ("BATCHDEL", "RETAIN->BATCH") and tx.lists and tx.lists[0] == "PT") or (tx.kind == "DROP" and "PT" in tx.lists) \
            or (tx.kind == "BULKRELEASE" and "PT" in tx.lists)
        if not removes_pt:
            continue
        fx = tx.fx
        key = mir.strip(tx.key) if tx.key is not None else None
        cls = None
        g = chain_guards(fx)
        if tx.fn == ANM and isinstance(key, tuple) and key[0] == "retelem":
            infrom = any(v is True and isinstance(a, tuple) and a[0] == "in" and a[1] == key and a[2] == T("field", m, "from") for a, v in g)
            into = any(v is True and isinstance(a, tuple) and a[0] == "in" and a[1] == key and a[2] == T("field", m, "to") for a, v in g)
            if infrom or into:
                cls = "a:trigger-consumption(key in from∪to)"
        elif tx.fn == ANM and tx.kind == "REPRESS+MOVE" and isinstance(key, tuple) and key[0] == "elem" and key[1] == T("iter", T("field", m, "to"), "fwd"):
            cls = "f:re-press-of-an-output(key in to)"
        elif tx.fn == RAM and tx.kind == "BATCHDEL":
            cls = "b:batch-of-release_action_mappings(keys from mapped_output)"
        elif tx.fn == SWEEP and tx.kind == "BULKRELEASE" and tx.guard_ok:
            # the filtered walk + pruning retains: which keys?  the filter of the walk
            act = False
            for e_ in tx.effs:
                if e_.kind == "MAPEMIT":
                    pl = tables.pipeline(ctx.body, e_.aux[1])
                    act = any(v is True and isinstance(a, tuple) and a[0] == "call" and a[1] == MOD + "is_action_key" for a, v in pl["guards"])
            if act:
                cls = "c:no-repeat-sweep(non-modifier keys)"
        elif tx.fn == SWEEP and tx.kind == "RETAIN->BATCH":
            act = any(v is True and isinstance(a, tuple) and a[0] == "call" and a[1] == MOD + "is_action_key" and a[2] == (key,) for a, v in g)
            if act:
                cls = "c:no-repeat-sweep(non-modifier keys)"
        elif tx.fn == RAK and tx.kind == "RELEASE":
            cls = "d:absorbed-key"
        elif tx.fn == NR and tx.kind == "RELEASE" and key == T("param", 2, ctx.body(NR).dbg.get(2, "")):
            cls = "e:the-released-key-itself"
        classes.setdefault(cls, set()).add((tx.fn, tx.sig()))
        ck.ob("C05-R1", tx.fn, "pass_through-removal:%s:%s" % (tx.sig(), cls or "UNCLASSIFIED"), cls is not None and tx.guard_ok, site=tx.site(),
              detail=None if cls else "a removal from pass_through_keys outside the six reviewed classes: key %s" % (show(key)[:60] if key else "-"))
    ck.analysed["pass_through_removal_classes"] = {str(k): sorted(map(str, v)) for k, v in classes.items()}
    want = {"a:trigger-consumption(key in from∪to)", "f:re-press-of-an-output(key in to)", "b:batch-of-release_action_mappings(keys from mapped_output)",
            "c:no-repeat-sweep(non-modifier keys)", "d:absorbed-key", "e:the-released-key-itself"}
    ck.ob("C05-R1", "-", "all-six-classes-present(floor)", set(k for k in classes if k) == want, detail=str(sorted(k for k in classes if k)))
    # (b) premises: the batch only holds keys found in mapped_output_keys
    rows, probs = batch_push_rows(ctx, K)
    ck.ob("C05-R1", RAM, "b:batch-keys-are-drawn-from-mapped_output_keys", not probs and bool(rows) and all("in_MO" in r for r in rows),
          detail=str(probs[:2] or [sorted(r) for r in set(rows)]))
    # (d) premises: to_remove is filled only from mapped_absorbed_keys
    rb = ctx.body(RAK)
    srcs = set()
    locals_pushed = set()
    for fx in K.path_fx(rb):
        for e in fx.effects:
            if e.kind == "APPEND" and isinstance(e.lst, tuple) and e.lst[0] == "local":
                srcs.add((e.lst, list_of(e.key)))
            if e.kind == "ADD" and isinstance(e.lst, tuple):
                locals_pushed.add(e.lst)
    for fx in K.path_fx(rb):
        for e in fx.effects:
            if e.kind == "OTHERMUT:take" and e.lst == "AB":
                srcs.add((("taken", e.ev.c), "AB"))     # let to_remove = std::mem::take(&mut state.mapped_absorbed_keys)
    dkeys = {mir.strip(tx.key) for tx in A.txs if tx.fn == RAK and tx.kind == "RELEASE"}
    iterated = {list_of(kx[1][1]) for kx in dkeys if isinstance(kx, tuple) and kx[0] == "elem" and isinstance(kx[1], tuple) and kx[1][0] == "iter"}
    iterated |= {("taken", mir.strip(kx[1][1])) for kx in dkeys if isinstance(kx, tuple) and kx[0] == "elem" and isinstance(kx[1], tuple) and kx[1][0] == "iter"
                 and isinstance(kx[1][1], tuple) and kx[1][1][0] == "call" and method_name(kx[1][1][1]) == "take"}
    srcs = {s_ for s_ in srcs if s_[0] in iterated}
    locals_pushed = {l for l in locals_pushed if l in iterated}
    okd = len(srcs) == 1 and list(srcs)[0][1] == "AB" and not locals_pushed and all(
        isinstance(kx, tuple) and kx[0] == "elem" and isinstance(kx[1], tuple) and kx[1][0] == "iter"
        and (list_of(kx[1][1]) == list(srcs)[0][0] or ("taken", mir.strip(kx[1][1])) == list(srcs)[0][0]) for kx in dkeys)
    ck.ob("C05-R1", RAK, "d:released-keys-are-drawn-from-mapped_absorbed_keys", okd, detail="sources %s" % sorted(map(str, srcs)))
    # (c) context: release_all_action_keys only from the Disabled/Special arms
    callers = [c for c in ctx.callers_of(SWEEP) if "::tests::" not in c]
    ck.ob("C05-R1", SWEEP, "c:called-only-from-add_new_mapping", callers == [ANM], detail=str(callers))
    mrep = T("field", m, "repeat")
    for fx in K.path_fx(anm):
        if fx.tag != "fn":
            continue
        cs = [e for e in fx.effects if e.kind == "CALL" and e.key == SWEEP]
        if cs:
            poss = kt.variant_set(fx.guards_before(cs[0]), mrep, ("Normal", "Disabled", "Special"))
            ck.ob("C05-R3", ANM, "c:no-repeat-sweep-only-when-a-Disabled/Special-mapping-fires", "Normal" not in poss and bool(poss), detail=str(sorted(poss)))
    # (b) context: release_action_mappings only for key-producing presses
    callers = [c for c in ctx.callers_of(RAM) if "::tests::" not in c]
    ck.ob("C05-R3", RAM, "b:called-only-from-add_new_mapping-and-newly_press", sorted(callers) == sorted([ANM, NP]), detail=str(callers))
    for fx in K.path_fx(anm):
        if fx.tag != "fn":
            continue
        cs = [e for e in fx.effects if e.kind == "CALL" and e.key == RAM]
        if cs:
            am = [v for a, v in fx.guards_before(cs[0]) if isinstance(a, tuple) and a[0] == "call" and a[1] == MOD + "is_action_mapping"]
            ck.ob("C05-R3", ANM, "b:only-when-the-firing-mapping-produces-a-key", am == [True])
    np_ = ctx.body(NP)
    k = T("param", 2, np_.dbg.get(2, ""))
    for fx in K.path_fx(np_):
        if fx.tag != "fn":
            continue
        cs = [e for e in fx.effects if e.kind == "CALL" and e.key == RAM]
        if cs:
            act = [v for a, v in fx.guards_before(cs[0]) if isinstance(a, tuple) and a[0] == "call" and a[1] == MOD + "is_action_key" and mir.strip(a[2][0]) == k]
            ck.ob("C05-R3", NP, "b:only-for-a-non-modifier-pass-through-press", act == [True])
    want_rows = frozenset({"M-in-active_mappings", "action_mapping", "len>1", "any_modifier", "in_MO"})
    ck.ob("C05-R3", RAM, "b:lifts-only-outputs-of-key-producing-mappings-that-carry-modifiers", bool(rows) and not probs and all(r >= want_rows for r in rows),
          detail=str([sorted(r) for r in set(rows)]))

    # ---------------- R2 release scope
    cone = sorted(x for x in ctx.cone([NR]) if x.startswith(MOD) and "{closure" not in x)
    # (new helpers that have been copied into their callers are not functions of their own here; fails_when_released may
    # have been written out in place)
    cone = [c for c in cone if c not in ctx.F.spliced_away]
    ck.ob("C05-R2", NR, "release-cone", set(cone) - {MOD + "fails_when_released"} == {NR, MOD + "remove_mapping"}, detail=str([c[len(MOD):] for c in cone]))
    for tx in A.txs:
        if tx.fn in cone and any(e.kind == "EMIT" for e in tx.effs):
            if tx.fn == NR:
                ok = tx.kind == "RELEASE" and mir.strip(tx.key) == T("param", 2, ctx.body(NR).dbg.get(2, ""))
                ck.ob("C05-R2", NR, "release-emits-only-the-released-key", ok, site=tx.site())
            elif tx.fn == MOD + "remove_mapping":
                ck.ob("C05-R2", tx.fn, "mapping-removal-emits-only-Released-of-its-own-outputs", tx.kind == "RELEASE" and tx.lists == ["MO"], site=tx.site())
    R = ktloops.remove_mapping_analysis(ctx, K)
    kept = [oc for val, oc, site in R.rows if val.get("used") is True]
    pr = R.problems + R.role_problems["used"]
    ck.ob("C05-R2", MOD + "remove_mapping", "never-lifts-a-key-a-remaining-mapping-outputs", not pr and kept and all(oc == "keep" for oc in kept),
          detail="; ".join(pr)[:200] or None)
    # the still-used scan must see EVERY remaining mapping: skipping index i is only right while the mapping being
    # removed is still at index i; once it has been taken out the scan has to look at all of them
    ck.ob("C05-R2", MOD + "remove_mapping", "still-used-scan-sees-every-remaining-mapping", R.covers("used") in ("exact", "superset"),
          detail="removal %s the sweep, scan %s" % (R.am_removal, R.scan_text("used")))
    nr = ctx.body(NR)
    swept = 0
    for h in sorted(nr.loops()):
        x, pr = ktloops.am_sweep(K, nr, h)
        if x is not None and not pr:
            swept += 1
    ck.ob("C05-R2", NR, "mappings-removed-only-under-fails_when_released(from,released-key)", swept == 1)
    okf, why = ktloops.fails_when_released_table(ctx)
    ck.ob("C05-R2", MOD + "fails_when_released", "true-iff-key-in-trigger", okf, detail=why or None)

    # ---------------- empty layout / foreign key: lookup miss -> plain pass-through of exactly the input event
    miss = 0
    for fx in K.path_fx(np_):
        if fx.tag != "fn" or fx.path.outcome[0] != "return":
            continue
        look = [v for a, v in fx.all_guards() if isinstance(a, tuple) and a[0] == "variantof" and isinstance(a[1], tuple) and a[1][0] == "call" and method_name(a[1][1]) == "get" and "HashMap" in a[1][1]]
        if look not in (["None"], [("other", ("Some",))]):
            continue
        emits = [e for e in fx.effects if e.kind in ("EMIT", "MAPEMIT")]
        if emits:
            miss += 1
            ok = len(emits) == 1 and emits[0].aux == "Pressed" and emits[0].key == k and any(e.kind == "ADD" and e.lst == "PT" and e.key == k for e in fx.effects)
            ck.ob("C05-R4", NP, "lookup-miss:the-key-itself-is-passed-through", ok)
    ck.ob("C05-R4", NP, "lookup-miss-path-exists", miss >= 1)
    ck.explanation = "pass_through removal classes: %s" % sorted(k2 for k2 in classes if k2)
