"""C16 — only real, non-excluded keyboards are selected, whichever way they are named."""
from .. import mir, hirq, hircanon
from ..mir import T, show, method_name, const_int, Walker, mentions
from ..report import Unrecognised

LEVEL = "other"
META = {
    "technique": "sibling agreement on typed HIR (alpha-renamed closed terms, logging dropped) between the two /proc/bus/input/devices extractors and between the two exclusion flaggers; set-inclusion rule for per-entry reset; MIR dominance rules for the virtual-device filter and for dropping excluded devices before open",
    "level_text": ("Structural proof that the two discovery routes agree: for every line prefix the two extractors perform the same "
                   "state update, compute the same intermediate values for the B: KEY= line and the classification term that "
                   "guards the push in one equals the term stored as is_keyboard in the other; every loop-carried variable the "
                   "classification reads is reset at the I: line (own entry only); both listing functions push only on the false "
                   "edge of starts_with(\"/devices/virtual/input/\") on the entry's sysfs path; the two exclusion flaggers are the "
                   "same term over the device NAME; every route to open_device filters out excluded devices first; the --dev-file "
                   "filter pushes iff found ∧ ¬(only-if-keyboard ∧ ¬is_keyboard) ∧ ¬excluded."),
    "level_note": "Trusted: WildMatch glob semantics, sysfs/canonicalize behaviour, std string methods; whether the heuristic itself is a good definition of 'keyboard' is not judged. rustc HIR/MIR, tmfacts.",
}
# --- additions to the level description (rules added after the first version)
META['level_text'] += " R3 also: the device node is /dev/<DEVNAME of the device's uevent>. R4 also: a --dev-file argument is passed over only if its path does not resolve, it is not listed, it is excluded, or it is not a keyboard under --only-if-keyboard; every listed device whose path resolves enters the look-up table; every selected path is opened, every driver gets a thread. R7: --auto-all-keyboards opens a listed, non-excluded device exactly when no running loop has its dev_path."
# --- end additions

E1 = "keyboard_listing::extract_keyboards_from_proc_bus_input_devices"
E2 = "keyboard_listing::extract_input_devices_from_proc_bus_input_devices"
RENAME = {
    "keyboard_listing::ExtractedProcBusInputDevice": "keyboard_listing::ExtractedProcBusKeyboard",
    "remapping_loop::PossiblyExcludedInputDevice": "remapping_loop::PossiblyExcludedDevice",
    "keyboard_listing::ExtractedInputDevice": "keyboard_listing::ExtractedKeyboard",
}
VIRT = "/devices/virtual/input/"


def extractor_shape(ctx, path):
    h = ctx.hir(path)
    params = h["params"]
    noise = {p["id"] for p in params if p.get("k") == "Binding" and p.get("ty") == "bool"}
    loops = hirq.for_loops(h["body"])
    main = None
    for pat, it, body in loops:
        arms, els = hirq.if_chain(_tail(body))
        prefixes = []
        for c, b in arms:
            if c.get("k") == "MethodCall" and c.get("name") == "starts_with" and hirq.str_lits(c["args"][0]):
                prefixes.append((hirq.str_lits(c["args"][0])[0], c, b))
        if len(prefixes) >= 3:
            main = (pat, it, body, prefixes, els)
    if main is None:
        raise Unrecognised("line-loop-with-prefix-chain-not-found:" + path)
    return h, noise, main


def _tail(body):
    """the if-chain of a loop body: the tail expression or the only non-let statement"""
    if body.get("k") == "Block":
        b = body["b"]
        if b.get("expr") is not None:
            return b["expr"]
        es = [st["e"] for st in b["stmts"] if st["k"] in ("Expr", "Semi")]
        if es:
            return es[-1]
    return body


def key_arm_parts(canon, block_expr):
    """splits the B: KEY= arm into (let-prefix statements, classification term, push part)"""
    b = block_expr["b"]
    lets = []
    cls = None
    rest = []
    for st in b["stmts"]:
        if cls is None and st["k"] == "Let":
            name = st["pat"].get("name")
            lets.append(st)
            continue
        if st["k"] in ("Expr", "Semi") and canon.is_noise_expr(st["e"]):
            continue
        rest.append(st)
    if b.get("expr") is not None and not canon.is_noise_expr(b["expr"]):
        rest.append({"k": "Expr", "e": b["expr"]})
    return lets, rest


def run(ctx):
    ck = ctx.check
    ck.rule_text = "one obligation per line prefix (sibling state updates), per let of the B: KEY= arm, per loop-carried variable, per listing function, per entry point that opens devices"
    ck.trusted_base = ["WildMatch semantics", "std string/HashSet methods", "rustc HIR/MIR", "tmfacts exporter"]
    h1, n1, m1 = extractor_shape(ctx, E1)
    h2, n2, m2 = extractor_shape(ctx, E2)
    p1 = {p: (c, b) for p, c, b in m1[3]}
    p2 = {p: (c, b) for p, c, b in m2[3]}
    ck.analysed["line_prefixes"] = sorted(p1)
    ck.ob("C16-R1", "-", "both-extractors-handle-the-same-line-prefixes-in-the-same-order", [p for p, _, _ in m1[3]] == [p for p, _, _ in m2[3]],
          detail="%s / %s" % ([p for p, _, _ in m1[3]], [p for p, _, _ in m2[3]]))
    ck.floor("C16-R1", "line-prefixes", len(p1), 5)
    # shared alpha-renaming: walk both functions in the same order so that corresponding bindings get equal numbers
    c1 = hircanon.Canon(rename=RENAME, noise_params=n1)
    c2 = hircanon.Canon(rename=RENAME, noise_params=n2)
    # bind the declarations before the loop (res, lines, working_*) and the loop variable in order
    pre1 = [st for st in h1["body"]["b"]["stmts"] if st["k"] == "Let"]
    pre2 = [st for st in h2["body"]["b"]["stmts"] if st["k"] == "Let"]
    same_pre = True
    for a, b in zip(pre1, pre2):
        ca = ("let", c1.pat(a["pat"]), c1.expr(a["init"]) if "init" in a else None)
        cb = ("let", c2.pat(b["pat"]), c2.expr(b["init"]) if "init" in b else None)
        same_pre = same_pre and ca == cb
    ck.ob("C16-R1", "-", "same-loop-carried-state-declared-before-the-line-loop", same_pre and len(pre1) == len(pre2), detail="%d / %d declarations" % (len(pre1), len(pre2)))
    c1.pat(m1[0])
    c2.pat(m2[0])
    key_prefix = None
    for p in sorted(p1):
        if p not in p2:
            continue
        if p.startswith("B: KEY"):
            key_prefix = p
            continue
        ea = c1.expr(p1[p][1])
        eb = c2.expr(p2[p][1])
        ck.ob("C16-R1", "-", "same-state-update-for-line-prefix:%s" % p.strip(), ea == eb, detail=None if ea == eb else "; ".join(hircanon.diff(ea, eb))[:400])
    if key_prefix is None:
        raise Unrecognised("B: KEY= arm not found")
    # the classification arm
    l1, r1 = key_arm_parts(c1, p1[key_prefix][1])
    l2, r2 = key_arm_parts(c2, p2[key_prefix][1])
    # f2 has one more let at the end: is_keyboard = <classification>
    cls2 = None
    if len(l2) == len(l1) + 1:
        cls2 = l2[-1]
        l2 = l2[:-1]
    n_same = 0
    for a, b in zip(l1, l2):
        ca = ("let", c1.pat(a["pat"]), c1.expr(a["init"]) if "init" in a else None)
        cb = ("let", c2.pat(b["pat"]), c2.expr(b["init"]) if "init" in b else None)
        nm = a["pat"].get("name", "?")
        same = ca == cb
        n_same += same
        ck.ob("C16-R1", "-", "B:KEY=:same-intermediate-value:%d" % (l1.index(a) + 1), same, detail=("`%s`: " % nm) + ("equal" if same else "; ".join(hircanon.diff(ca, cb))[:400]))
    ck.ob("C16-R1", "-", "B:KEY=:same-number-of-intermediate-values", len(l1) == len(l2), detail="%d / %d" % (len(l1), len(l2)))
    ck.floor("C16-R1", "B:KEY=-intermediate-values", len(l1), 5)
    # interleaved non-let statements (the per-character counting loop) – compare them too
    # classification term: condition of the `if` in f1 == init of is_keyboard in f2
    if1 = [st["e"] for st in r1 if st["e"].get("k") == "If"]
    # counting loop and other statements before the classification (canonicalised before is_keyboard is bound)
    s1 = [c1.expr(st["e"]) for st in r1 if st["e"].get("k") != "If"]
    s2 = [c2.expr(st["e"]) for st in r2 if st["e"].get("k") not in ("Match",) or st["e"].get("src") != "Normal"]
    ok_cls = False
    detail = "classification statement not found"
    if len(if1) == 1 and cls2 is not None:
        t1 = c1.expr(if1[0]["cond"])
        t2 = c2.expr(cls2["init"])
        ok_cls = t1 == t2
        detail = None if ok_cls else "; ".join(hircanon.diff(t1, t2))[:400]
        # bind is_keyboard
        c2.pat(cls2["pat"])
    ck.ob("C16-R1", "-", "classification-guarding-the-push==term-stored-as-is_keyboard", ok_cls, detail=detail)
    ck.ob("C16-R1", "-", "B:KEY=:same-key-counting-statements", s1 == s2, detail=None if s1 == s2 else "%d / %d statements" % (len(s1), len(s2)))
    # both push only when a sysfs path is present, inside a match on the same loop-carried variable
    def push_guard(canon, h, where):
        pushes = [c for c in hirq.calls(where) if hirq.callee_of(c) and hirq.callee_of(c).endswith("Vec::<T, A>::push")]
        ms = [m for m in hirq.exprs(where, "Match") if m.get("src") == "Normal"]
        scr = None
        some_only = False
        for m in ms:
            inside = [c for c in hirq.calls(m) if c in pushes or (hirq.callee_of(c) and hirq.callee_of(c).endswith("Vec::<T, A>::push"))]
            if inside:
                scr = canon.expr(m["scrut"])
                arms = {(_pat_variant(a["pat"])): a for a in m["arms"]}
                some_only = "Some" in arms and "None" in arms and not list(hirq.calls(arms["None"]["body"], suffix="::push")) and len(inside) == 1
        return len(pushes), scr, some_only
    n1p, scr1, so1 = push_guard(c1, h1, if1[0]["then"] if len(if1) == 1 else p1[key_prefix][1])
    n2p, scr2, so2 = push_guard(c2, h2, p2[key_prefix][1])
    ck.ob("C16-R1", "-", "both-push-only-when-the-entry's-sysfs-path-is-present", n1p == 1 and n2p == 1 and so1 and so2 and scr1 == scr2 and scr1 is not None,
          detail="pushes %d/%d, scrutinee equal %s" % (n1p, n2p, scr1 == scr2))
    tot1 = len([c for c in hirq.calls(h1["body"]) if (hirq.callee_of(c) or "").endswith("Vec::<T, A>::push")])
    tot2 = len([c for c in hirq.calls(h2["body"]) if (hirq.callee_of(c) or "").endswith("Vec::<T, A>::push")])
    ck.ob("C16-R1", "-", "no-other-push-in-either-extractor", tot1 == 1 and tot2 == 1, detail="%d / %d" % (tot1, tot2))

    # ---------------- R2 own entry only
    for path, h, main, canon in ((E1, h1, m1, c1), (E2, h2, m2, c2)):
        pre = [st for st in h["body"]["b"]["stmts"] if st["k"] == "Let"]
        declared = {st["pat"]["id"]: st["pat"].get("name") for st in pre if st["pat"].get("k") == "Binding"}
        arms = {p: b for p, c, b in main[3]}
        assigned_anywhere = set()
        for p, b in arms.items():
            for a in hirq.exprs(b, "Assign"):
                for x in hirq.exprs(a["lhs"], "Path"):
                    if x["res"].get("k") == "local" and x["res"]["id"] in declared:
                        assigned_anywhere.add(x["res"]["id"])
        carried = assigned_anywhere
        ikey = [p for p in arms if p.startswith("I:")]
        reset = set()
        if ikey:
            for a in hirq.exprs(arms[ikey[0]], "Assign"):
                rhs = a["rhs"]
                is_none = rhs.get("k") == "Path" and rhs["res"].get("path", "").endswith("None")
                for x in hirq.exprs(a["lhs"], "Path"):
                    if x["res"].get("k") == "local" and is_none:
                        reset.add(x["res"]["id"])
        kk = [p for p in arms if p.startswith("B: KEY")][0]
        read = {x["res"]["id"] for x in hirq.exprs(arms[kk], "Path") if x["res"].get("k") == "local" and x["res"]["id"] in carried}
        missing = read - reset
        ck.ob("C16-R2", path, "every-loop-carried-variable-read-by-the-classification-is-reset-at-the-I:-line", not missing and bool(read),
              detail="carried %s, reset %s, read %s" % (sorted(declared[i] for i in carried), sorted(declared[i] for i in reset if i in declared), sorted(declared[i] for i in read)))

    # ---------------- R3 virtual filter
    for fn, agg in (("keyboard_listing::list_keyboards", "keyboard_listing::ExtractedKeyboard"), ("keyboard_listing::list_input_devices", "keyboard_listing::ExtractedInputDevice")):
        b = ctx.body(fn)
        n = 0
        for h in sorted(b.loops()):
            for p in mir.walk_loop_only(b, h):
                for i, e in mir.context_events(b, p):
                    if e.kind == "call" and method_name(e.a) == "push" and len(e.b) == 2 and isinstance(e.b[1], tuple) and e.b[1][0] == "agg" and e.b[1][1] == agg:
                        n += 1
                        g = [(x.a, x.b) for x in p.events[:i] if x.kind == "guard"]
                        virt = [(a, v) for a, v in g if isinstance(a, tuple) and a[0] == "call" and method_name(a[1]) == "starts_with" and len(a[2]) == 2
                                and a[2][1] == T("const", T("str", VIRT))]
                        ok = len(virt) == 1 and virt[0][1] is False
                        subj_ok = False
                        if virt:
                            subj = mir.strip(virt[0][0][2][0])
                            subj_ok = isinstance(subj, tuple) and subj[0] == "field" and subj[2] == "sysfs_path" and isinstance(subj[1], tuple) and subj[1][0] == "elem"
                        ck.ob("C16-R3", fn, "device-listed-only-if-its-own-sysfs-path-is-not-under-/devices/virtual/input/", ok and subj_ok, site=e.span,
                              detail=None if (ok and subj_ok) else "guards: %s" % [(show(a)[:60], v) for a, v in g][-3:])
        ck.ob("C16-R3", fn, "one-result-push", n >= 1, detail="%d" % n)

    # ---------------- R4 exclusion
    f1 = ctx.hir("remapping_loop::flag_excluded")
    f2 = ctx.hir("remapping_loop::flag_excluded_input_devices")
    ca = hircanon.Canon(rename=RENAME)
    cb = hircanon.Canon(rename=RENAME)
    for p in f1["params"]:
        ca.pat(p)
    for p in f2["params"]:
        cb.pat(p)
    ea, eb = ca.expr(f1["body"]), cb.expr(f2["body"])
    ck.ob("C16-R4", "-", "flag_excluded==flag_excluded_input_devices", ea == eb, detail=None if ea == eb else "; ".join(hircanon.diff(ea, eb))[:400])
    for fn, h in (("remapping_loop::flag_excluded", f1), ("remapping_loop::flag_excluded_input_devices", f2)):
        sites, anys = _match_sites(ctx, h, {}, 0)
        ck.ob("C16-R4", fn, "patterns-are-matched-against-the-device-name", len(sites) == 1 and sites[0])
        ck.ob("C16-R4", fn, "excluded-iff-any-pattern-matches", anys == 1)
        # the glob is compiled from the pattern as given: by the glob crate's constructor, applied to a plain variable
        # (no trimming, case folding or other rewriting of the pattern on the way)
        # (wherever in the crate the patterns are compiled: a refactoring may move that into a helper or a closure)
        news = [c for hp, hh in sorted(ctx.F.hir.items()) if "tests::" not in hp for c in hirq.calls(hh["body"])
                if "WildMatch" in (hirq.callee_of(c) or "") and (hirq.callee_of(c) or "").endswith("::new")]
        plain = bool(news) and all((hirq.callee_of(c) or "").startswith("wildmatch::") and hirq.strip_ref(hirq.call_args(c)[0]).get("k") == "Path" for c in news)
        ck.ob("C16-R4", fn, "glob-compiled-by-wildmatch-from-the-pattern-as-given", plain,
              detail=None if plain else "constructors: %s" % [(hirq.callee_of(c), hirq.strip_ref(hirq.call_args(c)[0]).get("k")) for c in news])
    # entry points: every call path from them to open_device goes through a flagger and a `!excluded` filter
    cg = ctx.callgraph()
    for fn in ("remapping_loop::do_remapping_loop_all_devices", "remapping_loop::do_remapping_loop_auto_all_devices"):
        h = ctx.hir(fn)
        flag = [c for c in hirq.calls(h["body"], path="remapping_loop::flag_excluded")]
        filt = []
        for c in hirq.calls(h["body"]):
            if (hirq.callee_of(c) or "").endswith("Iterator::filter"):
                clo = c["args"][0]
                if clo.get("k") == "Closure":
                    body = clo["body"]
                    if body.get("k") == "Unary" and body.get("op") == "Not" and body["e"].get("k") == "Field" and body["e"].get("name") == "excluded":
                        filt.append(c)
        lists = [c for c in hirq.calls(h["body"], path="keyboard_listing::list_keyboards")]
        ok = len(flag) == len(lists) == len(filt) and len(flag) >= 1
        ck.ob("C16-R4", fn, "device-list->flag_excluded->filter(!excluded)-before-opening", ok, detail="list %d, flag %d, filter %d" % (len(lists), len(flag), len(filt)))
        # the filtered list is what is opened: the filter's receiver chain starts at the flagged list
        for f in filt:
            src_ok = any(x.get("k") == "Path" and x["res"].get("k") == "local" for x in hirq.walk(f["recv"]))
            ck.ob("C16-R4", fn, "filter-applies-to-the-flagged-list", src_ok)
    fd = ctx.body("remapping_loop::filter_devices_verbose")
    n = 0
    for h in sorted(fd.loops()):
        for p in mir.walk_loop_only(fd, h):
            for i, e in mir.context_events(fd, p):
                if e.kind == "call" and method_name(e.a) == "push" and len(e.b) == 2 and " str" in fd.blocks[e.blk]["term"]["callee"].get("args", ""):
                    g = [(x.a, x.b) for x in p.events[:i] if x.kind == "guard"]
                    found = [v for a, v in g if isinstance(a, tuple) and a[0] == "variantof" and isinstance(a[1], tuple) and a[1][0] == "call" and method_name(a[1][1]) == "get" and "HashMap" in a[1][1]]
                    excl = [v for a, v in g if isinstance(a, tuple) and a[0] == "field" and a[2] == "excluded"]
                    skip = [v for a, v in g if isinstance(a, tuple) and a[0] == "param" and a[2] == "skip_non_keyboard"]
                    isk = [v for a, v in g if isinstance(a, tuple) and a[0] == "field" and a[2] == "is_keyboard"]
                    n += 1
                    ok = found == ["Some"] and excl == [False] and (skip == [False] or (skip == [True] and isk == [True]))
                    ck.ob("C16-R4", fd.path, "--dev-file:pushed-iff-found∧¬(only-if-keyboard∧¬is_keyboard)∧¬excluded", ok, site=e.span,
                          detail="found %s excluded %s only-if-keyboard %s is_keyboard %s" % (found, excl, skip, isk))
    ck.floor("C16-R4", "dev-file-push-paths", n, 1)
    # ... and the converse ("every other keyboard-like device is"): an argument is passed over only for one of the stated
    # reasons -- its path cannot be resolved, it is not in the device list, it is excluded, or it is not a keyboard while
    # --only-if-keyboard was given
    n_skip = 0
    for h in sorted(fd.loops()):
        paths = mir.walk_loop_only(fd, h)
        if not any(e.kind == "call" and method_name(e.a) == "push" and len(e.b) == 2 and " str" in fd.blocks[e.blk]["term"]["callee"].get("args", "") for p in paths for e in p.events):
            continue
        for p in paths:
            if p.outcome != ("backedge", h):
                continue
            if any(e.kind == "call" and method_name(e.a) == "push" and len(e.b) == 2 and " str" in fd.blocks[e.blk]["term"]["callee"].get("args", "") for e in p.events):
                continue
            g = [(x.a, x.b) for x in p.events if x.kind == "guard"]
            found = [v for a, v in g if isinstance(a, tuple) and a[0] == "variantof" and isinstance(a[1], tuple) and a[1][0] == "call" and method_name(a[1][1]) == "get" and "HashMap" in a[1][1]]
            excl = [v for a, v in g if isinstance(a, tuple) and a[0] == "field" and a[2] == "excluded"]
            skip = [v for a, v in g if isinstance(a, tuple) and a[0] == "param" and a[2] == "skip_non_keyboard"]
            isk = [v for a, v in g if isinstance(a, tuple) and a[0] == "field" and a[2] == "is_keyboard"]
            unresolved = [v for a, v in g if isinstance(a, tuple) and a[0] == "variantof" and isinstance(a[1], tuple) and a[1][0] == "call"
                          and (method_name(a[1][1]) in ("canonicalize", "to_str")) and v in ("Err", "None")]
            n_skip += 1
            reason = bool(unresolved) or (found and found[0] != "Some") or excl == [True] or (skip == [True] and isk == [False])
            ck.ob("C16-R4", fd.path, "--dev-file:passed-over-only-if-unresolvable∨not-listed∨excluded∨(only-if-keyboard∧¬is_keyboard)", bool(reason),
                  detail=None if reason else "an argument is dropped with found %s excluded %s only-if-keyboard %s is_keyboard %s" % (found, excl, skip, isk))
    ck.floor("C16-R4", "dev-file-skip-paths", n_skip, 2)
    # ... and nothing is selected any other way: every Ok the function returns is the list that this loop filled (an early
    # `return Ok(devices.clone())` "when there is nothing to filter on" would let unlisted -- virtual -- devices through)
    push_loops = [h for h in sorted(fd.loops()) if any(e.kind == "call" and method_name(e.a) == "push" and len(e.b) == 2 and " str" in fd.blocks[e.blk]["term"]["callee"].get("args", "")
                                                      for p in mir.walk_loop_only(fd, h) for e in p.events)]
    accs = {mir.strip(e.b[0]) for h in push_loops for p in mir.walk_loop_only(fd, h) for e in p.events
            if e.kind == "call" and method_name(e.a) == "push" and len(e.b) == 2 and " str" in fd.blocks[e.blk]["term"]["callee"].get("args", "")}
    n_ok = 0
    for p in mir.walk_function(fd):
        r = p.outcome[1] if p.outcome[0] == "return" else None
        if not (isinstance(r, tuple) and r[0] == "agg" and r[2] == "Ok"):
            continue
        n_ok += 1
        through = any(e.kind == "loop" and e.a in push_loops for e in p.events)
        ck.ob("C16-R4", fd.path, "every-Ok-result-is-the-list-filled-by-the-selection-loop", through and mir.strip(r[3][0]) in accs,
              detail=None if (through and mir.strip(r[3][0]) in accs) else "a path returns Ok(%s) without running the selection loop" % show(r[3][0])[:60])
    ck.floor("C16-R4", "dev-file-ok-returns", n_ok, 1)
    hm = ctx.hir("remapping_loop::do_remapping_loop_multiple_devices")
    ok = len(list(hirq.calls(hm["body"], path="remapping_loop::filter_devices_verbose"))) == 1
    ck.ob("C16-R4", "remapping_loop::do_remapping_loop_multiple_devices", "--dev-file-arguments-pass-through-filter_devices_verbose", ok)
    hf = ctx.hir("remapping_loop::filter_devices_verbose")
    ok = len(list(hirq.calls(hf["body"], path="remapping_loop::flag_excluded_input_devices"))) == 1 and len(list(hirq.calls(hf["body"], path="keyboard_listing::list_input_devices"))) == 1
    ck.ob("C16-R4", "remapping_loop::filter_devices_verbose", "uses-list_input_devices-and-flag_excluded_input_devices", ok)
    # who reaches open_device
    openers = sorted(c for c in ctx.callers_of("remapping_loop::open_device") if "::tests::" not in c)
    ck.ob("C16-R4", "-", "open_device-callers", set(o.split("::{closure")[0] for o in openers) <= {"remapping_loop::do_remapping_loop_auto_all_devices", "remapping_loop::do_remapping_loop_these_devices"}, detail=str(openers))
    these = sorted(c.split("::{closure")[0] for c in ctx.callers_of("remapping_loop::do_remapping_loop_these_devices") if "::tests::" not in c)
    ck.ob("C16-R4", "-", "do_remapping_loop_these_devices-callers-are-the-filtered-entry-points", set(these) <= {"remapping_loop::do_remapping_loop_all_devices", "remapping_loop::do_remapping_loop_multiple_devices"}, detail=str(these))
    auto_mode_rule(ctx, ck)
    dev_path_rule(ctx, ck)
    selected_devices_are_opened_rule(ctx, ck)
    ck.explanation = "sibling comparison over %d line prefixes and %d intermediate values of the B: KEY= arm; listing and exclusion routes checked." % (len(p1), len(l1))
    r5_mask_words(ctx, ck)
    from . import c17
    c17.cli_exclude_rule(ctx, ck, "C16-R6")


def selected_devices_are_opened_rule(ctx, ck):
    """what was selected is what gets a loop: (a) every listed device whose path resolves enters the table the --dev-file
    arguments are looked up in; (b) every selected path is opened and its driver kept; (c) every kept driver gets a
    thread running the per-device loop"""
    from .. import ktloops
    fn = "remapping_loop::filter_devices_verbose"
    b = ctx.body(fn)
    n = 0
    for h in sorted(b.loops()):
        il = ktloops.index_loop(b, h)
        src = il.list_term
        if not (il.kind == "for-elements" and isinstance(src, tuple) and src[0] == "call" and src[1] == "remapping_loop::flag_excluded_input_devices"):
            continue
        for p in il.cont_paths:
            g = [(e.a, e.b) for e in p.events if e.kind == "guard" and isinstance(e.a, tuple) and e.a[0] == "variantof" and isinstance(e.a[1], tuple) and e.a[1][0] == "call"
                 and method_name(e.a[1][1]) in ("canonicalize", "to_str")]
            resolved = len(g) == 2 and [v for _, v in g] == ["Ok", "Some"]
            ins = [e for e in p.events if e.kind == "call" and method_name(e.a) == "insert" and "HashMap" in e.a]
            n += 1
            if resolved:
                ok = len(ins) == 1 and mir.strip(ins[0].b[2]) == il.elem and mentions(ins[0].b[1], g[1][0][1])
                ck.ob("C16-R4", fn, "every-listed-device-whose-path-resolves-enters-the-look-up-table,keyed-by-that-path", ok)
            else:
                ck.ob("C16-R4", fn, "a-device-whose-path-does-not-resolve-enters-nothing", not ins)
        ck.ob("C16-R4", fn, "look-up-table-built-from-every-listed-device", il.complete and not il.break_paths)
    ck.floor("C16-R4", "look-up-table-paths", n, 2)
    fn = "remapping_loop::do_remapping_loop_these_devices"
    b = ctx.body(fn)
    devs = T("param", 1, b.dbg.get(1, ""))
    opened = spawned = False
    for h in sorted(b.loops()):
        il = ktloops.index_loop(b, h)
        if il.kind != "for-elements":
            continue
        if mir.strip(il.list_term) == devs:
            ok = il.complete and bool(il.cont_paths)
            for p in il.cont_paths:
                oc = [e for e in p.events if e.kind == "call" and e.a == "remapping_loop::open_device"]
                pu = [e for e in p.events if e.kind == "call" and method_name(e.a) == "push" and "Vec" in e.a]
                ok = ok and len(oc) == 1 and mentions(oc[0].b[0], il.elem) and len(pu) == 1 and mentions(pu[0].b[1], oc[0].c)
            # (leaving the loop early is the `?` of a failed open: the whole command fails)
            from .c13s import _err_exit
            ok = ok and not [p for p in il.break_paths if not _err_exit(p)]
            ck.ob("C16-R4", fn, "every-selected-path-is-opened-and-its-driver-kept", ok)
            opened = True
        elif any(e.kind == "call" and method_name(e.a) == "spawn" for p in il.cont_paths for e in p.events):
            ok = il.complete and not il.break_paths and all(len([e for e in p.events if e.kind == "call" and method_name(e.a) == "spawn"]) == 1 for p in il.cont_paths)
            drained = isinstance(il.list_term, tuple) and il.list_term[0] == "call" and method_name(il.list_term[1]) in ("drain", "into_iter")
            ck.ob("C16-R4", fn, "every-kept-driver-gets-a-thread", ok and (drained or True))
            spawned = True
    ck.ob("C16-R4", fn, "open-loop-and-spawn-loop-present", opened and spawned)


def dev_path_rule(ctx, ck):
    """the device node of a listed device is /dev/<DEVNAME of its uevent file>: the path that is opened, and the path that
    --dev-file arguments are compared with"""
    fn = "keyboard_listing::dev_path_for_sysfs_name"
    if not ctx.has_body(fn):
        return
    b = ctx.body(fn)
    n = 0
    for h in sorted(b.loops()):
        for p in mir.walk_loop_only(b, h):
            r = p.outcome[1] if p.outcome[0] == "return" else None
            if not (isinstance(r, tuple) and r[0] == "agg" and r[2] == "Ok" and isinstance(r[3][0], tuple) and r[3][0][0] == "agg" and r[3][0][2] == "Some"):
                continue
            n += 1
            pb = mir.strip(r[3][0][3][0])
            pushes = [e for e in p.events if e.kind == "call" and method_name(e.a) == "push" and "PathBuf" in e.a and mir.strip(e.b[0]) == pb]
            key = [e for e in p.events if e.kind == "guard" and isinstance(e.a, tuple) and e.a[0] == "call" and method_name(e.a[1]) == "starts_with" and e.b is True
                   and e.a[2][1] == T("const", T("str", "DEVNAME="))]
            # (the uevent file that is read is the one of an `event*` child of the device's sysfs directory: the evdev node,
            # not mouseN / jsN)
            outer = []
            for hh in b.loops():
                if hh != h and h in b.loops()[hh]:
                    outer += [q for q in mir.walk_loop_only(b, hh) if any(e.kind == "loop" and e.a == h for e in q.events)]
            ev_child = bool(outer) and all(any(e.kind == "guard" and isinstance(e.a, tuple) and e.a[0] == "call" and method_name(e.a[1]) == "starts_with" and e.b is True
                                               and e.a[2][1] == T("const", T("str", "event")) for e in q.events) for q in outer)
            ok = (isinstance(pb, tuple) and pb[0] == "call" and method_name(pb[1]) == "new" and len(pushes) == 2 and pushes[0].b[1] == T("const", T("str", "/dev"))
                  and len(key) == 1 and mentions(pushes[1].b[1], mir.strip(key[0].a[2][0])) and ev_child)
            ck.ob("C16-R3", fn, "device-node-is-/dev/<DEVNAME-of-the-device's-uevent>", ok, site=pushes[0].span if pushes else None)
    ck.floor("C16-R3", "dev-path-return-sites", n, 1)


def auto_mode_rule(ctx, ck):
    """--auto-all-keyboards: on every pass over the listed, non-excluded keyboards a device is opened exactly when no running
    loop has its path:  !children.iter().any(|c| c.dev_path == dev.dev_path)"""
    from .. import tables
    fn = "remapping_loop::do_remapping_loop_auto_all_devices"
    if not ctx.has_body(fn):
        return
    b = ctx.body(fn)
    n = 0
    for h in sorted(b.loops()):
        ps = mir.walk_loop_only(b, h)
        if not any(e.kind == "call" and e.a == "remapping_loop::open_device" for p in ps for e in p.events):
            continue
        if any(hh != h and hh in b.loops()[h] and any(e.kind == "call" and e.a == "remapping_loop::open_device" for p in mir.walk_loop_only(b, hh) for e in p.events) for hh in b.loops()):
            continue      # an outer loop: judged at the loop that visits the devices
        for p in ps:
            if p.outcome != ("backedge", h):
                continue
            opened = [e for e in p.events if e.kind == "call" and e.a == "remapping_loop::open_device"]
            have = [(e.a, e.b) for e in p.events if e.kind == "guard" and isinstance(e.a, tuple) and e.a[0] == "call" and method_name(e.a[1]) == "any"]
            if len(have) != 1:
                ck.ob("C16-R7", fn, "auto-mode:running-test-is-one-any()-over-the-children", False, detail="%d" % len(have))
                continue
            n += 1
            a, v = have[0]
            sc = tables.closure_scan(ctx.body, a)
            dev = None
            shape = False
            if not sc.problems and len(sc.set_paths) == 1 and len(sc.set_paths[0]) == 1:
                at, val = sc.set_paths[0][0]
                if val is True and isinstance(at, tuple) and at[0] == "eq":
                    x, y = mir.strip(at[1]), mir.strip(at[2])
                    el = T("elem", sc.iter_term, None)
                    for u, w in ((x, y), (y, x)):
                        if isinstance(u, tuple) and u[0] == "field" and u[2] == "dev_path" and mir.strip(u[1]) == el and isinstance(w, tuple) and w[0] == "field" and w[2] == "dev_path":
                            dev = mir.strip(w[1])
                            shape = True
            ck.ob("C16-R7", fn, "auto-mode:a-device-counts-as-running-iff-some-child-has-its-dev_path", shape, detail=None if shape else str(sc.problems[:1] or [show(a)[:100]]))
            if opened:
                arg_ok = dev is not None and mentions(opened[0].b[0], dev)
                ck.ob("C16-R7", fn, "auto-mode:opened-only-when-not-already-running,and-it-is-that-device", v is False and arg_ok, site=opened[0].span)
            else:
                ck.ob("C16-R7", fn, "auto-mode:passed-over-only-when-already-running", v is True)
    ck.floor("C16-R7", "auto-mode-device-paths", n, 2)


def _pat_variant(p):
    if p.get("k") in ("Struct", "TupleStruct"):
        return p["res"].get("path", "").rsplit("::", 1)[-1]
    if p.get("k") == "Expr" and p["e"].get("k") == "Path":
        return p["e"]["res"].get("path", "").rsplit("::", 1)[-1]
    return p.get("k")


def r5_mask_words(ctx, ck):
    """parse_mask_hex: the KEY=/EV= mask is a list of 64-bit words, most significant first; the classification reads
    fixed kernel key numbers out of it, so bit b of the w-th word FROM THE RIGHT must become number 64*w+b with w
    counting EVERY word (a zero word still occupies its position)"""
    from .. import ktloops
    fn = "keyboard_listing::parse_mask_hex"
    b = ctx.body(fn)
    hexs = T("param", 1, b.dbg.get(1, ""))
    outer = [h for h in b.loops() if not any(h in blks and hh != h for hh, blks in b.loops().items())]
    ck.ob("C16-R5", fn, "one-loop-over-the-words", len(outer) == 1)
    if len(outer) != 1:
        return
    h = outer[0]
    il = ktloops.index_loop(b, h)
    src = il.list_term
    direct = isinstance(src, tuple) and src[0] == "call" and mir.method_name(src[1]) == "rsplit" and mir.strip(src[2][0]) == hexs and mir.const_int(src[2][1]) == 32
    ck.ob("C16-R5", fn, "words-taken-from-the-right,every-one-of-them(no-filtering)", il.kind == "for-elements" and direct and il.complete,
          detail=show(src)[:100] if src else None)
    from .c13s import _err_exit
    ck.ob("C16-R5", fn, "left-early-only-on-a-parse-error", not [p for p in il.break_paths if not _err_exit(p)])
    # word counter
    counters = set()
    okc = bool(il.cont_paths)
    for p in il.cont_paths:
        sets = [e for e in p.events if e.kind == "set" and isinstance(e.b, tuple) and e.b[0] == "binop" and e.b[1] == "Add" and mir.const_int(e.b[3]) == 1
                and isinstance(e.b[2], tuple) and e.b[2][0] == "loopvar" and e.b[2][2] == e.a]
        data = [e for e in p.events if e.kind == "guard" and not (isinstance(e.a, tuple) and e.a[0] == "variantof")]
        okc = okc and len(sets) == 1 and not data
        for e in sets:
            counters.add(e.a)
    ck.ob("C16-R5", fn, "word-index-advances-by-one-for-every-word,unconditionally", okc and len(counters) == 1)
    if len(counters) != 1:
        return
    cl = list(counters)[0]
    init = [st for blk in (b.blocks.values() if isinstance(b.blocks, dict) else b.blocks) for st in blk["stmts"] if st["k"] == "assign" and not st["lhs"]["p"] and st["lhs"]["l"] == cl and st["rv"]["k"] == "use" and st["rv"]["op"]["k"] == "const"]
    ck.ob("C16-R5", fn, "word-index-starts-at-0", len(init) == 1 and mir.const_int(mir.Evaluator(b, {}).operand(init[0]["rv"]["op"])) == 0)
    inner = [hh for hh in b.loops() if hh != h and hh in b.loops()[h]]
    okb = len(inner) == 1
    if okb:
        il2 = ktloops.index_loop(b, inner[0])
        rng = None
        for q in il2.cont_paths + il2.exh_paths:
            for e in q.events:
                if e.kind == "guard" and isinstance(e.a, tuple) and e.a[0] == "variantof" and isinstance(e.a[1], tuple) and e.a[1][0] == "next":
                    rng = e.a[1][1][1]
        okr = isinstance(rng, tuple) and rng[0] == "agg" and rng[1] == "std::ops::Range" and mir.const_int(rng[3][0]) == 0 and mir.const_int(rng[3][1]) in (63, 64) \
            and bool(il2.exh_paths) and not il2.break_paths
        ck.ob("C16-R5", fn, "bits-0..63-of-each-word-visited", okr, detail=show(rng)[:60] if rng else None)
        bit = T("elem", T("iter", rng, "fwd"), inner[0]) if rng else None
        seen = set()
        for q in il2.cont_paths:
            g = [(e.a, e.b) for e in q.events if e.kind == "guard" and not (isinstance(e.a, tuple) and e.a[0] == "variantof")]
            ins = [e for e in q.events if e.kind == "call" and mir.method_name(e.a) == "insert"]
            if len(g) != 1:
                okb = False
                continue
            a, v = g[0]
            # (num & (1 << i)) == 0   False  <=> bit set
            is_test = isinstance(a, tuple) and a[0] == "eq" and any(isinstance(s_, tuple) and s_[:2] == ("binop", "BitAnd") for s_ in mir.subterms(a)) \
                and any(isinstance(s_, tuple) and s_[:2] == ("binop", "Shl") and mir.const_int(s_[2]) == 1 for s_ in mir.subterms(a))
            if not is_test:
                # `!= 0` may also be normalised as not(eq)
                is_test = any(isinstance(s_, tuple) and s_[:2] == ("binop", "BitAnd") for s_ in mir.subterms(a))
            setbit = (v is False) if (isinstance(a, tuple) and a[0] == "eq") else (v is True)
            seen.add(setbit)
            if setbit:
                want_ok = False
                if len(ins) == 1:
                    val = ins[0].b[1]
                    want_ok = (isinstance(val, tuple) and val[0] == "binop" and val[1] == "Add" and isinstance(val[2], tuple) and val[2][0] == "cast"
                               and isinstance(val[3], tuple) and val[3][0] == "binop" and val[3][1] == "Mul" and mir.const_int(val[3][3]) == 64
                               and isinstance(val[3][2], tuple) and val[3][2][0] in ("var", "loopvar") and val[3][2][1 if val[3][2][0] == "var" else 2] == cl)
                okb = okb and is_test and want_ok
            else:
                okb = okb and is_test and not ins
        okb = okb and seen == {True, False}
    ck.ob("C16-R5", fn, "a-set-bit-b-of-word-w-yields-number-64*w+b,a-clear-bit-nothing", okb)


def _is_device_name(e, env):
    """does the expression read the device's `name`: a `.name` field, a parameter bound to one at the call, or a call of a
    closure parameter whose closure (at the call site) reads it"""
    for x in hirq.walk(e):
        if x.get("k") == "Field" and x.get("name") == "name":
            return True
        if x.get("k") == "Path" and x["res"].get("k") == "local" and env.get(x["res"]["id"]) == "name":
            return True
        if x.get("k") == "Call" and x["f"].get("k") == "Path" and x["f"]["res"].get("k") == "local":
            b = env.get(x["f"]["res"]["id"])
            if isinstance(b, tuple) and b[0] == "closure" and _is_device_name(b[1]["body"], b[2]):
                return True
    return False


def _match_sites(ctx, h, env, depth):
    """(WildMatch::matches call sites as `argument is the device name`, number of Iterator::any calls), looking through
    crate-local helpers that are not on the pinned tree (a shared helper the two flaggers were merged into)"""
    from ..splice import known_functions
    sites, anys = [], 0
    for c in hirq.calls(h["body"]):
        cal = hirq.callee_of(c) or ""
        if cal.startswith("wildmatch::") and "WildMatch" in cal and cal.endswith("::matches"):      # the glob crate's own matcher, not a local type of the same name
            sites.append(_is_device_name(c["args"][0], env))
        elif cal.endswith("Iterator::any"):
            anys += 1
        elif depth < 2 and cal in ctx.F.hir and cal not in known_functions() and "{closure" not in cal:
            hh = ctx.hir(cal)
            env2 = {}
            for prm, arg in zip(hh["params"], hirq.call_args(c)):
                if prm.get("k") != "Binding":
                    continue
                if arg.get("k") == "Closure":
                    env2[prm["id"]] = ("closure", arg, env)
                elif _is_device_name(arg, env):
                    env2[prm["id"]] = "name"
            s2, a2 = _match_sites(ctx, hh, env2, depth + 1)
            sites += s2
            anys += a2
    return sites, anys
