"""C12 — tablet mode silences the virtual keyboard (segment rules on the per-device loop)."""
from .. import mir, loopseg
from ..loopseg import LoopModel, Roles, Trace, payload_kind, DRV, STEP, RELALL, LOOP, const_bool
from ..mir import T, show

LEVEL = "other"
META = {
    "technique": "MIR segment graph + finite abstract interpretation of the tablet flag (constant/guard tracking per segment)",
    "level_text": ("Structural proof on every segment of the per-device loop: Mapper::step and every send of a step result "
                   "or repeat chord happen only where the tablet flag is known false; the On and Off arms both set the "
                   "flag, stop the timer, call release_all and send exactly its result (or nothing when empty) before the "
                   "next read; release_all results are sent nowhere else; while the flag is true keyboard reads continue "
                   "but reach no step, send or timer write."),
    "level_note": ("Trusted: rustc MIR, tmfacts, path walker. The clause 'nothing at all until it turns off' additionally "
                   "uses the paper argument of DESIGN.md C12 (release_all empties the mapper's input set; rules C06-R1, "
                   "C01-R6). 'Resumes as from a fresh start' inherits C06's limit and is not decided."),
}

# --- additions to the level description (rules added after the first version)
META['level_text'] += ' R5: release_all itself runs its loop over a snapshot of all held input keys to exhaustion on every return path (shared with C06-R1).'
META['level_text'] += ' R6: the tablet-switch reader answers On/Off exactly for the records (EV_SW, SW_TABLET_MODE, 1/0) and reads on after every other record.'
# --- end additions


def run(ctx):
    ck = ctx.check
    ck.rule_text = "one obligation per (rule, segment class) over all segments of the per-device loop"
    ck.trusted_base = ["rustc front end + MIR builder", "tmfacts exporter", "tmv path walker / segment model"]
    M = LoopModel(ctx)
    R = Roles(M)
    fn = LOOP
    # the reset itself: release_all forgets every held key on every path (shared with C06-R1)
    from . import c06
    from .. import kt
    c06.release_all_rules(ctx, ck, kt.KT(ctx), "C12-R5")
    ck.analysed["segments"] = len(M.segments)
    ck.explanation = ("Flag identified by role (the only bool written with opposite constants in the On and Off arms; debug "
                      "name %r). Its value at each STEP/SEND is read off the segment: a constant after an assignment, or the "
                      "polarity of the dominating guard on the segment-entry value. %d segments analysed."
                      % (M.body.dbg.get(R.flag), len(M.segments)))
    ck.ob("C12-roles", fn, "flag-arms", R.flag_arms == {("On", True), ("Off", False)},
          detail="flag constants per arm: %s" % sorted(R.flag_arms))
    # initial value of the flag: false before the first POLL
    for s in M.from_("ENTRY"):
        if s.dst != "POLL":
            continue
        tr = Trace(s, R)
        sets = tr.of("SETFLAG")
        ok = bool(sets) and const_bool(sets[-1][1].b) is False
        ck.ob("C12-R1", fn, "flag-initially-false", ok)

    n_step = n_send = 0
    for s in M.segments:
        tr = Trace(s, R)
        # R1: step / step-send / chord-send only with flag == false
        for it in tr.of("STEP"):
            n_step += 1
            ck.ob("C12-R1", fn, "STEP-requires-flag-false@%s" % s.src, it[2] is False,
                  detail=None if it[2] is False else "flag value at Mapper::step is %s" % it[2], site=it[1].span)
        for it in tr.of("SEND"):
            kind, src = payload_kind(M, it[1])
            n_send += 1
            if kind in ("STEP", "CHORD", "OTHER"):
                ck.ob("C12-R1", fn, "SEND(%s)-requires-flag-false@%s" % (kind, s.src), it[2] is False,
                      detail=None if it[2] is False else "flag value at the send is %s" % it[2], site=it[1].span)
            if kind == "RELALL":
                # R3: only inside the tablet arms
                v, _ = LoopModel.result_variant(s, "next_tablet")
                ck.ob("C12-R3", fn, "SEND(RELALL)-only-in-tablet-arms", s.src == "NEXT_TAB" and v == "One",
                      detail=None if (s.src == "NEXT_TAB" and v == "One") else "release_all result sent from a %s segment" % s.src)
        # R4: flag true at a keyboard event => drained silently
        if s.src == "NEXT_KB":
            v, Rt = LoopModel.result_variant(s, "next_keyboard")
            if v == "One":
                f0 = None
                for e in s.events:
                    if e.kind == "guard" and e.a == R.var0(R.flag):
                        f0 = e.b
                        break
                if f0 is True:
                    quiet = not (tr.of("SEND") or tr.of("STEP") or tr.of("RELALL") or tr.of("SETTIMER") or tr.of("SETFLAG"))
                    # (where the loop goes next -- another read, the next device -- is the drain rule of C10)
                    ck.ob("C12-R4", fn, "tablet-mode:keyboard-event-dropped-silently", quiet and s.dst != "RETURN",
                          detail=None if (quiet and s.dst == "NEXT_KB") else "dst %s quiet %s" % (s.dst, quiet))
        # timer tick in tablet mode: no chord, timer cleared (shared with C11-R2)
        if s.src == "POLL":
            v, _ = LoopModel.result_variant(s, "poll")
            if v == "TimedOut":
                f0 = None
                for e in s.events:
                    if e.kind == "guard" and e.a == R.var0(R.flag):
                        f0 = e.b
                        break
                if f0 is True:
                    quiet = not (tr.of("SEND") or tr.of("STEP") or tr.of("RELALL"))
                    ck.ob("C12-R1", fn, "tablet-mode:timer-tick-sends-nothing", quiet)

    ck.floor("C12-R1", "step-events", n_step, 1)
    ck.floor("C12-R1", "send-events", n_send, 2)

    # R2: the two arms
    arms_seen = set()
    for s in M.from_("NEXT_TAB"):
        v, Rt = LoopModel.result_variant(s, "next_tablet")
        if v != "One":
            continue
        arm = s.guard_val(lambda a: a == T("variantof", T("field", T("variant", LoopModel.ok_base(s, Rt), "One"), "0")))
        if arm not in ("On", "Off"):
            ck.ob("C12-R2", fn, "arm-recognised", False, detail="tablet event variant %s" % (arm,))
            continue
        arms_seen.add(arm)
        tr = Trace(s, R)
        want = (arm == "On")
        flags = tr.of("SETFLAG")
        okf = len(flags) >= 1 and const_bool(flags[-1][1].b) is want
        ck.ob("C12-R2", fn, "%s:sets-flag-%s" % (arm, str(want).lower()), okf)
        timers = tr.of("SETTIMER")
        okt = len(timers) >= 1 and tr.timer_state(timers[-1][3]) == "Idle"
        ck.ob("C12-R2", fn, "%s:stops-timer" % arm, okt)
        rel = tr.of("RELALL")
        ck.ob("C12-R2", fn, "%s:calls-release_all-once" % arm, len(rel) == 1)
        if len(rel) == 1:
            rcall = rel[0][1].c
            idx = s.events.index(rel[0][1])
            after = s.events[idx + 1:]
            sends = [e for e in after if e.kind == "call" and e.a == DRV + "send"]
            mine = [e for e in sends if len(e.b) > 1 and e.b[1] == rcall]
            empty_true = any(e.kind == "guard" and e.a == T("empty", rcall) and e.b is True for e in after)
            if empty_true:
                ck.ob("C12-R2", fn, "%s:empty-release->no-send" % arm, not sends)
            else:
                ck.ob("C12-R2", fn, "%s:release-events-sent-exactly-once" % arm, len(mine) == 1 and len(sends) == 1,
                      detail=None if (len(mine) == 1 and len(sends) == 1) else "%d sends, %d of the release_all result" % (len(sends), len(mine)))
            before = s.events[:idx]
            ck.ob("C12-R2", fn, "%s:no-send-before-release_all" % arm,
                  not any(e.kind == "call" and e.a == DRV + "send" for e in before))
        ok_dst = s.dst == "NEXT_TAB" or (s.dst == "RETURN" and s.outcome[1][0] == "from_residual")
        ck.ob("C12-R2", fn, "%s:before-next-read" % arm, ok_dst, detail=None if ok_dst else "arm leads to %s" % s.dst)
        ck.ob("C12-R2", fn, "%s:no-step" % arm, not tr.of("STEP"))
    ck.ob("C12-R2", fn, "both-arms-present", arms_seen == {"On", "Off"}, detail=str(sorted(arms_seen)))
    tablet_reader_table(ctx, ck)


def tablet_reader_table(ctx, ck):
    """what the loop is told about the switch is what the kernel reported: the reader answers On exactly for the record
    (EV_SW=5, SW_TABLET_MODE=1, value 1), Off exactly for (5, 1, 0), and reads on after every other record"""
    from ..mir import Walker
    fn = "tablet_mode_switch_reader::TabletModeSwitchReader::next"
    if not ctx.has_body(fn):
        ck.unrecognised("C12-R6", fn, "missing")
        return
    b = ctx.body(fn)

    def field_of(t):
        offs = sorted({mir.const_int(x[2]) for x in mir.subterms(t) if isinstance(x, tuple) and x and x[0] == "index" and mir.const_int(x[2]) is not None})
        return {(16, 17): "type", (18, 19): "code", (20, 21, 22, 23): "value"}.get(tuple(offs))

    def facts_of(p):
        out = {}
        for e in p.events:
            if e.kind != "guard":
                continue
            ec = Walker._eq_const(e.a)
            if ec is not None and isinstance(e.b, bool):
                f = field_of(ec[0])
                if f:
                    out[(f, ec[1])] = e.b
            elif isinstance(e.a, tuple) and isinstance(e.b, int) and not isinstance(e.b, bool) and field_of(e.a):
                out[(field_of(e.a), e.b)] = True          # a match arm on the field's value
            elif isinstance(e.a, tuple) and isinstance(e.b, tuple) and e.b and e.b[0] == "other" and field_of(e.a):
                for v_ in e.b[1]:
                    out[(field_of(e.a), v_)] = False      # the wildcard arm: none of the listed values
        return out
    levels = [mir.walk_function(b)] + [mir.walk_loop_body(b, h) for h in sorted(b.loops())]
    seen = set()
    for paths in levels:
        for p in paths:
            if p.outcome[0] == "return" and isinstance(p.outcome[1], tuple) and p.outcome[1][0] == "agg" and p.outcome[1][2] == "Ok":
                pay = p.outcome[1][3][0]
                v = pay[2] if isinstance(pay, tuple) and pay[0] == "agg" else None
                f = facts_of(p)
                if any(e.kind == "loop" for e in p.events):
                    continue
                want = {"On": 1, "Off": 0}.get(v)
                ok = want is not None and f.get(("type", 5)) is True and f.get(("code", 1)) is True and f.get(("value", want)) is True
                seen.add(v)
                ck.ob("C12-R6", fn, "%s-only-for-the-record(EV_SW,SW_TABLET_MODE,%s)" % (v, want), ok, detail=None if ok else str(sorted(f.items())))
            elif p.outcome[0] == "backedge":
                f = facts_of(p)
                reason = f.get(("type", 5)) is False or f.get(("code", 1)) is False or (f.get(("value", 1)) is False and f.get(("value", 0)) is False)
                seen.add("other")
                ck.ob("C12-R6", fn, "reads-on-only-after-a-record-that-is-not-a-tablet-switch-report", reason, detail=None if reason else str(sorted(f.items())))
    ck.ob("C12-R6", fn, "On,Off-and-skip-classes-present", seen >= {"On", "Off", "other"}, detail=str(sorted(map(str, seen))))

