"""C17 — exclude patterns reach the service's command line unchanged."""
import os
import re
import sys
import unicodedata

from .. import mir, rustlit
from ..facts import VERIF
from ..mir import T, show, const_int, Walker, subterms

sys.path.insert(0, os.path.join(VERIF, "oracles"))
import systemd_cmdline as sd  # noqa: E402

LEVEL = "other"
META = {
    "technique": "table extraction (per-character escape table + format templates from MIR/macro call sites) and agreement with a systemd command-line grammar oracle, exhaustive over the finite class partition of Unicode scalars",
    "level_text": ("The escaper is read as a table: explicit arms (char -> literal) and classes split by is_control / <128 / <0x10000 "
                   "with their output templates. Every explicit arm, every control character (all 65 Cc scalars) and the identity "
                   "class (sound iff it contains no systemd-significant character) are decoded with an independent systemd grammar "
                   "oracle and must give back the character; every output is a self-delimiting unit, so concatenation decodes "
                   "character by character; the wrappers map/concatenate in order and keep the surrounding arguments intact. "
                   "Thorough tier enumerates all 1,112,063 non-NUL scalars and all pairs over the syntax-relevant characters "
                   "through the extracted table."),
    "level_note": ("Trusted: the oracle transcription of systemd.service(5)/systemd.syntax(7) (oracles/systemd_cmdline.py), "
                   "char::is_control == general category Cc (std contract), format!'s {:0Nx} semantics, rustc MIR, tmfacts. "
                   "NUL and the empty pattern are excluded by the property."),
}
# --- additions to the level description (rules added after the first version)
META['level_text'] += ' R4 also: the unit file is opened with write+truncate, never append.'
# --- end additions

ESC = "udev_utils::escape_one_char"
ARG = "udev_utils::systemd_arg_escape"
EXC = "udev_utils::build_exclude_text"
SVC = "udev_utils::build_service_text"

SIGNIFICANT = [" ", "\t", "\n", "\r", '"', "'", "\\", "%", "$", ";"]


class Table:
    def __init__(self):
        self.arms = {}       # code point -> literal output
        self.classes = []    # (conds dict, template spec)
        self.problems = []

    def apply(self, cp):
        if cp in self.arms:
            return self.arms[cp]
        ch = chr(cp)
        ctrl = unicodedata.category(ch) == "Cc"
        for conds, spec in self.classes:
            ok = True
            for k, v in conds.items():
                if k == "control":
                    ok = ok and (ctrl == v)
                elif k[0] == "lt":
                    ok = ok and ((cp < k[1]) == v)
                elif k[0] == "cmp":
                    ok = ok and (_cmp(k, cp) == v)
            if ok:
                return render(spec, cp)
        return None


def render(spec, cp):
    kind = spec["kind"]
    if kind == "identity":
        return chr(cp)
    pre, post = spec["prefix"], spec["suffix"]
    if spec["radix"] == 16:
        digits = "%x" % cp
    else:
        digits = "%d" % cp
    if spec["width"] and len(digits) < spec["width"]:
        digits = spec["fill"] * (spec["width"] - len(digits)) + digits
    return pre + digits + post


FMT_RE = re.compile(r"\{(?P<arg>[A-Za-z0-9_]*)(?::(?P<spec>[^}]*))?\}")
SPEC_RE = re.compile(r"^(?:(?P<fill>.)?(?P<align>[<^>]))?(?P<sign>[+-])?(?P<alt>#)?(?P<zero>0)?(?P<width>\d+)?(?:\.(?P<prec>\d+))?(?P<ty>[a-zA-Z?]*)$")


def parse_template(tmpl):
    """single-placeholder template -> spec dict or None"""
    t2 = tmpl.replace("{{", "\x00").replace("}}", "\x01")
    ms = list(FMT_RE.finditer(t2))
    if len(ms) != 1:
        return None
    m = ms[0]
    pre = t2[:m.start()].replace("\x00", "{").replace("\x01", "}")
    suf = t2[m.end():].replace("\x00", "{").replace("\x01", "}")
    spec = m.group("spec") or ""
    sm = SPEC_RE.match(spec)
    if not sm:
        return None
    ty = sm.group("ty") or ""
    width = int(sm.group("width")) if sm.group("width") else 0
    fill = " "
    if sm.group("zero"):
        fill = "0"
        if sm.group("align") and sm.group("align") != ">":
            return None
    elif sm.group("align"):
        if sm.group("align") != ">":
            return None
        fill = sm.group("fill") or " "
    elif width:
        fill = " "   # numbers are right-aligned with spaces by default
    return {"prefix": pre, "suffix": suf, "width": width, "fill": fill, "ty": ty, "alt": bool(sm.group("alt")), "raw": tmpl}


def extract_table(ctx, ck):
    b = ctx.body(ESC)
    c = T("param", 1, b.dbg.get(1, ""))
    tab = Table()
    for p in mir.walk_function(b):
        if p.outcome[0] != "return":
            continue
        ret = p.outcome[1]
        arm = None
        conds = {}
        bad = False
        for a, v in p.guards():
            if a == c:
                if isinstance(v, int):
                    arm = v
                continue
            ec = Walker._eq_const(a)
            if ec is not None and ec[0] == c and isinstance(v, bool):
                if v:
                    arm = ec[1]
                continue
            if isinstance(a, tuple) and a[0] == "call" and a[1].endswith("char::methods::<impl char>::is_control") and a[2] == (c,):
                conds["control"] = v
                continue
            if isinstance(a, tuple) and a[0] == "binop" and a[1] == "Lt" and _uncast(a[2]) == c and const_int(a[3]) is not None:
                conds[("lt", const_int(a[3]))] = v
                continue
            # range patterns (`0..=127 =>`) and the other comparison operators, constant on either side
            if isinstance(a, tuple) and a[0] == "binop" and a[1] in ("Lt", "Le", "Gt", "Ge"):
                if _uncast(a[2]) == c and const_int(a[3]) is not None:
                    conds[("cmp", a[1], "x?K", const_int(a[3]))] = v
                    continue
                if _uncast(a[3]) == c and const_int(a[2]) is not None:
                    conds[("cmp", a[1], "K?x", const_int(a[2]))] = v
                    continue
            bad = True
            tab.problems.append("unrecognised condition %s" % show(a)[:80])
        if bad:
            continue
        if arm is not None:
            lit = None
            if isinstance(ret, tuple) and ret[0] == "call" and mir.method_name(ret[1]) in ("to_owned", "to_string", "from", "into") and len(ret[2]) == 1:
                a0 = ret[2][0]
                if isinstance(a0, tuple) and a0[0] == "const" and a0[1][0] == "str":
                    lit = a0[1][1]
            if lit is None:
                tab.problems.append("arm %r does not return a literal" % chr(arm))
                continue
            tab.arms[arm] = lit
            continue
        # class leaf: the character itself, as c.to_string() / String::from(c)
        r0 = mir.strip(ret)
        if isinstance(r0, tuple) and r0[0] == "call" and mir.method_name(r0[1]) in ("to_string", "from", "into") and len(r0[2]) == 1 and mir.strip(r0[2][0]) == c \
                and ("char" in r0[1] or "String" in r0[1] or "ToString" in r0[1]):
            tab.classes.append((conds, {"kind": "identity", "prefix": "", "suffix": "", "width": 0, "fill": " ", "ty": "", "alt": False, "raw": "to_string"}))
            continue
        # class leaf: format!(template, value)
        fmt = [s for s in subterms(ret) if isinstance(s, tuple) and s and s[0] == "call" and s[1].startswith("std::fmt::Arguments::") and mir.method_name(s[1]) == "new"]
        if len(fmt) != 1:
            tab.problems.append("class leaf is not a single format!: %s" % show(ret)[:80])
            continue
        blk = fmt[0][3]
        sp = b.blocks[blk]["term"]["span"]
        tmpl = rustlit.first_string_literal(sp.get("snippet", "")) if re.match(r"^\s*format!", sp.get("snippet", "")) else None
        if tmpl is None:
            tab.problems.append("format! template not readable at line %s" % sp.get("line"))
            continue
        spec = parse_template(tmpl)
        if spec is None:
            tab.problems.append("format spec not understood: %r" % tmpl)
            continue
        argf = [s for s in subterms(ret) if isinstance(s, tuple) and s and s[0] == "call" and s[1].startswith("core::fmt::rt::Argument::")]
        if len(argf) != 1:
            tab.problems.append("format argument shape")
            continue
        fn = mir.method_name(argf[0][1])
        val = argf[0][2][0]
        if fn == "new_display" and val == c and spec["ty"] == "" and not spec["width"] and spec["prefix"] == "" and spec["suffix"] == "":
            spec["kind"] = "identity"
        elif _uncast(val) == c and fn in ("new_lower_hex", "new_upper_hex", "new_display"):
            radix = {"new_lower_hex": 16, "new_upper_hex": 16, "new_display": 10}[fn]
            ty_ok = {"new_lower_hex": "x", "new_upper_hex": "X", "new_display": ""}[fn] == spec["ty"]
            if not ty_ok or spec["alt"]:
                tab.problems.append("formatter/spec disagreement %s vs %r" % (fn, tmpl))
                continue
            spec["kind"] = "numeric"
            spec["radix"] = radix
            spec["upper"] = fn == "new_upper_hex"
        else:
            tab.problems.append("class value is not the character: %s" % show(val)[:60])
            continue
        tab.classes.append((conds, spec))
    return tab


def _uncast(t):
    while isinstance(t, tuple) and t and t[0] == "cast":
        t = t[1]
    return t


def _in_class(conds, cp):
    for k, v in conds.items():
        if k == "control":
            if (unicodedata.category(chr(cp)) == "Cc") != v:
                return False
        elif k[0] == "lt":
            if (cp < k[1]) != v:
                return False
        elif k[0] == "cmp":
            if _cmp(k, cp) != v:
                return False
    return True


def _cmp(k, cp):
    _, op, side, K = k
    a, b = (cp, K) if side == "x?K" else (K, cp)
    return {"Lt": a < b, "Le": a <= b, "Gt": a > b, "Ge": a >= b}[op]


def unit_kind(out):
    """classifies one character's output as a self-delimiting unit"""
    if re.fullmatch(r"\\[abfnrtv\\\"'s]", out):
        return "simple-escape"
    if re.fullmatch(r"\\x[0-9a-fA-F]{2}", out):
        return "hex2"
    if re.fullmatch(r"\\u[0-9a-fA-F]{4}", out):
        return "hex4"
    if re.fullmatch(r"\\U[0-9a-fA-F]{8}", out):
        return "hex8"
    if out in ("%%", "$$"):
        return "doubled"
    if len(out) == 1 and out not in SIGNIFICANT:
        return "ordinary"
    return None


def decodes_to(out, ch, ctx_prefix="--exclude "):
    try:
        av = sd.argv(ctx_prefix + out)
    except sd.ParseError as ex:
        return False, "oracle rejects %r: %s" % (out, ex)
    want = ch.encode("utf-8", "surrogatepass")
    if av == [b"--exclude", want]:
        return True, None
    return False, "systemd reads %r as %r" % (ctx_prefix + out, av)


def run(ctx):
    ck = ctx.check
    ck.rule_text = ("obligations: one per explicit arm, one per control character (65), one per systemd-significant character, one for the "
                    "identity class, per-unit self-delimitation, wrapper shape; thorough: every scalar and every pair over the significant set")
    ck.trusted_base = ["oracles/systemd_cmdline.py (man-page transcription)", "char::is_control == Cc", "format! width/fill/radix semantics", "rustc MIR", "tmfacts"]
    tab = extract_table(ctx, ck)
    ck.analysed["explicit_arms"] = len(tab.arms)
    ck.analysed["classes"] = [(sorted((str(k), v) for k, v in c.items()), s["raw"] if s["kind"] != "identity" else "{}") for c, s in tab.classes]
    ck.explanation = ("escape_one_char read as a table: %d explicit arms, %d classes %s. Each row is decoded by the systemd oracle."
                      % (len(tab.arms), len(tab.classes), [s.get("raw") for _, s in tab.classes]))
    ck.ob("C17-R1", ESC, "table-extracted", not tab.problems, detail="; ".join(tab.problems)[:400] or None)
    ck.floor("C17-R1", "explicit-arms", len(tab.arms), 11)
    ck.floor("C17-R1", "classes", len(tab.classes), 4)

    # R1/R2 explicit arms
    for cp, lit in sorted(tab.arms.items()):
        ch = chr(cp)
        ok, why = decodes_to(lit, ch)
        ck.ob("C17-R1", ESC, "arm-U+%04X-decodes-to-itself" % cp, ok, detail=why or "%r -> %r" % (ch, lit))
        ck.ob("C17-R2", ESC, "arm-U+%04X-is-self-delimiting" % cp, unit_kind(lit) is not None, detail="%r" % lit)
    # control characters (exhaustive: category Cc), NUL excluded
    ccs = [cp for cp in range(1, 0x110000) if unicodedata.category(chr(cp)) == "Cc"] if False else \
          [cp for cp in list(range(1, 0x20)) + list(range(0x7f, 0xa0))]
    assert all(unicodedata.category(chr(cp)) == "Cc" for cp in ccs)
    nbad = 0
    for cp in ccs:
        out = tab.apply(cp)
        if out is None:
            nbad += 1
            ck.ob("C17-R1", ESC, "control-U+%04X-has-a-row" % cp, False)
            continue
        ok, why = decodes_to(out, chr(cp))
        uk = unit_kind(out)
        if not ok or uk is None:
            nbad += 1
            ck.ob("C17-R1", ESC, "control-U+%04X-decodes-to-itself" % cp, False, detail=why or "output %r is not a self-delimiting unit" % out)
    ck.ob("C17-R1", ESC, "all-control-characters-decode-to-themselves", nbad == 0, detail="%d Cc scalars checked, %d failures" % (len(ccs), nbad))
    # class bounds fit the widths (symbolic check, independent of the enumeration)
    for conds, spec in tab.classes:
        if spec["kind"] != "numeric":
            continue
        members = [cp for cp in ccs if tab.apply(cp) is not None and cp not in tab.arms and _in_class(conds, cp)]
        pre = spec["prefix"]
        if not members:
            ck.note("class %r has no member among the control characters (dead branch); width check vacuous" % spec["raw"])
            ck.ob("C17-R1", ESC, "class-%s-template-is-fixed-width-hex-and-bound-fits" % pre.replace("\\", "bs-"), True,
                  detail="no control character falls into this class")
            continue
        hi = max(members)
        need = {"\\x": 2, "\\u": 4, "\\U": 8}.get(pre)
        ok = (need is not None and spec["radix"] == 16 and spec["fill"] == "0" and spec["width"] == need
              and len("%x" % hi) <= need and spec["suffix"] == "")
        ck.ob("C17-R1", ESC, "class-%s-template-is-fixed-width-hex-and-bound-fits" % pre.replace("\\", "bs-"), ok,
              detail="template %r, radix %d, fill %r, width %d, largest member U+%X" % (spec["raw"], spec.get("radix", 0), spec["fill"], spec["width"], hi))
    # identity class: sound iff no significant character falls into it
    for s in SIGNIFICANT:
        cp = ord(s)
        out = tab.apply(cp)
        covered = cp in tab.arms or unicodedata.category(s) == "Cc"
        ok = covered and out is not None and decodes_to(out, s)[0]
        if s in "%$":
            # unescaping happens before specifier/variable expansion: only doubling protects these two,
            # whatever follows them in the pattern
            ok = ok and out == s * 2
        ck.ob("C17-R1", ESC, "significant-U+%04X-is-escaped" % cp, ok,
              detail=None if ok else "%r comes out as %r: %s" % (s, out, decodes_to(out, s)[1] if out is not None else "no row"))
    ident = [sp for c, sp in tab.classes if sp["kind"] == "identity"]
    ident_conds = [c for c, sp in tab.classes if sp["kind"] == "identity"]
    ck.ob("C17-R1", ESC, "identity-class-is-the-non-control-remainder", len(ident) == 1 and ident_conds[0] == {"control": False},
          detail=str(ident_conds))
    # sample of ordinary characters through the oracle (the class argument covers the rest)
    for cp in (0x41, 0x7e, 0xe9, 0x2028, 0x1f600, 0x2a if 0x2a not in tab.arms else 0x42):
        out = tab.apply(cp)
        ok = out is not None and decodes_to(out, chr(cp))[0]
        ck.ob("C17-R1", ESC, "ordinary-sample-decodes-to-itself", ok, detail=None if ok else "U+%04X -> %r" % (cp, out))

    # ---------------- R3 wrappers
    ab = ctx.body(ARG)
    loops = list(ab.loops())
    ok_loop = False
    if len(loops) == 1:
        h = loops[0]
        ps = Walker(ab).walk(h, start_is_header=True)
        back = [p for p in ps if p.outcome == ("backedge", h)]
        rets = [p for p in ps if p.outcome[0] == "return"]
        text = T("param", 1, ab.dbg.get(1, ""))
        if len(back) == 1 and rets:
            ext = [e for e in back[0].events if e.kind == "call" and mir.method_name(e.a) in ("extend", "push_str", "push")]
            uncond = not [e for e in back[0].events if e.kind == "guard" and e.b != "Some"]
            if len(ext) == 1 and uncond:
                acc, val = ext[0].b[0], ext[0].b[1]
                inner = mir.strip(val)
                while isinstance(inner, tuple) and inner[0] == "call" and mir.method_name(inner[1]) in ("chars", "deref", "as_str", "as_ref", "borrow") and inner[1] != ESC:
                    inner = mir.strip(inner[2][0])
                elem_ok = (isinstance(inner, tuple) and inner[0] == "call" and inner[1] == ESC and isinstance(inner[2][0], tuple)
                           and inner[2][0][0] == "elem" and inner[2][0][1] == T("iter", T("call", "core::str::<impl str>::chars", (text,), inner[2][0][1][1][3] if isinstance(inner[2][0][1][1], tuple) and len(inner[2][0][1][1]) > 3 else 0), "fwd"))
                # simpler: iterator is chars(text) forward
                it = inner[2][0][1] if isinstance(inner, tuple) and inner[0] == "call" and inner[1] == ESC and isinstance(inner[2][0], tuple) and inner[2][0][0] == "elem" else None
                it_ok = (isinstance(it, tuple) and it[0] == "iter" and it[2] == "fwd" and isinstance(it[1], tuple) and it[1][0] == "call"
                         and mir.method_name(it[1][1]) == "chars" and it[1][2] == (text,))
                ret_ok = all(mir.strip(p.outcome[1]) == mir.strip(acc) or
                             (isinstance(p.outcome[1], tuple) and p.outcome[1][0] == "call" and mir.method_name(p.outcome[1][1]) in ("collect", "clone", "into")
                              and mir.mentions(p.outcome[1], acc) and isinstance(p.outcome[1][2][0], tuple)
                              and (p.outcome[1][2][0] == acc or (p.outcome[1][2][0][0] == "iter" and p.outcome[1][2][0][2] == "fwd")))
                             for p in rets)
                exh = all(any(e.kind == "guard" and e.b == "None" for e in p.events[:3]) for p in rets)
                ok_loop = it_ok and ret_ok and exh
    if len(loops) == 1 and ok_loop:
        # ... on every way out: no return gets round the loop (a "nothing to escape" fast path decides with a second,
        # hand-written copy of the table which characters are special)
        for p in mir.walk_function(ab):
            if p.outcome[0] != "return":
                continue
            if not any(e.kind == "loop" and e.a == loops[0] for e in p.events) or [e for e in p.events if e.kind == "guard" and not (isinstance(e.a, tuple) and e.a[0] == "variantof")]:
                ok_loop = False
    if not loops:
        # the same as one expression:  text.chars().map(escape_one_char).collect::<String>()   (collecting Strings into a
        # String concatenates them in iteration order; the types admit nothing else)
        text = T("param", 1, ab.dbg.get(1, ""))
        ps = [p for p in mir.walk_function(ab) if p.outcome[0] not in ("unreachable", "infeasible")]
        if len(ps) == 1 and ps[0].outcome[0] == "return" and not [e for e in ps[0].events if e.kind in ("guard", "store")]:
            r = mir.strip(ps[0].outcome[1])
            if isinstance(r, tuple) and r[0] == "call" and mir.method_name(r[1]) == "collect" and len(r[2]) == 1:
                m = r[2][0]
                if isinstance(m, tuple) and m[0] == "call" and mir.method_name(m[1]) == "map" and len(m[2]) == 2:
                    it, f = m[2]
                    if isinstance(it, tuple) and it[0] == "iter" and it[2] == "fwd":
                        it = it[1]
                    src_ok = isinstance(it, tuple) and it[0] == "call" and mir.method_name(it[1]) == "chars" and it[2] == (text,)
                    f_ok = f == T("const", T("fn", ESC))
                    if not f_ok and isinstance(f, tuple) and f and f[0] == "closure":
                        elem = T("mapelem", it)
                        cps, cb_ = mir.walk_closure(ctx.body, f, param_terms=[elem])
                        crets = [q for q in cps if q.outcome[0] == "return"]
                        f_ok = (len(crets) == 1 and len(cps) == 1 and not [e for e in crets[0].events if e.kind in ("guard", "store")]
                                and isinstance(crets[0].outcome[1], tuple) and crets[0].outcome[1][0] == "call" and crets[0].outcome[1][1] == ESC
                                and mir.strip(crets[0].outcome[1][2][0]) == elem)
                    only = [e.a for e in ps[0].events if e.kind == "call"]
                    ok_loop = src_ok and f_ok and all(mir.method_name(c) in ("chars", "map", "collect") for c in only)
    ck.ob("C17-R3", ARG, "maps-every-char-in-order-through-escape_one_char-and-concatenates", ok_loop)

    # build_exclude_text: "--exclude {}" per pattern, joined by " "
    eb = ctx.body(EXC)
    clos = ctx.closures_of(EXC)
    ok_ex = False
    detail = None
    if len(clos) == 1:
        cb = clos[0]
        tmpl = rustlit.format_template_of(cb)
        cps = [p for p in mir.walk_function(cb) if p.outcome[0] == "return"]
        pat = T("param", 2, cb.dbg.get(2, ""))
        arg_ok = False
        if len(cps) == 1:
            argf = [s for s in subterms(cps[0].outcome[1]) if isinstance(s, tuple) and s and s[0] == "call" and s[1].startswith("core::fmt::rt::Argument::")]
            arg_ok = (len(argf) == 1 and mir.method_name(argf[0][1]) == "new_display" and isinstance(argf[0][2][0], tuple)
                      and argf[0][2][0][0] == "call" and argf[0][2][0][1] == ARG and argf[0][2][0][2] == (pat,))
        joins = [(i, n, t) for i, n, t in eb.calls() if mir.method_name(n) == "join"]
        maps = [(i, n, t) for i, n, t in eb.calls() if mir.method_name(n) == "map"]
        sep_ok = False
        if len(joins) == 1:
            ev = mir.Evaluator(eb, None)
            a = ev.operand(joins[0][2]["args"][1])
            sep_ok = a == T("const", T("str", " "))
        # ... on the one and only way through the function: what is returned is the join of the collected map over
        # the patterns themselves (no filter in between, no fast path beside it)
        eps = [p for p in mir.walk_function(eb) if p.outcome[0] not in ("unreachable", "infeasible")]
        straight = len(eps) == 1 and eps[0].outcome[0] == "return" and not [e for e in eps[0].events if e.kind == "guard"]
        if straight:
            r_ = mir.strip(eps[0].outcome[1])
            chain = []
            for _ in range(8):
                if isinstance(r_, tuple) and r_ and r_[0] == "call" and r_[2]:
                    chain.append(mir.method_name(r_[1]))
                    r_ = mir.strip(r_[2][0])
                elif isinstance(r_, tuple) and r_ and r_[0] == "iter":
                    r_ = mir.strip(r_[1])
                else:
                    break
            straight = [c for c in chain if c not in ("into_iter", "iter", "deref", "as_slice", "as_ref", "borrow")] == ["join", "collect", "map"] and r_ == T("param", 1, eb.dbg.get(1, ""))
        ok_ex = tmpl == "--exclude {}" and arg_ok and sep_ok and len(maps) == 1 and straight
        detail = "template %r, argument ok %s, separator ok %s" % (tmpl, arg_ok, sep_ok)
    if not ok_ex and len(eb.loops()) == 1:
        # the same text built by hand: for each pattern { if !res.is_empty() { res.push(' ') }; res += "--exclude "; res += escaped }
        h = list(eb.loops())[0]
        ps = Walker(eb).walk(h, start_is_header=True)
        back = [p for p in ps if p.outcome == ("backedge", h)]
        rets = [p for p in ps if p.outcome[0] == "return"]
        pats = T("param", 1, eb.dbg.get(1, ""))
        good = bool(back) and bool(rets)
        seen = set()
        acc = None
        for p in back:
            seq = []
            for e in p.events:
                if e.kind == "call" and mir.method_name(e.a) in ("push", "push_str") and "String" in e.a:
                    acc = mir.strip(e.b[0])
                    v = mir.strip(e.b[1])
                    while isinstance(v, tuple) and v[0] == "call" and mir.method_name(v[1]) in ("deref", "as_str", "as_ref", "borrow") and v[1] != ARG:
                        v = mir.strip(v[2][0])
                    if isinstance(v, tuple) and v[0] == "const":
                        c = v[1]
                        seq.append(chr(c[1]) if c[0] in ("char", "int") and isinstance(c[1], int) else (c[1] if c[0] == "str" else "?"))
                    elif isinstance(v, tuple) and v[0] == "call" and v[1] == ARG and isinstance(v[2][0], tuple) and v[2][0][0] == "elem" and mir.strip(v[2][0][1][1]) == pats:
                        seq.append("<escaped>")
                    else:
                        seq.append("?")
            emp = [e.b for e in p.events if e.kind == "guard" and isinstance(e.a, tuple) and e.a[0] == "empty" and acc is not None and mir.strip(e.a[1]) == acc]
            other = [e for e in p.events if e.kind == "guard" and not (isinstance(e.a, tuple) and e.a[0] in ("empty", "variantof"))]
            if other:
                good = False
            if emp == [True] and seq == ["--exclude ", "<escaped>"]:
                seen.add("first")
            elif emp == [False] and seq == [" ", "--exclude ", "<escaped>"]:
                seen.add("later")
            else:
                good = False
        good = good and seen == {"first", "later"} and all(mir.strip(p.outcome[1]) == acc for p in rets)
        if good:
            ok_ex, detail = True, "hand-built: [' ' unless first] '--exclude ' <escaped>"
    ck.ob("C17-R3", EXC, "emits---exclude-<escaped>-joined-by-single-spaces", ok_ex, detail=detail)

    sb = ctx.body(SVC)
    tmpl = rustlit.format_template_of(sb)
    ok_svc = False
    if tmpl:
        lines = [l for l in tmpl.split("\n") if l.startswith("ExecStart=")]
        want = "ExecStart=/usr/bin/totalmapper remap --verbose --layout-file /etc/totalmapper.json --only-if-keyboard {} --dev-file /%I"
        sps = [p for p in mir.walk_function(sb) if p.outcome[0] == "return"]
        arg_ok = False
        if len(sps) == 1:
            argf = [s for s in subterms(sps[0].outcome[1]) if isinstance(s, tuple) and s and s[0] == "call" and s[1].startswith("core::fmt::rt::Argument::")]
            arg_ok = (len(argf) == 1 and mir.method_name(argf[0][1]) == "new_display" and isinstance(argf[0][2][0], tuple)
                      and argf[0][2][0][0] == "call" and argf[0][2][0][1] == EXC)
        # surrounding arguments as systemd reads them (with the placeholder replaced by a probe word)
        surround_ok = False
        if len(lines) == 1 and tmpl.count("{}") == 1:
            try:
                av = sd.argv(lines[0][len("ExecStart="):].replace("{}", "--exclude PROBE"))
                surround_ok = av == [b"/usr/bin/totalmapper", b"remap", b"--verbose", b"--layout-file", b"/etc/totalmapper.json",
                                     b"--only-if-keyboard", b"--exclude", b"PROBE", b"--dev-file", [b"/", ("spec", "I")]]
            except sd.ParseError:
                surround_ok = False
        ok_svc = len(lines) == 1 and arg_ok and surround_ok
        detail = "ExecStart line %r, argument is build_exclude_text: %s, surrounding argv intact: %s" % (lines[:1], arg_ok, surround_ok)
    ck.ob("C17-R3", SVC, "ExecStart-keeps-surrounding-arguments-around-one-placeholder", ok_svc, detail=detail if tmpl else "no template")

    # ---------------- thorough: exhaustive enumeration through the extracted table
    if ctx.tier == "thorough":
        bad = 0
        n = 0
        first = None
        for cp in range(1, 0x110000):
            if 0xD800 <= cp <= 0xDFFF:
                continue
            n += 1
            out = tab.apply(cp)
            if out is None or unit_kind(out) is None:
                ok = False
            elif unit_kind(out) == "ordinary":
                ok = out == chr(cp)
            else:
                ok = decodes_to(out, chr(cp))[0]
            if not ok:
                bad += 1
                first = first or cp
        ck.ob("C17-X", ESC, "every-scalar-decodes-to-itself(exhaustive)", bad == 0,
              detail="%d scalars, %d failures%s" % (n, bad, "" if first is None else ", first U+%04X" % first))
        # pairs and lists over the syntax-relevant characters
        rel = SIGNIFICANT + ["a", "*", "?", "\x1b", "\x7f", "\u0085", "é", "-", "=", "{", "}", "#", "~", "@", "!", "|", "&", "<", ">", "(", ")", "x", "2", "7"]
        pb = 0
        npairs = 0
        for a in rel:
            for b2 in rel:
                for c3 in ("", "a"):
                    pat = a + b2 + c3
                    npairs += 1
                    esc = "".join(tab.apply(ord(ch)) or "\0" for ch in pat)
                    line = "--only-if-keyboard --exclude %s --exclude %s --dev-file /%%I" % (esc, esc)
                    try:
                        av = sd.argv(line)
                    except sd.ParseError:
                        av = None
                    want = [b"--only-if-keyboard", b"--exclude", pat.encode(), b"--exclude", pat.encode(), b"--dev-file", [b"/", ("spec", "I")]]
                    if av != want:
                        pb += 1
        ck.ob("C17-X", ESC, "pairs-and-lists-over-syntax-relevant-characters", pb == 0, detail="%d patterns, %d failures" % (npairs, pb))
        ck.analysed["thorough_scalars"] = n
        ck.analysed["thorough_patterns"] = npairs
    cli_exclude_rule(ctx, ck, "C17-R5")
    unit_writer_rule(ctx, ck)


def cli_exclude_rule(ctx, ck, rid):
    """the --exclude option is declared so that clap hands each occurrence's value over verbatim: nothing in its builder
    chain splits, validates, defaults or rewrites values"""
    from .. import mir
    b = ctx.body("main")
    allowed = {"new", "long", "short", "takes_value", "value_name", "multiple_occurrences", "help_heading", "help", "long_help", "display_order", "hide", "next_line_help", "required"}
    chains = {}
    try:
        paths = mir.Walker(b, max_paths=400).walk(0)
    except mir.TooManyPaths:
        paths = []
    evs = [e for p in paths[:3] for e in p.events if e.kind == "call" and "clap::Arg::" in e.a]
    if not evs:
        # main is large: scan the call terminators and evaluate the receiver chain symbolically
        for i, name, t in b.calls():
            if "clap::Arg::" in name and mir.method_name(name) != "new":
                term = mir.Evaluator(b, None).call_term(t, i)
                evs.append(type("E", (), {"a": name, "c": term, "b": term[2]})())
    for e in evs:
        t = e.c
        meths = []
        root = None
        for _ in range(30):
            if isinstance(t, tuple) and t and t[0] == "call" and "clap::Arg::" in t[1]:
                m = mir.method_name(t[1])
                meths.append((m, t[2][1:] if len(t[2]) > 1 else ()))
                if m == "new":
                    root = t[2][0] if t[2] else None
                    break
                t = t[2][0]
            else:
                break
        lit = root[1][1] if isinstance(root, tuple) and root and root[0] == "const" and isinstance(root[1], tuple) and root[1][0] == "str" else None
        if lit == "exclude":
            key = id(root)
            chains.setdefault(len(meths), [])
            chains[len(meths)].append(meths)
    full = [c for n in sorted(chains, reverse=True) for c in chains[n]][:1] if chains else []
    every = [m for cs in chains.values() for c in cs for m, a in c]
    extra = sorted(set(every) - allowed)
    ck.ob(rid, "main", "--exclude-is-declared-without-value-splitting/validation/defaults(clap-hands-each-value-over-verbatim)", bool(every) and not extra,
          detail=None if (every and not extra) else ("builder methods outside the reviewed set: %s" % extra if every else "no Arg::new('exclude') chain found"))
    ck.analysed["exclude_arg_builder_methods"] = sorted(set(every))


def unit_writer_rule(ctx, ck):
    from .. import mir
    fn = "udev_utils::write_systemd_service"
    b = ctx.body(fn)
    ex = mir.T("param", 1, b.dbg.get(1, ""))
    ok = False
    why = "no write of the unit text found"
    for p in mir.walk_function(b):
        for e in p.events:
            if e.kind == "call" and mir.method_name(e.a) in ("write", "write_all") and len(e.b) == 2 and "OpenOptions" not in e.a:
                data = mir.strip(e.b[1])
                while isinstance(data, tuple) and data and data[0] == "call" and mir.method_name(data[1]) in ("as_bytes", "as_str", "deref", "as_ref", "borrow"):
                    data = mir.strip(data[2][0])
                if isinstance(data, tuple) and data[0] == "call" and data[1] == "udev_utils::build_service_text" and mir.strip(data[2][0]) == ex:
                    ok, why = True, None
                else:
                    ok, why = False, "the bytes written are %s, not build_service_text(excludes) itself" % mir.show(data)[:100]
    ck.ob("C17-R4", fn, "the-unit-file-receives-build_service_text(excludes)-byte-for-byte", ok, detail=why)
    okf, whyf = file_replaced_whole(ctx, b)
    ck.ob("C17-R4", fn, "the-unit-file-is-replaced,not-overlaid(truncate+write,no-append)", okf, detail=whyf)


def file_replaced_whole(ctx, b):
    """every file the function opens for writing is opened so that it ends up holding exactly what is written now:
    File::create(..), or OpenOptions with write(true), truncate(true) and without append(true).  (Without truncation an
    older, longer file keeps its tail after the new text.)  -> (ok, why)"""
    from .. import mir
    n = 0
    for p in mir.walk_function(b):
        for e in p.events:
            if e.kind != "call":
                continue
            if e.a.endswith("fs::File::create") or e.a in ("std::fs::write",) or e.a.endswith("::fs::write"):
                n += 1      # File::create truncates; fs::write(path, bytes) replaces the whole contents
                continue
            if mir.method_name(e.a) == "open" and "OpenOptions" in e.a:
                n += 1
                opts = {}
                t = e.b[0]
                for _ in range(12):
                    t = mir.strip(t)
                    if isinstance(t, tuple) and t[0] == "call" and "OpenOptions" in t[1] and mir.method_name(t[1]) in ("truncate", "write", "append", "create", "read", "create_new") and len(t[2]) == 2:
                        opts.setdefault(mir.method_name(t[1]), mir.const_int(t[2][1]))
                        t = t[2][0]
                    else:
                        break
                if opts.get("write") != 1 or opts.get("truncate") != 1 or opts.get("append") == 1:
                    return False, "opened with %s" % ", ".join("%s(%s)" % (k, {1: "true", 0: "false"}.get(v, "?")) for k, v in sorted(opts.items()))
    if not n:
        return False, "no file is opened for writing"
    return True, None

