"""C19 — the output stream contains no redundant events (held-multiset effect discipline, P6)."""
import re
from .. import mir, kt, ktx, tables
from ..kt import MOD, HELD, list_of
from ..mir import T, show, method_name, mentions

LEVEL = "other"
META = {
    "technique": "effect-discipline analysis over MIR paths of key_transforms.rs: every Event emission and every pass_through_keys/mapped_output_keys mutation must belong to a guarded PRESS/RELEASE/MOVE/REPRESS/BATCH-RELEASE transaction; event-vector flow to the return value",
    "level_text": ("Per-site structural proof of the premises of the induction in DESIGN.md C19: on every path of every function "
                   "and closure of the mapper each emit/bookkeeping change is one of five transactions with its guard (not-held "
                   "before a press, held and removed on a release, batch duplicate-free and fully emitted and deleted), and every "
                   "event produced reaches the step's result. If every effect is such a transaction the fold of the emitted "
                   "events equals the two lists at every step, for every layout and history."),
    "level_note": ("Trusted: rustc MIR, tmfacts, the path walker. The induction itself is a paper argument; the machinery checks "
                   "each premise. One PRESS guard is discharged by invariant I2 (named, premises checked). Timer chords are C11."),
}


def exists_loops_before(body, path_events, flag_local):
    """loop headers summarised on the path that may write the given flag"""
    out = []
    for e in path_events:
        if e.kind == "loop" and flag_local in body.loop_assigned_locals(e.a):
            out.append(e.a)
    return out


def check_via_i2(ctx, ck, K, A):
    """the pass-through PRESS in newly_press tests only `not in PT`; `not in MO` follows from I2 when no active
    mapping outputs the key. Premises: a dominating false flag that an existential scan over ALL active
    mappings sets when `to` contains the pressed key."""
    n = 0
    for tx in A.txs:
        if tx.kind != "PRESS" or tx.note != "via-I2":
            continue
        n += 1
        fx = tx.fx
        body = fx.body
        e = tx.effs[0]
        g = fx.guards_before(e)
        key = tx.key
        ok = False
        why = "no dominating false flag from a scan of the active mappings"
        # (a) the scan loop was left through its exhaustion exit on this very path (flag constant-folded)
        for pe in fx.path.events[:e.pos]:
            if pe.kind == "loopexit":
                h = pe.a
                ex = body.exhaustion_exit(h)
                if ex is None or ex[1] != pe.b:
                    continue
                el = tables.exists_loop(body, h)
                if el.problems:
                    continue
                it = el.iter_term
                if isinstance(it, tuple) and it[0] == "iter" and list_of(it[1]) == "AM" and _covers_to(el, key, fx):
                    ok = True
        # (b) the scan is written as active_mappings.iter().any(|m| ...) and was false
        for a, v in ([] if ok else g):
            if v is False and isinstance(a, tuple) and a and a[0] == "call" and method_name(a[1]) == "any":
                el = tables.any_scan(ctx.body, a)
                it = el.iter_term
                if not el.problems and isinstance(it, tuple) and it[0] == "iter" and list_of(it[1]) == "AM" and _covers_to(el, key, fx):
                    ok = True
        for a, v in ([] if ok else g):
            # flag read after the scan loop: loopvar of a bool local, guard value False
            if v is False and isinstance(a, tuple) and a and a[0] == "loopvar" and body.ltypes.get(a[2]) == "bool":
                h = a[1]
                el = tables.exists_loop(body, h, flag_local=a[2])
                if el.problems:
                    why = "scan loop shape: %s" % el.problems[:2]
                    continue
                it = el.iter_term
                over_am = isinstance(it, tuple) and it[0] == "iter" and list_of(it[1]) == "AM"
                covers = _covers_to(el, key, fx)
                if over_am and covers:
                    ok = True
                    break
                why = "scan over %s, covers `to contains key`: %s" % (show(it)[:50], covers)
        ck.ob("C19-I2", body.path, "pass-through-PRESS:not-in-MO-discharged-by-invariant-I2", ok, detail=None if ok else why, site=e.ev.span)
    return n


def _covers_to(el, key, fx):
    """some flag-setting path of the scan is implied by `key in elem.to` (its negative guards being
    complemented by other setting paths)"""
    for gs in el.set_paths:
        pos = [(aa, vv) for aa, vv in gs if vv is True]
        neg = [(aa, vv) for aa, vv in gs if vv is False]
        if len(pos) == 1 and _is_in_field(pos[0][0], key, "to", fx):
            if all(any(len([x for x in g2 if x[1] is True]) == 1 and [x for x in g2 if x[1] is True][0][0] == na and
                       not [x for x in g2 if x[1] is False] for g2 in el.set_paths) for na, _ in neg):
                return True
    return False


def _is_in_field(a, key, field, fx):
    return (isinstance(a, tuple) and a and a[0] == "in" and fx.same_key(a[1], key) and isinstance(a[2], tuple)
            and a[2][0] == "field" and a[2][2] == field)


def enclosing_guards(K, body, fx):
    """guards of the enclosing loop paths that lead to the (inner) loop this path belongs to"""
    if not fx.tag.startswith("L"):
        return []
    h = int(fx.tag[1:])
    out = []
    for other in K.path_fx(body):
        if other is fx or other.tag == fx.tag:
            continue
        for i, e in enumerate(other.path.events):
            if e.kind == "loop" and e.a == h:
                gs = [(x.a, x.b) for x in other.path.events[:i] if x.kind == "guard"]
                out.append(gs)
    return out


def run(ctx):
    ck = ctx.check
    K = kt.KT(ctx)
    A = ktx.Analysis(ctx, K)
    ck.rule_text = ("instances = every Event construction site and every mutation of pass_through_keys/mapped_output_keys in module "
                    "key_transforms (all functions and closures, all paths); one obligation per (function, transaction, key)")
    ck.trusted_base = ["rustc front end + MIR builder", "tmfacts exporter", "tmv path walker", "paper induction DESIGN.md C19"]
    ck.analysed["functions"] = len(K.fn_bodies)
    ck.analysed["paths"] = sum(len(K.path_fx(b)) for b in K.fn_bodies)
    ck.analysed["transactions"] = len(A.txs)
    ck.analysed["emit_sites"] = len(A.emit_sites)
    ck.explanation = ("%d functions, %d paths, %d event-construction sites, %d transaction instances recognised in key_transforms.rs."
                      % (len(K.fn_bodies), ck.analysed["paths"], len(A.emit_sites), len(A.txs)))
    # ---- transactions
    for tx in A.txs:
        keytxt = show(tx.key)[:50] if tx.key is not None else "-"
        keytxt = _stable(keytxt)
        ck.ob("C19-T", tx.fn, "%s:%s" % (tx.sig(), keytxt), tx.guard_ok, detail=tx.why, site=tx.site())
    for fn, construct, detail, site in A.problems:
        ck.ob("C19-T", fn, construct, False, detail=detail, site=site)
    ck.floor("C19-T", "event-construction-sites", len(A.emit_sites), 6)
    kinds = {}
    for tx in A.txs:
        kinds.setdefault(tx.kind, set()).add((tx.fn, tx.site()))
    ck.analysed["transaction_sites"] = {k: len(v) for k, v in sorted(kinds.items())}
    # (vacuity guards only: a refactoring may merge sites or turn one transaction idiom into another)
    for k, floor in (("PRESS", 1), ("RELEASE", 2)):
        ck.floor("C19-T", "sites-of-%s" % k, len(kinds.get(k, ())), floor)
    check_via_i2(ctx, ck, K, A)

    # ---- batches
    for (fn, local), b in sorted(A.batches.items(), key=lambda x: (x[0][0], x[0][1])):
        body = ctx.body(fn)
        is_key_batch = bool(b["pushes"] or b["retain_feeds"])
        if not is_key_batch:
            continue
        name = _local_name(body, local)
        # a local vector of keys that is pushed to but never emitted/deleted is not a release batch
        # (e.g. a scratch list); it matters only if its elements come from PT/MO
        feeds_from_held = bool(b["retain_feeds"])
        for fx, e in b["pushes"]:
            g = fx.guards_before(e)
            outer = enclosing_guards(K, body, fx)
            pos = [a for a, v in g if v is True and isinstance(a, tuple) and a[0] == "in" and list_of(a[2]) in HELD and fx.same_key(a[1], e.key)]
            pos = pos or _pipeline_membership(ctx, e.key)
            if pos:
                feeds_from_held = True
        if not feeds_from_held and not b["emits"]:
            continue
        # pushes: key in H, and not yet in the batch
        for fx, e in b["pushes"]:
            g = fx.guards_before(e)
            pos = [a for a, v in g if v is True and isinstance(a, tuple) and a[0] == "in" and list_of(a[2]) in HELD and fx.same_key(a[1], e.key)]
            pos = pos or _pipeline_membership(ctx, e.key)
            ck.ob("C19-B", fn, "batch-%s:push-guarded-by-membership-in-held-list" % name, bool(pos), site=e.ev.span,
                  detail=None if pos else "a key is collected for release without a positive membership test on pass_through_keys/mapped_output_keys")
            dup = [a for a, v in g if v is False and isinstance(a, tuple) and a[0] == "in" and list_of(a[2]) == ("local", local) and fx.same_key(a[1], e.key)]
            if not dup and _single_distinct_source(K, body, b, fx, e):
                dup = ["single-source"]
            ck.ob("C19-B", fn, "batch-%s:duplicate-free" % name, bool(dup), site=e.ev.span,
                  detail=None if dup else ("the batch can receive the same key twice (no `!batch.contains(key)` guard and more than one source "
                                           "list): every element is emitted as Released, so the key would be released twice"))
        # emitted exactly once, unconditionally
        ems = {(id(fx.body), e.ev.blk): (fx, e, ok) for fx, e, ok in b["emits"]}
        ck.ob("C19-B", fn, "batch-%s:emitted-once" % name, len(ems) == 1, detail="%d emission sites" % len(ems))
        for fx, e, ok in ems.values():
            ck.ob("C19-B", fn, "batch-%s:every-element-emitted-as-Released" % name, ok and (e.aux == "Released" or (isinstance(e.aux, tuple) and e.aux[0] == "Released")),
                  site=e.ev.span)
        # deleted from the held lists the keys were found in
        if b["pushes"]:
            need = set()
            for fx, e in b["pushes"]:
                for a, v in fx.guards_before(e):
                    if v is True and isinstance(a, tuple) and a[0] == "in" and list_of(a[2]) in HELD and fx.same_key(a[1], e.key):
                        need.add(list_of(a[2]))
                for a in _pipeline_membership(ctx, e.key):
                    need.add(list_of(a[2]))
            have = {r.lst for fx, r in b["dels"]}
            ck.ob("C19-B", fn, "batch-%s:removed-from-%s" % (name, "+".join(sorted(need)) or "?"), bool(need) and need <= have,
                  detail="membership lists %s, retain(!batch.contains) on %s" % (sorted(need), sorted(have)))

    # ---- event flow: every event vector and every Vec<Event>/StepResult returned by a mapper function reaches the result
    check_flow(ctx, ck, K)


def _single_distinct_source(K, body, batch, fx, e):
    """the batch is filled at one site only, inside a single (non-nested) loop over the `to`/`from` list of ONE
    mapping: such a list has pairwise distinct keys (the mapper's constructor insists on it, C14-R2), so the batch
    cannot receive a key twice"""
    sites = {(id(f.body), ev.ev.blk) for f, ev in batch["pushes"]}
    if len(sites) != 1 or not fx.tag.startswith("L"):
        return False
    h = int(fx.tag[1:])
    if any(hh != h and h in blks for hh, blks in body.loops().items()):
        return False   # nested in another loop: several source lists
    key = mir.strip(e.key)
    if not (isinstance(key, tuple) and key[0] == "elem" and isinstance(key[1], tuple) and key[1][0] == "iter"):
        return False
    src = key[1][1]
    return isinstance(src, tuple) and src[0] == "field" and src[2] in ("to", "from")


def _stable(txt):
    import re
    return re.sub(r" \d+\)", ")", txt)


def _local_name(body, site_blk):
    # debug name of the local assigned by the Vec::new() call in block site_blk
    t = body.blocks[site_blk]["term"]
    if t["k"] == "call":
        d = t["dest"]["l"]
        nm = body.dbg.get(d)
        if nm:
            return nm
        # moved into the user variable in the next block(s)
        for i in body.live_blocks():
            for st in body.blocks[i]["stmts"]:
                if st["k"] == "assign" and st["rv"]["k"] == "use" and st["rv"]["op"]["k"] == "move" and st["rv"]["op"]["place"]["l"] == d:
                    nm = body.dbg.get(st["lhs"]["l"])
                    if nm:
                        return nm
    return "vec"


EV_TYPES = ("std::vec::Vec<events::Event>", "key_transforms::StepResult")


def _pipeline_membership(ctx, key):
    """the pushed key is the element of a lazy pipeline  ..filter(|k| held_list.contains(k))..  : every element that reaches the
    consumer has passed that filter -- the same positive membership test as a guard in the consuming loop"""
    k0 = mir.strip(key)
    if not (isinstance(k0, tuple) and k0 and k0[0] == "elem" and isinstance(k0[1], tuple) and k0[1] and k0[1][0] == "iter" and isinstance(k0[1][1], tuple) and k0[1][1][0] == "call"):
        return []
    try:
        pl = tables.pipeline(ctx.body, k0[1][1])
    except Exception:
        return []
    if pl["problems"] or pl["elem"] is None:
        return []
    return [a for a, v in pl["guards"] if v is True and isinstance(a, tuple) and a[0] == "in" and list_of(a[2]) in HELD and mir.strip(a[1]) == mir.strip(pl["elem"])]


def check_flow(ctx, ck, K):
    n = 0
    for body in K.fn_bodies:
        rty = body.ltypes.get(0, "")
        for fx in K.path_fx(body):
            p = fx.path
            if p.outcome[0] != "return":
                continue
            ret = p.outcome[1]
            # vectors that flow to the return value
            flow = set()

            def add(t):
                t = mir.strip(t)
                if t in flow:
                    return
                flow.add(t)
                if isinstance(t, tuple) and t:
                    if t[0] == "agg" and t[1] == "key_transforms::StepResult":
                        for x in t[3]:
                            add(x)
                    if t[0] == "field" and t[2] == "events":
                        add(t[1])
            add(ret)
            # ... and the caller's vector the function was handed to write its events into (`events: &mut Vec<Event>`)
            for i in range(1, body.argc + 1):
                if re.match(r"^&mut std::vec::Vec<events::Event>$", body.ltypes.get(i, "")):
                    add(T("param", i, body.dbg.get(i, "")))
            # stores into fields of flowing values (res.repeat = …) are irrelevant; appends extend the flow backwards
            changed = True
            appends = [e for e in fx.effects if e.kind == "APPEND"]
            while changed:
                changed = False
                for a in appends:
                    dst = mir.strip(a.aux)
                    src = mir.strip(a.key)
                    dsts = {dst}
                    if isinstance(dst, tuple) and dst[0] == "field" and dst[2] == "events":
                        dsts.add(dst[1])
                    if any(d in flow or T("field", d, "events") in flow for d in dsts):
                        before = len(flow)
                        add(src)
                        if isinstance(src, tuple) and src[0] == "field" and src[2] == "events":
                            add(src[1])
                        changed = changed or len(flow) != before
            # sources: results of mapper calls with event types, local event vectors with emits
            for e in fx.effects:
                if e.kind == "CALL":
                    res = e.ev.c
                    dty = _dest_type(body, e.ev)
                    if dty in EV_TYPES:
                        n += 1
                        ok = mir.strip(res) in flow or T("field", res, "events") in flow
                        ck.ob("C19-F", body.path, "result-of-%s-reaches-the-output" % e.key[len(MOD):], ok, site=e.ev.span,
                              detail=None if ok else "events returned by %s are dropped on a path to return" % e.key)
                if e.kind == "EMIT":
                    vec = mir.strip(e.ev.b[0])
                    n += 1
                    ok = vec in flow or (isinstance(vec, tuple) and vec[0] == "field" and vec[2] == "events" and mir.strip(vec[1]) in flow)
                    ck.ob("C19-F", body.path, "emitted-event-reaches-the-output", ok, site=e.ev.span,
                          detail=None if ok else "an event is pushed onto a vector that does not reach the function's result")
                if e.kind == "MAPEMIT":
                    n += 1
                    if e.aux[2] is None:
                        vec = mir.strip(e.ev.b[0])      # vec.extend(batch.iter().map(..)): written straight into vec
                        ok = vec in flow or (isinstance(vec, tuple) and vec[0] == "field" and vec[2] == "events" and mir.strip(vec[1]) in flow)
                    else:
                        ok = mir.strip(e.aux[2]) in flow
                    ck.ob("C19-F", body.path, "mapped-batch-reaches-the-output", ok, site=e.ev.span)
    ck.floor("C19-F", "flow-obligations", n, 8)
    # Mapper::step returns the callee's result unchanged
    step = ctx.body(MOD + "Mapper::step")
    for p in mir.walk_function(step):
        if p.outcome[0] != "return":
            continue
        ret = p.outcome[1]
        calls = [e for e in p.events if e.kind == "call" and e.a in (MOD + "newly_press", MOD + "newly_release")]
        if calls:
            ck.ob("C19-F", step.path, "returns-the-handler's-result-unchanged", ret == calls[0].c)


def _dest_type(body, ev):
    t = body.blocks[ev.blk]["term"]
    if t["k"] == "call" and not t["dest"]["p"]:
        return body.ltypes.get(t["dest"]["l"])
    return None
