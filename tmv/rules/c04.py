"""C04 — output modifiers are exact when a mapped key goes down (no stale modifiers)."""
from .. import mir, kt, ktx, tables, ktloops
from ..kt import MOD, list_of, HELD, MODIFIERS
from ..mir import T, show, method_name, const_int, Walker

LEVEL = "other"
META = {
    "technique": "MIR ordering/dominance rules on add_new_mapping and newly_press paths (release-before-press), decision table of the release batch in release_action_mappings with enclosing-loop guards, tables of is_action_mapping/is_any_modifier",
    "level_text": ("Structural proof: whenever a key-producing mapping fires, release_action_mappings (and the trigger-consumption "
                   "sweep) run before any output is pressed, and before a non-modifier pass-through press release_action_mappings "
                   "and release_absorbed_keys run first; the batch lifted by release_action_mappings contains a key exactly when "
                   "it is an output, still in mapped_output_keys, of an active key-producing mapping (non-empty `to` ending in a "
                   "non-modifier) that carries a modifier (len>1 and some modifier in `to`), over ALL active mappings and ALL "
                   "their outputs; the press loop presses outputs in listed order so the final key is pressed last and listed "
                   "modifiers are down (pressed or already held)."),
    "level_note": ("Trusted: rustc MIR, tmfacts, walker. Not decided: the classification of which OTHER modifiers may be down at that "
                   "instant depends on the contents of the lists; only 'stale modifiers of earlier key-producing mappings are "
                   "lifted first' and 'trigger modifiers not in the output are lifted' (C02-R3) are decided."),
}

# --- additions to the level description (rules added after the first version)
META['level_text'] += ' R2: each listed output is either pressed there and then or found in a held-key list by a membership test on the live list (not on a copy taken before the releases); the events returned by release_action_mappings/release_absorbed_keys are appended to the output before any press.'
# --- end additions

ANM = MOD + "add_new_mapping"
NP = MOD + "newly_press"
RAM = MOD + "release_action_mappings"


def batch_conditions(ctx, K):
    """-> (rows, problems): rows = list of frozenset of condition names under which a key enters the batch"""
    b = ctx.body(RAM)
    probs = []
    outer = [h for h in b.loops() if not any(h in blks and hh != h for hh, blks in b.loops().items())]
    am_loops = []
    for h in outer:
        il = ktloops.index_loop(b, h)
        if il.kind == "for-elements" and list_of(il.list_term) == "AM":
            am_loops.append((h, il))
    if len(am_loops) != 1:
        return [], ["expected one loop over active_mappings, found %d" % len(am_loops)]
    h, il = am_loops[0]
    if not il.complete or il.break_paths:
        probs.append("the loop over active_mappings does not visit every mapping")
    mp = il.elem
    inner = [hh for hh in b.loops() if hh != h and hh in b.loops()[h]]
    rows = []
    pushes_outside_inner = 0
    for p in il.cont_paths:
        fx = K._one(b, p, "x", None)
        outer_conds = set()
        unk = []
        for a, v in fx.all_guards():
            if isinstance(a, tuple) and a[0] == "variantof":
                continue
            nm = _cond_name(a, v, mp)
            if nm is None:
                unk.append(show(a)[:50])
            else:
                outer_conds.add(nm)
        inner_here = [e.a for e in p.events if e.kind == "loop" and e.a in inner]
        if [e for e in fx.effects if e.kind == "ADD"]:
            pushes_outside_inner += 1
        if not inner_here:
            continue
        if unk:
            probs.append("unrecognised condition on the way to the output loop: %s" % unk[:2])
        for hh in inner_here:
            il2 = ktloops.index_loop(b, hh)
            if il2.kind != "for-elements" or il2.list_term != T("field", mp, "to") or not il2.complete or il2.break_paths:
                probs.append("inner loop does not visit every output of the mapping")
                continue
            x = il2.elem
            for q in il2.cont_paths:
                fx2 = K._one(b, q, "x", None)
                adds = [e for e in fx2.effects if e.kind == "ADD"]
                conds = set(outer_conds)
                unk2 = []
                for a, v in fx2.all_guards():
                    if isinstance(a, tuple) and a[0] == "variantof":
                        continue
                    if isinstance(a, tuple) and a[0] == "in" and mir.strip(a[1]) == x and list_of(a[2]) == "MO":
                        conds.add("in_MO" if v else "!in_MO")
                    elif isinstance(a, tuple) and a[0] == "in" and mir.strip(a[1]) == x and isinstance(list_of(a[2]), tuple):
                        conds.add("in_batch" if v else "!in_batch")
                    else:
                        unk2.append(show(a)[:50])
                if adds:
                    if unk2:
                        probs.append("unrecognised condition on a collecting path: %s" % unk2[:2])
                    if len(adds) != 1 or mir.strip(adds[0].key) != x:
                        probs.append("collecting path pushes something other than the visited output")
                    rows.append(frozenset(conds))
    if pushes_outside_inner:
        probs.append("keys are collected outside the per-output loop")
    return rows, probs


def _writes_into_output(ctx, fx, call):
    """the callee returns nothing and is handed the very vector the presses of this path are pushed onto: whatever it
    emits is on the output at the moment the call returns (so before everything that follows the call)"""
    try:
        cb = ctx.body(call.key)
    except Exception:
        return False
    if cb.ltypes.get(0) != "()":
        return False
    outs = {mir.strip(e.ev.b[0]) for e in fx.effects if e.kind == "EMIT" and e.ev is not None and e.ev.b}
    ret = fx.path.outcome[1] if fx.path.outcome[0] == "return" and isinstance(fx.path.outcome[1], tuple) else None
    for a in call.aux:
        if not isinstance(a, tuple):
            continue
        a = mir.strip(a)
        if a in outs:
            return True
        # ... or the vector that becomes the function's result (the presses are pushed onto it inside the press loop)
        if ret is not None and (mir.mentions(ret, a) or (a[0] == "field" and a[2] == "events" and mir.mentions(ret, mir.strip(a[1])))) \
                and a[0] in ("call", "var", "field"):
            return True
    return False


def _cond_name(a, v, mp):
    if isinstance(a, tuple) and a[0] == "call" and a[1] == MOD + "is_action_mapping" and mir.strip(a[2][0]) == mp:
        return "action_mapping" if v else "!action_mapping"
    if isinstance(a, tuple) and a[0] == "call" and a[1] == MOD + "is_any_modifier" and mir.strip(a[2][0]) == T("field", mp, "to"):
        return "any_modifier" if v else "!any_modifier"
    if isinstance(a, tuple) and a[0] == "binop" and a[1] in ("Gt", "Ge") and a[2] == T("len", T("field", mp, "to")):
        c = const_int(a[3])
        if (a[1], c) in (("Gt", 1), ("Ge", 2)):
            return "len>1" if v else "!len>1"
    # the same test asked the other way round:  len <= 1  /  len < 2
    if isinstance(a, tuple) and a[0] == "binop" and a[1] in ("Le", "Lt") and a[2] == T("len", T("field", mp, "to")):
        c = const_int(a[3])
        if (a[1], c) in (("Le", 1), ("Lt", 2)):
            return "!len>1" if v else "len>1"
    return None


def run(ctx):
    ck = ctx.check
    K = kt.KT(ctx)
    ck.rule_text = "one obligation per ordering fact on the firing and pass-through paths, per batch-membership row, per helper table"
    ck.trusted_base = ["rustc front end + MIR builder", "tmfacts exporter", "tmv path walker"]
    anm = ctx.body(ANM)
    m = T("param", 3, anm.dbg.get(3, ""))
    # ---------------- R1 add_new_mapping
    press_loop = None
    for h in sorted(anm.loops()):
        il = ktloops.index_loop(anm, h)
        if il.kind == "for-elements" and il.list_term == T("field", m, "to"):
            press_loop = h
    ck.ob("C04-R1", ANM, "press-loop-found", press_loop is not None)
    n = 0
    for fx in K.path_fx(anm):
        if fx.tag != "fn" or fx.path.outcome[0] != "return" or press_loop is None:
            continue
        lp = [i for i, e in enumerate(fx.path.events) if e.kind == "loop" and e.a == press_loop]
        if not lp:
            ck.ob("C04-R1", ANM, "every-return-path-runs-the-press-loop", False)
            continue
        n += 1
        am = [v for a, v in fx.all_guards() if isinstance(a, tuple) and a[0] == "call" and a[1] == MOD + "is_action_mapping" and mir.strip(a[2][0]) == m]
        rel = [e for e in fx.effects if e.kind == "CALL" and e.key == RAM]
        sweep = [e for e in fx.effects if e.kind == "RETAIN" and e.lst == "PT" and e.sub and len(e.sub) > 1]
        if am == [True]:
            ok = len(rel) == 1 and rel[0].pos < lp[0]
            ck.ob("C04-R1", ANM, "key-producing-mapping:release_action_mappings-before-any-output-is-pressed", ok,
                  detail=None if ok else "%d calls, before the press loop: %s" % (len(rel), [r.pos < lp[0] for r in rel]))
            # ... and the releases it returns enter the output stream before the presses do
            if len(rel) == 1:
                apps = [e for e in fx.effects if e.kind == "APPEND" and mir.strip(e.key) == rel[0].ev.c]
                ok3 = (len(apps) == 1 and rel[0].pos < apps[0].pos < lp[0]) or _writes_into_output(ctx, fx, rel[0])
                ck.ob("C04-R1", ANM, "key-producing-mapping:the-releases-are-put-on-the-output-before-any-press", ok3,
                      detail=None if ok3 else "the events returned by release_action_mappings are appended %s" % ("after the press loop" if apps else "nowhere on this path"))
        elif am == [False]:
            ck.ob("C04-R1", ANM, "modifier-remapping:does-not-lift-other-mappings'-modifiers", not rel)
        else:
            ck.ob("C04-R1", ANM, "path-classifies-the-mapping-with-is_action_mapping", False, detail=str(am))
        ok2 = len(sweep) == 1 and sweep[0].pos < lp[0]
        ck.ob("C04-R1", ANM, "trigger-consumption-sweep-before-any-output-is-pressed", ok2)
        # no emit of Pressed before the loop
        early = [e for e in fx.effects if e.pos < lp[0] and e.kind == "EMIT" and e.aux == "Pressed"]
        ck.ob("C04-R1", ANM, "nothing-pressed-before-the-press-loop", not early)
    ck.floor("C04-R1", "add_new_mapping-return-paths", n, 2)
    # ---------------- R2 the press loop: outputs in listed order; each one is pressed there and then, or is found in a
    # held-key list AT THAT MOMENT (the lists as they are after the releases above, not a copy taken earlier)
    if press_loop is not None:
        il = ktloops.index_loop(anm, press_loop)
        ck.ob("C04-R2", ANM, "outputs-visited-in-listed-order,all-of-them", il.elem[1][2] == "fwd" and il.complete and not il.break_paths)
        x = il.elem
        nb = 0
        for p in il.cont_paths:
            fx = K._one(anm, p, "x", None)
            nb += 1
            pressed = [e for e in fx.effects if e.kind == "EMIT" and e.aux == "Pressed" and mir.strip(e.key) == x]
            held = any(v is True and isinstance(a, tuple) and a[0] == "in" and mir.strip(a[1]) == x and list_of(a[2]) in HELD for a, v in fx.all_guards())
            ck.ob("C04-R2", ANM, "each-listed-output-is-pressed-or-is-in-a-held-key-list-at-that-moment", len(pressed) == 1 or held, site=p.events[0].span,
                  detail=None if (pressed or held) else "an output is skipped on guards %s: none of them is a live membership test on pass_through_keys/mapped_output_keys" %
                  [(show(a)[:50], v) for a, v in fx.all_guards()][1:4])
        ck.floor("C04-R2", "press-loop-branches", nb, 2)
    # ---------------- R1 newly_press
    np_ = ctx.body(NP)
    k = T("param", 2, np_.dbg.get(2, ""))
    seen = set()
    for fx in K.path_fx(np_):
        if fx.tag != "fn" or fx.path.outcome[0] != "return":
            continue
        own = [e for e in fx.effects if e.kind == "EMIT" and e.aux == "Pressed" and e.key == k]
        if not own:
            continue
        act = [v for a, v in fx.guards_before(own[0]) if isinstance(a, tuple) and a[0] == "call" and a[1] == MOD + "is_action_key" and mir.strip(a[2][0]) == k]
        rel = [e for e in fx.effects if e.kind == "CALL" and e.key == RAM and e.pos < own[0].pos]
        rab = [e for e in fx.effects if e.kind == "CALL" and e.key == MOD + "release_absorbed_keys" and e.pos < own[0].pos]
        if act == [True]:
            seen.add("action")
            ck.ob("C04-R1", NP, "non-modifier-pass-through:release_action_mappings-and-release_absorbed_keys-first", len(rel) == 1 and len(rab) == 1,
                  detail="%d/%d" % (len(rel), len(rab)))
            for c in rel + rab:
                apps = [e for e in fx.effects if e.kind == "APPEND" and mir.strip(e.key) == c.ev.c]
                ok3 = (len(apps) == 1 and c.pos < apps[0].pos < own[0].pos) or _writes_into_output(ctx, fx, c)
                ck.ob("C04-R1", NP, "non-modifier-pass-through:those-releases-are-put-on-the-output-before-the-press", ok3)
        elif act == [False]:
            seen.add("modifier")
            ck.ob("C04-R1", NP, "modifier-pass-through:lifts-nothing", not rel and not rab)
        else:
            ck.ob("C04-R1", NP, "pass-through-press-classified-by-is_action_key", False, detail=str(act))
    ck.ob("C04-R1", NP, "both-pass-through-classes", seen == {"action", "modifier"}, detail=str(sorted(seen)))

    # ---------------- T1 batch membership
    rows, probs = batch_conditions(ctx, K)
    if probs and not rows:
        # not the nested-loop shape: read the push sites whatever feeds them (an iterator pipeline over all active
        # mappings and all their outputs)
        from . import c05
        rows2, probs2 = c05.batch_push_rows(ctx, K)
        if rows2 and not probs2 and all("every-active-mapping-and-every-output-visited" in r for r in rows2):
            rows = [frozenset(r - {"every-active-mapping-and-every-output-visited", "M-in-active_mappings"}) for r in rows2]
            probs = []
    ck.ob("C04-T1", RAM, "batch-loops-shape", not probs, detail="; ".join(probs)[:300] or None)
    want = frozenset({"action_mapping", "len>1", "any_modifier", "in_MO", "!in_batch"})
    ck.ob("C04-T1", RAM, "collecting-paths-found", len(rows) >= 1, detail="%d" % len(rows))
    for r in set(rows):
        ck.ob("C04-T1", RAM, "key-collected-iff:active-key-producing-mapping-with-modifiers,output-still-in-mapped_output,not-yet-collected", r == want,
              detail="code collects under %s; specification %s" % (sorted(r), sorted(want)))
    # helper tables
    iam = ctx.body(MOD + "is_action_mapping")
    mm = T("param", 1, iam.dbg.get(1, ""))
    ok = True
    classes = set()
    for p in mir.walk_function(iam):
        if p.outcome[0] != "return":
            continue
        g = [(a, v) for a, v in p.guards()]
        emp = [v for a, v in g if a == T("empty", T("field", mm, "to"))]
        ret = p.outcome[1]
        if emp == [True]:
            classes.add("empty")
            ok = ok and const_int(ret) == 0
        elif emp == [False]:
            classes.add("nonempty")
            last = T("index", T("field", mm, "to"), T("binop", "Sub", T("len", T("field", mm, "to")), T("const", T("int", 1, "usize"))))
            ok = ok and isinstance(ret, tuple) and ret[0] == "call" and ret[1] == MOD + "is_action_key" and mir.strip(ret[2][0]) == last
        else:
            ok = False
    ck.ob("C04-T1", iam.path, "is_action_mapping=to-non-empty-and-last-output-is-a-non-modifier", ok and classes == {"empty", "nonempty"})
    anym = ctx.body(MOD + "is_any_modifier")
    ps = [p for p in mir.walk_function(anym) if p.outcome[0] == "return"]
    ok = False
    if len(ps) == 1 and not ps[0].guards():
        r = ps[0].outcome[1]
        keys = T("param", 1, anym.dbg.get(1, ""))
        if isinstance(r, tuple) and r[0] == "call" and method_name(r[1]) == "any" and r[2][0] == T("iter", keys, "fwd") and isinstance(r[2][1], tuple) and r[2][1][0] == "closure":
            cps, cb = mir.walk_closure(ctx.body, r[2][1])
            cr = [q.outcome[1] for q in cps if q.outcome[0] == "return"]
            ok = len(cr) == 1 and isinstance(cr[0], tuple) and cr[0][0] == "not" and isinstance(cr[0][1], tuple) and cr[0][1][0] == "call" \
                and cr[0][1][1] == MOD + "is_action_key" and cr[0][1][2] == (T("param", 2, cb.dbg.get(2, "")),)
    ck.ob("C04-T1", anym.path, "is_any_modifier=some-key-is-not-an-action-key", ok)
    tab = kt.bool_variant_table(ctx, MOD + "is_action_key")
    ck.ob("C04-T1", MOD + "is_action_key", "false-exactly-on-the-eight-standard-modifiers", tab is not None and tab[1] == MODIFIERS and not tab[0] and tab[2] is True)
    ck.explanation = "ordering on %d firing paths; pass-through classes %s; batch rows %s" % (n, sorted(seen), [sorted(r) for r in set(rows)])
