"""C06 — releasing everything (or a tablet-mode reset) returns the mapper to fresh state (necessary conditions)."""
from .. import mir, kt, ktx, ktloops
from ..kt import MOD, list_of, ABBR
from ..mir import T, show, method_name
from . import c01

LEVEL = "other"
META = {
    "technique": "iteration-completeness and provenance rules on Mapper::release_all, field-read inventory (write-only field), ordering rule in newly_press, reuse of the C01 invariant rules for the four list fields",
    "level_text": ("Decides necessary conditions only: release_all steps a Released event for every key of a snapshot of "
                   "input_pressed_keys (no early exit) and returns the concatenation of all step outputs; at rest four of the seven "
                   "state fields equal their initial values (C01 rules re-run: nothing held on input => the four lists are empty; "
                   "State::init builds exactly empty lists/None); repeating_trigger is never read; a pressed key is forgotten from "
                   "mapped_absorbed_keys before any lookup."),
    "level_note": ("NOT decided: mapped_absorbed_keys and absorbing_trigger can be stale at rest on this tree; that stale values never "
                   "change a later response needs reasoning over whole histories and is not claimed. Trusted: rustc MIR, tmfacts, walker."),
}

# --- additions to the level description (rules added after the first version)
META['level_text'] += ' No return path of release_all gets round that loop (no fast path).'
META["level_text"] += " R5: mapped_absorbed_keys and absorbing_trigger, the two fields that can be stale at rest, are read only in a reviewed set of functions; why a stale value is inert there is argued in DESIGN.md C06 (premises: R4, C03-T1, C08 rules, C01 invariants)."
META["level_note"] = "NOT mechanised: the induction showing that stale mapped_absorbed_keys/absorbing_trigger never change a later response (paper argument in DESIGN.md C06 over decided premises). Trusted: rustc MIR, tmfacts, walker."
# --- end additions

RA = MOD + "Mapper::release_all"
NP = MOD + "newly_press"


def release_all_rules(ctx, ck, K, rid):
    """Mapper::release_all steps Released(k) for EVERY key of a snapshot of input_pressed_keys on EVERY return path
    (shared by C06 and C12: the tablet-mode reset is this function)"""
    ra = ctx.body(RA)
    me = T("param", 1, ra.dbg.get(1, ""))
    loops = sorted(ra.loops())
    if not loops:
        # the same thing as an iterator expression:
        #   snapshot.into_iter().flat_map(|k| self.step(Released(k)).events).collect()
        rets = [p for p in mir.walk_function(ra) if p.outcome[0] == "return"]
        ok = len(rets) >= 1
        for p in rets:
            r = p.outcome[1]
            good = False
            if isinstance(r, tuple) and r[0] == "call" and method_name(r[1]) == "collect" and isinstance(r[2][0], tuple) and r[2][0][0] == "call" and method_name(r[2][0][1]) == "flat_map":
                it, clos = r[2][0][2]
                snap = isinstance(it, tuple) and it[0] == "iter" and it[2] == "fwd" and isinstance(it[1], tuple) and it[1][0] == "clone" and list_of(it[1][1]) == "IP"
                if snap and isinstance(clos, tuple) and clos[0] == "closure":
                    k_ = T("flatelem", it)
                    cps, cb = mir.walk_closure(ctx.body, clos, param_terms=[k_])
                    crets = [q for q in cps if q.outcome[0] == "return"]
                    if len(crets) == 1 and not [e for e in crets[0].events if e.kind == "guard"]:
                        cr = crets[0].outcome[1]
                        calls = [e for e in crets[0].events if e.kind == "call" and e.a == MOD + "Mapper::step"]
                        good = (len(calls) == 1 and mir.strip(calls[0].b[0]) == me and kt.is_event_agg(calls[0].b[1]) and calls[0].b[1][2] == "Released"
                                and mir.strip(calls[0].b[1][3][0]) == k_ and mir.strip(cr) == T("field", calls[0].c, "events"))
            if any(e.kind in ("guard",) and not (isinstance(e.a, tuple) and e.a[0] == "variantof") for e in p.events):
                good = False      # a fast path / early return
            ok = ok and good
        ck.ob(rid, RA, "single-loop", ok, detail=None if ok else "neither a loop over a snapshot of input_pressed_keys nor snapshot.into_iter().flat_map(|k| self.step(Released(k)).events).collect()")
        ck.ob(rid, RA, "iterates-every-key-of-input_pressed_keys(exit-only-by-exhaustion)", ok)
        ck.ob(rid, RA, "every-return-path-runs-the-complete-loop(no-early-return,no-fast-path)", ok)
        ck.floor(rid, "release_all-return-paths", len(rets), 1)
        return
    if len(loops) == 1 and _drains_until_empty(ctx, ck, K, rid, ra, me, loops[0]):
        return
    ck.ob(rid, RA, "single-loop", len(loops) == 1)
    if len(loops) == 1:
        il = ktloops.index_loop(ra, loops[0], full=True)
        snap = il.list_term
        ok_snap = il.kind == "for-elements" and list_of(snap) == "IP" and il.complete and not [p for p in il.break_paths]
        ck.ob(rid, RA, "iterates-every-key-of-input_pressed_keys(exit-only-by-exhaustion)", ok_snap, detail=show(snap)[:80] if snap else None)
        # a snapshot: the iterated vector is a clone taken before the loop
        it = il.elem[1] if il.elem else None
        cl = isinstance(it, tuple) and isinstance(it[1], tuple) and it[1][0] == "clone"
        ck.ob(rid, RA, "iterates-a-snapshot(clone)-not-the-list-being-modified", cl)
        for p in il.cont_paths:
            fx = K._one(ra, p, "x", None)
            calls = [e for e in fx.effects if e.kind == "CALL" and e.key == MOD + "Mapper::step"]
            apps = [e for e in fx.effects if e.kind == "APPEND"]
            ok = len(calls) == 1 and kt.is_event_agg(calls[0].aux[1]) and calls[0].aux[1][2] == "Released" and calls[0].aux[1][3][0] == il.elem \
                and mir.strip(calls[0].aux[0]) == me
            ck.ob(rid, RA, "steps-Released(k)-for-the-visited-key", ok)
            ok2 = len(apps) == 1 and mir.strip(apps[0].key) == T("field", calls[0].ev.c, "events") if calls else False
            ck.ob(rid, RA, "appends-that-step's-events", ok2)
            unc = not [g for g in fx.all_guards() if not (isinstance(g[0], tuple) and g[0][0] == "variantof")]
            ck.ob(rid, RA, "unconditionally", unc)
            if apps:
                acc = mir.strip(apps[0].aux)
                for q in il.exh_paths:
                    ck.ob(rid, RA, "returns-the-accumulated-events", q.outcome[0] == "return" and mir.strip(q.outcome[1]) == acc)
    # no return path gets round the loop (an early return leaves input_pressed_keys / active_mappings as they were)
    rets = [p for p in mir.walk_function(ra) if p.outcome[0] == "return"]
    okr = bool(rets) and len(loops) == 1
    for p in rets:
        ls = [e for e in p.events if e.kind == "loop"]
        ex = [e for e in p.events if e.kind == "loopexit"]
        exh = ra.exhaustion_exit(loops[0]) if len(loops) == 1 else None
        if len(ls) != 1 or len(ex) != 1 or exh is None or ex[0].b != exh[1]:
            okr = False
    ck.ob(rid, RA, "every-return-path-runs-the-complete-loop(no-early-return,no-fast-path)", okr,
          detail=None if okr else "a return path of release_all does not run the loop over input_pressed_keys to exhaustion: the mapper keeps its input set and active mappings")
    ck.floor(rid, "release_all-return-paths", len(rets), 1)


def _drains_until_empty(ctx, ck, K, rid, ra, me, h):
    """release_all written as a drain of the LIVE list:
         while let Some(&k) = self.state.input_pressed_keys.first() { events.append(&mut self.step(Released(k)).events) }
    The loop can only be left when input_pressed_keys is empty, and what it steps is a key of that list; that every such
    step removes the key (progress) is C01-R2, a premise of this property.  -> True if the loop has that shape (the
    obligations are then emitted here)"""
    paths = mir.walk_loop_only(ra, h)
    probe = None
    for p in paths:
        gs = [e for e in p.events if e.kind == "guard"]
        if not gs:
            return False
        a = gs[0].a
        # (the walker reads `xs.first()` / `xs.last()` as: None <=> xs is empty, Some(&xs[0]) / Some(&xs[len-1]) otherwise)
        if not (isinstance(a, tuple) and a[0] == "empty" and list_of(a[1]) == "IP" and not (isinstance(mir.strip(a[1]), tuple) and mir.strip(a[1])[0] == "clone")):
            return False
        probe = mir.strip(a[1])
    if probe is None:
        return False
    firsts = [mir.strip(e.c) for p in paths for e in p.events if e.kind == "call" and method_name(e.a) in ("first", "last") and e.b and mir.strip(e.b[0]) == probe]
    if not firsts:
        return False
    which = {method_name(e.a) for p in paths for e in p.events if e.kind == "call" and method_name(e.a) in ("first", "last") and e.b and mir.strip(e.b[0]) == probe}
    if len(which) != 1:
        return False
    k_ = T("index", probe, T("const", T("int", 0, "usize"))) if which == {"first"} else T("index", probe, T("binop", "Sub", T("len", probe), T("const", T("int", 1, "usize"))))
    ok_step = ok_exit = True
    n_cont = n_exit = 0
    acc = None
    for p in paths:
        gs = [e for e in p.events if e.kind == "guard"]
        if gs[0].b is False:
            n_cont += 1
            fx = K._one(ra, p, "x", None)
            calls = [e for e in fx.effects if e.kind == "CALL" and e.key == MOD + "Mapper::step"]
            apps = [e for e in fx.effects if e.kind == "APPEND"]
            good = (p.outcome == ("backedge", h) and len(gs) == 1 and len(calls) == 1 and kt.is_event_agg(calls[0].aux[1]) and calls[0].aux[1][2] == "Released"
                    and mir.strip(calls[0].aux[1][3][0]) == k_ and mir.strip(calls[0].aux[0]) == me
                    and len(apps) == 1 and mir.strip(apps[0].key) == T("field", calls[0].ev.c, "events"))
            if good:
                acc = mir.strip(apps[0].aux)
            ok_step = ok_step and good
        else:
            n_exit += 1
            ok_exit = ok_exit and len(gs) == 1
    ck.ob(rid, RA, "single-loop", True)
    ck.ob(rid, RA, "iterates-every-key-of-input_pressed_keys(exit-only-by-exhaustion)", ok_exit and n_exit >= 1,
          detail="drain form: the loop is left only when input_pressed_keys.first() is None")
    ck.ob(rid, RA, "steps-Released(k)-for-the-visited-key", ok_step and n_cont >= 1)
    ck.ob(rid, RA, "appends-that-step's-events", ok_step and n_cont >= 1)
    ck.ob(rid, RA, "unconditionally", ok_step)
    rets = [p for p in mir.walk_function(ra) if p.outcome[0] == "return"]
    okr = bool(rets)
    for p in rets:
        ls = [e for e in p.events if e.kind == "loop"]
        if len(ls) != 1 or [e for e in p.events if e.kind == "guard" and not (isinstance(e.a, tuple) and e.a[0] == "variantof")]:
            okr = False
        if acc is not None and mir.strip(p.outcome[1]) != acc:
            ck.ob(rid, RA, "returns-the-accumulated-events", False)
    ck.ob(rid, RA, "every-return-path-runs-the-complete-loop(no-early-return,no-fast-path)", okr)
    ck.floor(rid, "release_all-return-paths", len(rets), 1)
    return True


def run(ctx):
    ck = ctx.check
    K = kt.KT(ctx)
    ck.rule_text = "one obligation per structural fact about release_all, State::init, reads of repeating_trigger, and the forget-on-press ordering"
    ck.trusted_base = ["rustc front end + MIR builder", "tmfacts exporter", "tmv path walker", "C01 rules (re-run)"]
    # ---------------- R1 release_all
    release_all_rules(ctx, ck, K, "C06-R1")
    # ---------------- R2 rest == init for the four lists
    init = ctx.body(MOD + "State::init")
    ps = [p for p in mir.walk_function(init) if p.outcome[0] == "return"]
    ok = False
    if len(ps) == 1:
        r = ps[0].outcome[1]
        if isinstance(r, tuple) and r[0] == "agg" and r[1] == MOD + "State":
            f = dict(zip(r[4], r[3]))
            ok = all(isinstance(f.get(n), tuple) and f[n][0] == "call" and method_name(f[n][1]) == "new" and not f[n][2]
                     for n in ("input_pressed_keys", "active_mappings", "pass_through_keys", "mapped_output_keys", "mapped_absorbed_keys")) \
                and all(isinstance(f.get(n), tuple) and f[n][0] == "agg" and f[n][2] == "None" for n in ("absorbing_trigger", "repeating_trigger"))
    ck.ob("C06-R2", init.path, "initial-state-is-empty-lists-and-None", ok)
    fl = ctx.body(MOD + "Mapper::for_layout")
    names = [n for _, n, _ in fl.calls()]
    ck.ob("C06-R2", fl.path, "a-new-mapper-starts-from-State::init", MOD + "State::init" in names and MOD + "make_hashed_layout" in names)
    # the C01 rules (nothing held on input => IP, PT, MO, AM empty) hold on this tree
    from .. import premises
    if not getattr(ctx, "no_premises", False):
        bad = premises.own_violations(ctx, "C01")
        ck.ob("C06-R2", "-", "C01-invariant-rules-hold(four-list-fields-empty-at-rest)", not bad,
              detail=None if not bad else "%d rule(s) of C01 fail, first: %s" % (len(bad), bad[0][:200]))
    # ---------------- R3 repeating_trigger is write-only
    readers = []
    for p in sorted(ctx.F.bodies):
        if not (p.startswith(MOD) or p.startswith("<" + MOD)) or "as std::fmt::Debug>" in p:
            continue
        b = ctx.body(p)
        for i in b.live_blocks():
            blk = b.blocks[i]
            for st in blk["stmts"]:
                if st["k"] != "assign":
                    continue
                if _reads_field(st["rv"], "repeating_trigger"):
                    readers.append(p)
            t = blk["term"]
            ops = []
            if t["k"] == "call":
                ops = t["args"]
            elif t["k"] == "switch":
                ops = [t["discr"]]
            for o in ops:
                if o["k"] in ("copy", "move") and any(e.get("name") == "repeating_trigger" for e in o["place"]["p"]):
                    readers.append(p)
    # a read that only decides whether the field itself is overwritten (`if s.repeating_trigger == Some(k) {
    # s.repeating_trigger = None }`) tells nobody anything: the field stays write-only as far as behaviour goes
    readers = [p for p in readers if not _only_self_guarding_reads(ctx, p, "repeating_trigger")]
    ck.ob("C06-R3", "-", "repeating_trigger-is-never-read", not readers, detail=str(sorted(set(readers))))
    # positive control: absorbing_trigger IS read somewhere (the query works)
    pos = []
    for p in sorted(ctx.F.bodies):
        if not p.startswith(MOD) or "as std::fmt::Debug>" in p:
            continue
        b = ctx.body(p)
        for i in b.live_blocks():
            for st in b.blocks[i]["stmts"]:
                if st["k"] == "assign" and _reads_field(st["rv"], "absorbing_trigger"):
                    pos.append(p)
    ck.ob("C06-R3", "-", "positive-control:absorbing_trigger-is-read", len(set(pos)) >= 2, detail=str(sorted(set(pos))))
    # ---------------- R5 the two fields that CAN be stale at rest (mapped_absorbed_keys, absorbing_trigger) are read
    # only where a stale value is inert: the reviewed reader set (argument in DESIGN.md C06: an absorbed key that is
    # not held as input changes nothing in is_supported / release_absorbed_keys, and a pressed key is forgotten first)
    def readers_of(field):
        out = set()
        for p in sorted(ctx.F.bodies):
            if not (p.startswith(MOD) or p.startswith("<" + MOD)) or "as std::fmt::Debug>" in p or "::tests::" in p:
                continue
            if p.split("::{closure")[0] in ctx.F.spliced_away:
                continue      # a new helper that lives on inside its callers: its reads are theirs
            b = ctx.body(p)
            hit = False
            for i in b.live_blocks():
                blk = b.blocks[i]
                for st in blk["stmts"]:
                    if st["k"] == "assign" and _reads_field(st["rv"], field):
                        hit = True
                t = blk["term"]
                ops = t["args"] if t["k"] == "call" else ([t["discr"]] if t["k"] == "switch" else [])
                for o in ops:
                    if o["k"] in ("copy", "move") and any(e.get("name") == field for e in o["place"]["p"]):
                        hit = True
            if hit:
                out.add(p.split("::{closure")[0])
        return out
    rab = readers_of("mapped_absorbed_keys")
    rat = readers_of("absorbing_trigger")
    want_ab = {MOD + "newly_press", MOD + "add_new_mapping", MOD + "release_absorbed_keys"}
    want_at = {MOD + "newly_press", MOD + "add_new_mapping", MOD + "release_absorbed_keys"}
    ck.ob("C06-R5", "-", "mapped_absorbed_keys-is-read-only-in-the-reviewed-places", rab <= want_ab and MOD + "newly_press" in rab, detail=str(sorted(x[len(MOD):] for x in rab)))
    ck.ob("C06-R5", "-", "absorbing_trigger-is-read-only-in-the-reviewed-places", rat <= want_at and MOD + "newly_press" in rat, detail=str(sorted(x[len(MOD):] for x in rat)))
    # ---------------- R4 forget on press
    np_ = ctx.body(NP)
    k = T("param", 2, np_.dbg.get(2, ""))
    n = 0
    for fx in K.path_fx(np_):
        if fx.tag != "fn" or fx.path.outcome[0] != "return":
            continue
        n += 1
        forget = ktloops.forget_from_ab(K, np_, fx, k)
        look = [i for i, e in enumerate(fx.path.events) if e.kind == "call" and method_name(e.a) == "get" and "HashMap" in e.a]
        ok = len(forget) == 1 and (not look or forget[0] < look[0])
        ck.ob("C06-R4", NP, "pressed-key-forgotten-from-mapped_absorbed_keys-before-any-lookup", ok)
    ck.floor("C06-R4", "newly_press-return-paths", n, 1)
    ck.explanation = "release_all loop, State::init, field-read inventory and forget-on-press ordering analysed; AB/AT staleness not decided."


def _reads_field(rv, name):
    def place_has(p):
        return any(e.get("name") == name for e in p["p"])

    def op_has(o):
        return o["k"] in ("copy", "move") and place_has(o["place"])
    k = rv["k"]
    if k in ("ref", "rawptr", "copyderef", "discr"):
        return place_has(rv["place"])
    if k in ("use", "cast"):
        return op_has(rv["op"])
    if k == "binop":
        return op_has(rv["a"]) or op_has(rv["b"])
    if k == "unop":
        return op_has(rv["a"])
    if k == "agg":
        return any(op_has(o) for o in rv["ops"])
    return False


def _only_self_guarding_reads(ctx, path, field):
    """every mention of `.field` in the function is the target of an assignment, or stands in the condition of an
    else-less `if` whose block does nothing but assign to `.field` (constants only)"""
    from .. import hirq
    h = ctx.F.hir.get(path)
    if h is None:
        return False

    def is_field(e):
        e = hirq.strip_ref(e)
        return isinstance(e, dict) and e.get("k") == "Field" and e.get("name") == field

    def mentions(n):
        return [x for x in hirq.walk(n) if x.get("k") == "Field" and x.get("name") == field]

    def pure_store_block(blk):
        while blk.get("k") == "Block" and "b" in blk:
            b = blk["b"]
            items = [s.get("e") or s for s in b["stmts"]] + ([b["expr"]] if b.get("expr") is not None else [])
            if len(items) == 1 and items[0].get("k") == "Block":
                blk = items[0]
                continue
            if not items:
                return False
            for it in items:
                if not (it.get("k") == "Assign" and is_field(it["lhs"])):
                    return False
                if any(x.get("k") in ("MethodCall",) for x in hirq.walk(it["rhs"])) or mentions(it["rhs"]):
                    return False
                for c in hirq.walk(it["rhs"]):
                    if c.get("k") == "Call" and not (hirq.callee_of(c) or "").endswith(("Some", "None")):
                        return False
            return True
        return False
    total = len(mentions(h["body"]))
    accounted = 0
    for n in hirq.walk(h["body"]):
        if n.get("k") == "Assign" and is_field(n["lhs"]):
            accounted += 1
        if n.get("k") == "If" and n.get("else") is None and mentions(n["cond"]) and pure_store_block(n["then"]):
            accounted += len(mentions(n["cond"]))
    return total > 0 and accounted == total
