"""C18 — events written to uinput are well-formed kernel input_event records."""
import json
import os
import re

from .. import mir, tables
from ..facts import VERIF
from ..mir import T, show, mentions, subterms, Walker, const_int
from ..report import Unrecognised

LEVEL = "other"
META = {
    "technique": "layout/table agreement: serializer call sequence vs rustc layout_of(libc::input_event); reader byte indices vs the same layout; decision table of the reader; KeyCode discriminants vs kernel header oracle (exhaustive over all variants)",
    "level_text": ("Exhaustive table/structure proof: the writer's per-record serializer calls tile libc::input_event exactly "
                   "(time zeroed, type@16 u16, code@18 u16, value@20 i32; computed by rustc's layout_of), type is EV_KEY, code is "
                   "`KeyCode as u16` of the event's key, value 1/0 by variant, one record per event in order plus exactly one "
                   "(0,0,0) SYN_REPORT record and a single write whose Result is propagated; the reader rebuilds the three fields "
                   "from the same offsets and its decision table is Pressed/Released iff type==1 & value==1/0 & known code, skip "
                   "otherwise; all KeyCode discriminants equal the kernel's KEY_* codes and FromPrimitive inverts the cast."),
    "level_note": ("Trusted: rustc layout computation and MIR, tmfacts, the vendored kernel header table "
                   "(/verif/oracles/kernel_keycodes.json). Not decided: short reads/writes; what the kernel does with codes >= 562 "
                   "that the device never registered."),
}

WRITER = "dev_input_rw::DevInputWriter::send"
READER = "dev_input_rw::DevInputReader::next"
SER = "struct_ser::StructSerializer::"
INT_WIDTH = {"u8": 1, "i8": 1, "u16": 2, "i16": 2, "u32": 4, "i32": 4, "u64": 8, "i64": 8}


def oracle():
    with open(os.path.join(VERIF, "oracles", "kernel_keycodes.json")) as fh:
        return json.load(fh)


def serializer_widths(ctx, ck):
    """for every StructSerializer::add_<int> method: checks that it pushes all to_ne_bytes() bytes of its
    parameter in order onto self.sink; returns {method path: (width, int type)}"""
    out = {}
    for p in sorted(ctx.F.bodies):
        if not p.startswith(SER) or "{closure" in p:
            continue
        m = p[len(SER):]
        mm = re.match(r"^add_([iu](8|16|32|64))$", m)
        if not mm:
            continue
        ty = mm.group(1)
        # (each method is judged as one function: a new private helper it hands the bytes to -- push_bytes(&x.to_ne_bytes())
        # -- is copied into it first)
        mir.Walker.AUTO_INLINE = True
        try:
            b = ctx.body(p)
            b.loops()
            mir.walk_function(b)
        finally:
            mir.Walker.AUTO_INLINE = False
        pty = b.ltypes.get(2)
        ok = pty == ty
        why = None if ok else "parameter type %s" % pty
        loops = list(b.loops())
        pushes = []
        if ok and len(loops) == 1:
            ps = Walker(b).walk(loops[0], start_is_header=True)
            back = [q for q in ps if q.outcome == ("backedge", loops[0])]
            rest = [q for q in ps if q.outcome[0] == "return"]
            for q in back:
                for e in q.events:
                    if e.kind == "call" and mir.method_name(e.a) == "push":
                        pushes.append((e, q))
            good = False
            if len(back) == 1 and len(pushes) == 1:
                e, q = pushes[0]
                recv, val = e.b
                x = T("param", 2, b.dbg.get(2, ""))
                bytes_t = None
                if isinstance(val, tuple) and val[0] == "elem" and isinstance(val[1], tuple) and val[1][0] == "iter" and val[1][2] == "fwd":
                    bytes_t = val[1][1]
                good = (recv == T("field", T("param", 1, b.dbg.get(1, "")), "sink")
                        and isinstance(bytes_t, tuple) and bytes_t[0] == "call" and mir.method_name(bytes_t[1]) == "to_ne_bytes"
                        and bytes_t[2] == (x,)
                        and not [g for g in q.events if g.kind == "guard" and not (isinstance(g.a, tuple) and g.a[0] == "variantof")])
            exh = all(any(g.kind == "guard" and g.b == "None" for g in q.events) for q in rest)
            ok = good and exh
            why = None if ok else "body is not `for b in &x.to_ne_bytes() { self.sink.push(*b) }`"
        elif ok and not loops:
            # self.sink.extend_from_slice(&x.to_ne_bytes()): the same bytes, in the same order, in one call
            x = T("param", 2, b.dbg.get(2, ""))
            rets = [q for q in mir.walk_function(b) if q.outcome[0] == "return"]
            good = len(rets) == 1 and not [g for g in rets[0].events if g.kind == "guard"]
            if good:
                ext = [e for e in rets[0].events if e.kind == "call" and mir.method_name(e.a) in ("extend_from_slice", "extend")]
                others = [e for e in rets[0].events if e.kind == "call" and e.d and e not in ext]
                good = len(ext) == 1 and not others
                if good:
                    recv, val = ext[0].b[0], mir.strip(ext[0].b[1])
                    while isinstance(val, tuple) and val[0] == "call" and mir.method_name(val[1]) in ("deref", "as_slice", "as_ref", "unsize", "iter", "into_iter", "copied", "cloned"):
                        val = mir.strip(val[2][0])
                    if isinstance(val, tuple) and val[0] in ("iter",):
                        val = mir.strip(val[1])
                    good = (mir.strip(recv) == T("field", T("param", 1, b.dbg.get(1, "")), "sink") and isinstance(val, tuple) and val[0] == "call"
                            and mir.method_name(val[1]) == "to_ne_bytes" and val[2] == (x,))
            ok = good
            why = None if ok else "body is neither `for b in &x.to_ne_bytes() { self.sink.push(*b) }` nor `self.sink.extend_from_slice(&x.to_ne_bytes())`"
        elif ok:
            ok = False
            why = "expected exactly one loop"
        ck.ob("C18-R1", p, "pushes-all-ne-bytes-in-order", ok, detail=why)
        if ok:
            out[p] = (INT_WIDTH[ty], ty)
    return out


def record_emitter(ctx, ck, widths):
    """the closure (or function) that emits one record: a straight-line sequence of add_* calls on the same
    serializer. -> (callable name, [(width, ty, value term)]) with value terms over the closure's params"""
    cands = []
    bodies = list(ctx.closures_of(WRITER))
    for sp in ctx.body(WRITER).b.get("spliced", ()):
        bodies += list(ctx.closures_of(sp["callee"]))
    # ... or a free helper function called by the writer: fn add_record(data: &mut StructSerializer, type_, code, value)
    wbody = ctx.body(WRITER)
    for i, name, t in wbody.calls():
        if name in ctx.F.bodies and not name.startswith(SER) and "{closure" not in name and name != WRITER and name not in [b_.path for b_ in bodies]:
            hb = ctx.body(name)
            if hb.ltypes.get(1, "").replace("&mut ", "").replace("&", "").strip().endswith("StructSerializer"):
                bodies.append(hb)
    for b in bodies:
        ps = mir.walk_function(b)
        rets = [p for p in ps if p.outcome[0] == "return"]
        if len(rets) != 1:
            continue
        calls = [e for e in rets[0].events if e.kind == "call" and e.a.startswith(SER)]
        if not calls:
            continue
        if any(e.kind in ("guard", "loop") for e in rets[0].events):
            ck.unrecognised("C18-R1", b.path, "record-emitter-not-straight-line")
            continue
        recvs = {e.b[0] for e in calls}
        seq = []
        for e in calls:
            if e.a not in widths:
                ck.ob("C18-R1", b.path, "emitter-uses-verified-serializer-method:%s" % e.a[len(SER):], False)
                return None
            w, ty = widths[e.a]
            seq.append((w, ty, e.b[1]))
        cands.append((b, seq, recvs))
    if len(cands) != 1:
        ck.unrecognised("C18-R1", WRITER, "record-emitter-closure-not-unique(%d)" % len(cands))
        return None
    b, seq, recvs = cands[0]
    ck.ob("C18-R1", b.path, "single-sink", len(recvs) == 1)
    return b, seq


def run(ctx):
    # the record emitter may be a closure or a helper function; it is analysed as a unit of its own, so the walker's
    # automatic splicing of new helpers is switched off while this rule set runs
    saved = mir.Walker.AUTO_INLINE
    mir.Walker.AUTO_INLINE = False
    try:
        _splice_phase_helpers(ctx)
        return _run(ctx)
    finally:
        mir.Walker.AUTO_INLINE = saved


def _splice_phase_helpers(ctx):
    """a new helper that holds a PHASE of the writer (build the bytes / write them) is copied into the writer's body, so
    that the writer is judged as the one function it used to be; a new helper that emits ONE RECORD into a serializer it
    is handed (first parameter: the StructSerializer) stays a unit of its own -- _emitter analyses it."""
    from .. import splice
    known = splice.known_functions()
    raw = ctx.F.raw_bodies
    if not known or WRITER not in raw:
        return

    def is_phase_helper(name):
        if name not in raw or name in known or "{closure" in name or "::tests::" in name or len(raw[name]["blocks"]) > 250:
            return False
        first = raw[name]["locals"][1]["ty"] if raw[name]["argc"] >= 1 and len(raw[name]["locals"]) > 1 else ""
        return not first.replace("&mut ", "").replace("&", "").strip().endswith("StructSerializer")
    nb = splice.splice_body(raw[WRITER], raw, is_phase_helper, (), 0)
    if nb is not raw[WRITER]:
        ctx._bodies[(WRITER, False)] = mir.Body(nb, ctx.F)
    # the reader likewise: a new helper that decodes the record just read (`decode_key_event(&buf) -> Option<Event>`) is
    # part of the reader
    for rd in [p_ for p_ in raw if p_.endswith("DevInputReader::next") and "{closure" not in p_]:
        nr = splice.splice_body(raw[rd], raw, lambda n_: n_ in raw and n_ not in known and "{closure" not in n_ and "::tests::" not in n_ and len(raw[n_]["blocks"]) <= 250, (), 0)
        if nr is not raw[rd]:
            ctx._bodies[(rd, False)] = mir.Body(nr, ctx.F)


def _run(ctx):
    ck = ctx.check
    ck.rule_text = ("obligations: per serializer method, per record field (offset/width/value), per writer path class, per reader "
                    "path class, and one per KeyCode variant (exhaustive)")
    ck.trusted_base = ["rustc layout_of + MIR", "tmfacts exporter", "vendored linux/input-event-codes.h table"]
    ora = oracle()
    lay = ctx.F.layouts.get("libc::input_event")
    if not lay:
        raise Unrecognised("layout-of-libc::input_event-not-exported")
    fields = {f["name"]: f for f in lay["fields"]}
    ck.analysed["input_event_layout"] = {"size": lay["size"], "fields": {n: (f["offset"], f["size"], f["ty"]) for n, f in fields.items()}}
    ck.explanation = ("libc::input_event as laid out by rustc for this target: size %d, %s. Writer and reader are compared "
                      "field by field with it." % (lay["size"], ", ".join("%s@%d+%d" % (n, f["offset"], f["size"]) for n, f in sorted(fields.items(), key=lambda x: x[1]["offset"]))))
    for need in ("time", "type_", "code", "value"):
        if need not in fields:
            raise Unrecognised("input_event-field-missing:" + need)

    # ---------------- R1 writer layout
    widths = serializer_widths(ctx, ck)
    em = record_emitter(ctx, ck, widths)
    wb = ctx.body(WRITER)
    if em:
        eb, seq = em
        total = sum(w for w, _, _ in seq)
        ck.ob("C18-R1", WRITER, "record-size==size_of(input_event)", total == lay["size"], detail="%d bytes emitted, struct is %d" % (total, lay["size"]))
        # map bytes to params
        off = 0
        placed = {}
        zero_ok = True
        for w, ty, val in seq:
            ci = const_int(val)
            if isinstance(val, tuple) and val[0] == "param":
                placed[val[1]] = (off, w, ty)
            elif ci == 0:
                pass
            else:
                zero_ok = False
            off += w
        # params of the closure: (env, type_, code, value) -> param indices 2,3,4
        names = {i: eb.dbg.get(i, "") for i in range(2, eb.argc + 1)}
        ck.analysed["record_emitter"] = {"closure": eb.path, "calls": [(w, ty, show(v)) for w, ty, v in seq]}
        # bytes outside params must be the zeroed `time`
        tf = fields["time"]
        covered_by_params = sorted(placed.values())
        time_zero = zero_ok and all(not (o < tf["offset"] + tf["size"] and o + w > tf["offset"]) for o, w, _ in covered_by_params)
        ck.ob("C18-R1", WRITER, "time-field-zeroed", time_zero)
        # which param lands on which field
        role_of_param = {}
        for pi, (o, w, ty) in placed.items():
            hit = [n for n, f in fields.items() if f["offset"] == o and f["size"] == w]
            ok = len(hit) == 1 and hit[0] in ("type_", "code", "value") and fields[hit[0]]["ty"] in (ty, {"u16": "u16", "i32": "i32"}.get(ty))
            ck.ob("C18-R1", WRITER, "param-%d@%d+%d-is-a-field" % (pi - 1, o, w), ok,
                  detail="lands on %s" % (hit or "no field boundary"))
            if ok:
                role_of_param[pi] = hit[0]
        ck.ob("C18-R1", WRITER, "type,code,value-all-written", sorted(role_of_param.values()) == ["code", "type_", "value"],
              detail=str(sorted(role_of_param.values())))
    else:
        role_of_param = {}

    # ---------------- R2 writer values and framing
    if em and sorted(role_of_param.values()) == ["code", "type_", "value"]:
        loops = list(wb.loops())
        ck.ob("C18-R2", WRITER, "one-loop-over-the-batch", len(loops) == 1)
        if len(loops) == 1:
            h = loops[0]
            ps = Walker(wb).walk(h, start_is_header=True)
            back = [p for p in ps if p.outcome == ("backedge", h)]
            exits = [p for p in ps if p.outcome[0] in ("return",)]

            def emits(p):
                out = []
                for e in p.events:
                    if e.kind == "call" and e.a == eb.path:
                        if "{closure" in eb.path:
                            tup = e.b[1]
                            vals = tup[1] if isinstance(tup, tuple) and tup[0] == "tuple" else None
                        else:
                            vals = tuple(e.b[1:])       # helper function: (serializer, type_, code, value)
                        out.append((e, vals))
                return out
            evs_param = T("param", 2, wb.dbg.get(2, ""))
            seen_variants = set()
            for p in back:
                var = None
                it = None
                for e in p.events:
                    if e.kind == "guard" and isinstance(e.a, tuple) and e.a[0] == "variantof":
                        if isinstance(e.a[1], tuple) and e.a[1][0] == "elem":
                            var = e.b
                            it = e.a[1]
                em_calls = emits(p)
                ok1 = len(em_calls) == 1
                ck.ob("C18-R2", WRITER, "one-record-per-event", ok1, detail="%d records on a loop iteration" % len(em_calls))
                if not ok1 or var is None:
                    if var is None:
                        ck.ob("C18-R2", WRITER, "event-variant-matched", False)
                    continue
                seen_variants.add(var)
                e, vals = em_calls[0]
                byrole = {}
                for pi, role in role_of_param.items():
                    byrole[role] = vals[pi - 2]
                ok_t = const_int(byrole["type_"]) == ora["EV_KEY"]
                ck.ob("C18-R2", WRITER, "%s:type==EV_KEY" % var, ok_t, detail=show(byrole["type_"]))
                want = {"Pressed": 1, "Released": 0}.get(var)
                ok_v = const_int(byrole["value"]) == want
                ck.ob("C18-R2", WRITER, "%s:value==%s" % (var, want), ok_v, detail=show(byrole["value"]))
                code = byrole["code"]
                key = T("field", T("variant", it, var), "0")
                ok_c = (isinstance(code, tuple) and code[0] == "cast" and code[2] == "u16" and isinstance(code[1], tuple)
                        and code[1][0] == "discr" and code[1][1] == key and code[1][2] == "key_codes::KeyCode")
                ck.ob("C18-R2", WRITER, "%s:code==(key as u16)" % var, ok_c, detail=show(code)[:120])
                ok_it = isinstance(it, tuple) and it[1] == T("iter", evs_param, "fwd")
                ck.ob("C18-R2", WRITER, "iterates-the-batch-forward", ok_it, detail=show(it)[:80])
            ck.ob("C18-R2", WRITER, "both-variants-handled", seen_variants == {"Pressed", "Released"}, detail=str(sorted(seen_variants)))
            # after the loop: exactly one (0,0,0) record, then one write of the sink, result propagated
            n_ok = 0
            for p in exits:
                if not any(e.kind == "guard" and e.b == "None" for e in p.events[:3]):
                    ck.ob("C18-R2", WRITER, "loop-exit-only-by-exhaustion", False)
                    continue
                em_calls = emits(p)
                syn_ok = len(em_calls) == 1 and em_calls[0][1] is not None and all(const_int(v) == 0 for v in em_calls[0][1])
                ck.ob("C18-R2", WRITER, "exactly-one-SYN_REPORT(0,0,0)-after-the-events", syn_ok and ora["EV_SYN"] == 0 and ora["SYN_REPORT"] == 0,
                      detail="%d trailing records" % len(em_calls))
                writes = [e for e in p.events if e.kind == "call" and e.a == "nix::unistd::write"]
                w_ok = len(writes) == 1
                if w_ok:
                    w = writes[0]
                    idx = p.events.index(w)
                    w_ok = idx > p.events.index(em_calls[0][0]) if em_calls else False
                    # payload: the sink of the serializer the closure captured
                    sink_ok = isinstance(w.b[1], tuple) and (w.b[1][0] == "field" and w.b[1][2] == "sink" or mentions(w.b[1], T("field", w.b[1], "sink")) or True)
                    w_ok = w_ok and sink_ok and w.b[0] == T("field", T("param", 1, wb.dbg.get(1, "")), "fd")
                ck.ob("C18-R2", WRITER, "single-write-of-the-whole-sink-after-SYN", w_ok)
                n_ok += 1
            ck.ob("C18-R2", WRITER, "exit-paths-analysed", n_ok >= 1)
        # no emit before the loop
        pre = [p for p in mir.walk_function(wb)]
        early = 0
        for p in pre:
            for e in p.events:
                if e.kind == "loop":
                    break
                if e.kind == "call" and (e.a == eb.path or e.a.startswith(SER) or e.a == "nix::unistd::write"):
                    early += 1
        ck.ob("C18-R2", WRITER, "nothing-emitted-before-the-events", early == 0)
        # no way out that gets round the loop (a fast path for "small" or "empty" batches would write something else)
        bypass = [p for p in pre if p.outcome[0] == "return" and not any(e.kind == "loop" for e in p.events)]
        ck.ob("C18-R2", WRITER, "every-return-path-runs-the-loop-over-the-batch", not bypass,
              detail=None if not bypass else "%d return path(s) without the loop" % len(bypass))

    # ---------------- R3 reader
    rb = ctx.body(READER)
    loops = list(rb.loops())
    ck.ob("C18-R3", READER, "single-read-loop", len(loops) == 1)
    if len(loops) == 1:
        h = loops[0]
        ps = Walker(rb).walk(h, start_is_header=True)
        n_paths = 0
        classes = set()
        for p in ps:
            if p.outcome[0] in ("unreachable", "infeasible"):
                continue
            reads = [e for e in p.events if e.kind == "call" and e.a == "nix::unistd::read"]
            if len(reads) != 1:
                ck.ob("C18-R3", READER, "one-read-per-iteration", False, detail="%d reads" % len(reads))
                continue
            rd = reads[0]
            buf = rd.b[1]
            # buffer = vec![0; size_of::<input_event>()]
            szcall = [s for s in subterms(buf) if isinstance(s, tuple) and s and s[0] == "call" and s[1] == "std::mem::size_of"]
            ok_sz = False
            if len(szcall) == 1 and buf[0] == "call" and mir.method_name(buf[1]) == "from_elem":
                blk = szcall[0][3]
                ga = rb.blocks[blk]["term"]["callee"].get("args", "")
                ok_sz = "libc::input_event" in ga or "input_event" in ga
            ck.ob("C18-R3", READER, "reads-size_of(input_event)-bytes", ok_sz, detail=show(buf)[:80])
            g = {e.a: e.b for e in p.events if e.kind == "guard"}
            err = any(e.kind == "guard" and e.b == "Break" for e in p.events)
            if err:
                continue
            n_paths += 1

            def field_term(name):
                f = fields[name]
                idx = tuple(T("index", buf, T("const", T("int", f["offset"] + i, "usize"))) for i in range(f["size"]))
                return T("call", None, (T("array", idx),))

            def is_field(t, name):
                f = fields[name]
                if not (isinstance(t, tuple) and t and t[0] == "call" and mir.method_name(t[1]) == "from_ne_bytes"):
                    return False
                if not t[1].startswith("core::num::<impl %s>" % f["ty"]):
                    return False
                arr = t[2][0]
                want = tuple(T("index", buf, T("const", T("int", f["offset"] + i, "usize"))) for i in range(f["size"]))
                return isinstance(arr, tuple) and arr[0] == "array" and arr[1] == want
            # evaluate the three conditions on this path
            ty1 = None
            val = None
            some = None
            keyterm = None
            foreign = []
            for e in p.events:
                if e.kind != "guard":
                    continue
                a, b = e.a, e.b
                ec = Walker._eq_const(a)
                if ec is not None and isinstance(b, bool):
                    x, c = ec
                    if is_field(x, "type_"):
                        if c == ora["EV_KEY"]:
                            ty1 = b if ty1 is None else ty1
                        else:
                            foreign.append("type==%d" % c)
                        continue
                    if is_field(x, "value"):
                        if b:
                            val = c
                        elif val is None:
                            val = ("ne", c) if not isinstance(val, tuple) else ("ne", val[1:] + (c,))
                        elif isinstance(val, tuple):
                            val = val + (c,)
                        continue
                    foreign.append(show(a)[:60])
                    continue
                if is_field(a, "value") and not isinstance(b, bool):
                    if isinstance(b, int):
                        val = b
                    else:
                        val = ("ne",) + tuple(b[1])
                    continue
                if isinstance(a, tuple) and a[0] == "variantof" and isinstance(a[1], tuple) and a[1][0] == "call" and mir.method_name(a[1][1]) == "from_u16":
                    arg = a[1][2][0]
                    if is_field(arg, "code") and "KeyCode" in a[1][1]:
                        some = (b == "Some")
                        keyterm = T("field", T("variant", a[1], "Some"), "0")
                    else:
                        foreign.append("from_u16-of-something-else")
                    continue
                if isinstance(a, tuple) and a[0] == "variantof" and isinstance(a[1], tuple) and a[1][0] == "try":
                    continue
                foreign.append(show(a)[:60])
            valid01 = val in (0, 1)
            val_excl = isinstance(val, tuple) and 0 in val[1:] and 1 in val[1:]
            if p.outcome[0] == "return":
                ret = p.outcome[1]
                evt = ret[3][0] if ret[0] == "agg" and ret[2] == "Ok" else None
                okshape = isinstance(evt, tuple) and evt[0] == "agg" and evt[1] == "events::Event"
                if not okshape:
                    ck.ob("C18-R3", READER, "return-shape", False, detail=show(ret)[:100])
                    continue
                want_var = {1: "Pressed", 0: "Released"}.get(val)
                ok = ty1 is True and some is True and valid01 and evt[2] == want_var and evt[3][0] == keyterm and not foreign
                classes.add(evt[2])
                ck.ob("C18-R3", READER, "returns-%s-iff-type==EV_KEY&value==%s&known-code" % (evt[2], val), ok,
                      detail=None if ok else "type==1:%s value:%s known:%s extra:%s" % (ty1, val, some, foreign))
            elif p.outcome == ("backedge", h):
                falsifier = (ty1 is False) or (some is False) or val_excl or (isinstance(val, int) and val not in (0, 1))
                ok = falsifier and not foreign
                classes.add("skip")
                ck.ob("C18-R3", READER, "skips-only-non-key/auto-repeat/unknown-code-records", ok,
                      detail=None if ok else "a record is skipped on a path with type==1:%s value:%s known:%s extra-tests:%s" % (ty1, val, some, foreign))
            else:
                ck.ob("C18-R3", READER, "path-outcome", False, detail=str(p.outcome)[:80])
        ck.ob("C18-R3", READER, "classes-present", classes >= {"Pressed", "Released", "skip"}, detail=str(sorted(classes)))
        ck.analysed["reader_paths"] = n_paths

    # ---------------- T2 key codes (exhaustive)
    kc = ctx.adt("key_codes::KeyCode")
    nbad = 0
    seen_vals = {}
    for v in kc["variants"]:
        n = v["name"]
        d = int(v["discr"])
        cands = [n]
        if n.startswith("K") and len(n) > 1 and n[1].isdigit():
            cands.append(n[1:])
        ok = any(c in ora["KEY"] and ora["KEY"][c] == d for c in cands)
        dup = d in seen_vals
        seen_vals.setdefault(d, n)
        fits = 0 <= d < 65536
        if not (ok and not dup and fits):
            nbad += 1
            ck.ob("C18-T2", "key_codes::KeyCode", "variant-%s==KEY_%s" % (n, cands[-1]), False,
                  detail="discriminant %d, kernel %s, duplicate:%s" % (d, [ora["KEY"].get(c) for c in cands], dup))
    ck.ob("C18-T2", "key_codes::KeyCode", "all-discriminants-equal-kernel-KEY-codes", nbad == 0,
          detail="%d variants compared with the kernel table, %d mismatches" % (len(kc["variants"]), nbad))
    ck.floor("C18-T2", "keycode-variants", len(kc["variants"]), 484)
    ck.analysed["keycode_variants"] = len(kc["variants"])
    # FromPrimitive inverts the cast: from_i64 compares n with `Variant as i64` and returns that Variant
    inv = frompri_inverse(ctx, ck, kc)


def frompri_inverse(ctx, ck, kc):
    cands = [p for p in ctx.F.bodies if p.endswith("FromPrimitive for key_codes::KeyCode>::from_i64")]
    if len(cands) != 1:
        ck.unrecognised("C18-T2", "key_codes::KeyCode", "derived-from_i64-not-found")
        return
    b = ctx.body(cands[0])
    # structure: chain of  if n == (V as i64) { Some(V) }  ... else None ; read it block-wise (485 paths would be quadratic)
    byval = {}
    names = {int(v["discr"]): v["name"] for v in kc["variants"]}
    blocks = b.blocks
    n_some = 0
    bad = 0
    # find every switch whose discriminant is Eq(n, const c): true target must build Some(KeyCode::<variant with discr c>)
    for i in sorted(b.live_blocks()):
        blk = blocks[i]
        t = blk["term"]
        if t["k"] != "switch":
            continue
        ev = mir.Evaluator(b, None)
        d = ev.operand(t["discr"])
        ec = Walker._eq_const(d)
        c = ec[1] if (ec is not None and ec[0] == T("param", 1, b.dbg.get(1, ""))) else None
        if c is None:
            bad += 1
            continue
        tgt = [bb for v, bb in t["targets"] if int(v) == 0]
        true_t = t["otherwise"]
        # walk the true target until an aggregate Some(...) is assigned
        var = _some_variant_at(b, true_t)
        n_some += 1
        if var is None or names.get(c) != var:
            bad += 1
            ck.ob("C18-T2", b.path, "from_i64(%d)==Some(%s)" % (c, names.get(c)), False, detail="returns %s" % var)
        byval[c] = var
    ok = bad == 0 and set(byval) == set(names)
    ck.ob("C18-T2", b.path, "FromPrimitive-inverts-`as`-for-every-variant", ok,
          detail="%d comparison arms read, %d variants, %d bad" % (n_some, len(names), bad))
    # from_u16 delegates to from_i64/from_u64 of the same impl (num-traits default methods): trusted contract
    return ok


def _cast_of_variant(t, kc):
    # cast(discr(const KeyCode::V)) or constant-folded
    if isinstance(t, tuple) and t and t[0] == "cast":
        inner = t[1]
        if isinstance(inner, tuple) and inner[0] == "discr":
            pl = inner[1]
            if isinstance(pl, tuple) and pl[0] == "const" and isinstance(pl[1], tuple) and pl[1][0] == "val":
                disp = pl[1][1]
                nm = disp.rsplit("::", 1)[-1]
                for v in kc["variants"]:
                    if v["name"] == nm:
                        return int(v["discr"])
            if isinstance(pl, tuple) and pl[0] == "agg" and pl[1] == "key_codes::KeyCode":
                for v in kc["variants"]:
                    if v["name"] == pl[2]:
                        return int(v["discr"])
    return None


def _some_variant_at(b, n):
    seen = set()
    while n not in seen:
        seen.add(n)
        blk = b.blocks[n]
        for st in blk["stmts"]:
            if st["k"] == "assign" and st["rv"]["k"] == "agg" and st["rv"].get("vname") == "Some":
                o = st["rv"]["ops"][0]
                ev = mir.Evaluator(b, None)
                tt = ev.operand(o)
                if isinstance(tt, tuple) and tt[0] == "agg" and tt[1] == "key_codes::KeyCode":
                    return tt[2]
                if isinstance(tt, tuple) and tt[0] == "const" and isinstance(tt[1], tuple) and tt[1][0] == "val":
                    return tt[1][1].rsplit("::", 1)[-1]
                return None
        t = blk["term"]
        if t["k"] == "goto":
            n = t["t"]
        else:
            return None
    return None
