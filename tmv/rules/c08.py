"""C08 — an absorbed modifier applies to one keystroke only."""
from .. import mir, kt, ktx, ktloops
from ..kt import MOD, list_of, ABBR
from ..mir import T, show, method_name, const_int

LEVEL = "other"
META = {
    "technique": "provenance of the `absorbed` argument of is_supported per branch (decision table of should_absorb), twin agreement of the two should_absorb computations, who-may-write rules for mapped_absorbed_keys/absorbing_trigger, drain-and-release shape of release_absorbed_keys",
    "level_text": ("Structural proof of the mechanism: a pressed key is forgotten from mapped_absorbed_keys before any lookup; the "
                   "lookup hides exactly mapped_absorbed_keys from is_supported unless the pressed key is the stored absorbing "
                   "trigger (table: should_absorb = no trigger stored or trigger != pressed key), and is_supported's table has the "
                   "conjunct 'not absorbed'; add_new_mapping computes the same predicate and releases the absorbed keys iff it "
                   "holds, for key-producing mappings; absorbed keys and the trigger are written only when a mapping with a "
                   "non-empty absorbing list fires (trigger := the pressed key); release_absorbed_keys drains the list, clears the "
                   "trigger and runs the complete key-goes-up sequence for each drained key."),
    "level_note": ("Trusted: rustc MIR, tmfacts, walker. Not decided: 'pressing the same trigger key again fires the same mapping again' "
                   "needs that nothing else changed in between (history); only the table rows that make it possible are decided."),
}

NP = MOD + "newly_press"
ANM = MOD + "add_new_mapping"
RAK = MOD + "release_absorbed_keys"


def should_absorb_row(guards, state_AT_pred, key):
    """what the guards say about Q := `absorbing_trigger == Some(pressed key)`  ->  {"Q": bool} or {} when undecided.
    Read from a match on the Option (None -> Q false; Some(t) -> Q = (t == key)) or from `!=` / `==` against Some(key)."""
    trig = None
    tik = None
    q = None
    for a, v in guards:
        if isinstance(a, tuple) and a[0] == "variantof" and state_AT_pred(a[1]):
            trig = v if isinstance(v, str) else ("None" if v == ("other", ("Some",)) else str(v))
        elif isinstance(a, tuple) and a[0] == "eq":
            sides = [mir.strip(a[1]), mir.strip(a[2])]
            pay = [s for s in sides if isinstance(s, tuple) and s[0] == "field" and isinstance(s[1], tuple) and s[1][0] == "variant" and s[1][2] == "Some" and state_AT_pred(s[1][1])]
            oth = [s for s in sides if s == key]
            if len(pay) == 1 and len(oth) == 1:
                tik = v
            whole = [s for s in sides if state_AT_pred(s)]
            some = [s for s in sides if isinstance(s, tuple) and len(s) > 3 and s[0] == "agg" and s[2] == "Some" and s[3] and mir.strip(s[3][0]) == key]
            if len(whole) == 1 and len(some) == 1 and isinstance(v, bool):
                q = v
    if q is None:
        if trig == "None":
            q = False
        elif trig == "Some" and tik is not None:
            q = tik
    return {} if q is None else {"Q": q}


def expected_should_absorb(row):
    if "Q" in row:
        return not row["Q"]
    return None


def is_AT(t):
    return list_of(t) == "AT"


def absorbed_copy_is_fresh(ctx):
    """on every return path of newly_press, every copy of mapped_absorbed_keys is taken AFTER the pressed key was
    forgotten from it (so the pressed key is never in the list is_supported is handed).  Used by C03-T1 to accept
    the table !absorbed & (held | is_new); not an obligation of C08 itself -- with the specified table a stale copy
    is harmless, because the pressed key's own absorbed status is never looked at."""
    K = kt.KT(ctx)
    np_ = ctx.body(NP)
    k = T("param", 2, np_.dbg.get(2, ""))
    seen = False
    for fx in K.path_fx(np_):
        if fx.tag != "fn" or fx.path.outcome[0] != "return":
            continue
        forget = [e.pos for e in fx.effects if e.kind == "RETAIN" and e.lst == "AB" and ktx.Analysis._retain_removes_key(e) == k]
        copies = [i for i, e in enumerate(fx.path.events) if e.kind == "call" and method_name(e.a) in ("clone", "to_vec", "to_owned")
                  and e.b and list_of(e.b[0]) == "AB"]
        if copies:
            seen = True
            if not forget or min(copies) < forget[0]:
                return False
    return seen


def run(ctx):
    ck = ctx.check
    K = kt.KT(ctx)
    ck.rule_text = "one obligation per row of the two should_absorb tables, per write site of mapped_absorbed_keys/absorbing_trigger, per structural fact of release_absorbed_keys"
    ck.trusted_base = ["rustc front end + MIR builder", "tmfacts exporter", "tmv path walker"]
    np_ = ctx.body(NP)
    k = T("param", 2, np_.dbg.get(2, ""))
    # ---------------- R1 forget on press
    n = 0
    for fx in K.path_fx(np_):
        if fx.tag != "fn" or fx.path.outcome[0] != "return":
            continue
        n += 1
        forget = ktloops.forget_from_ab(K, np_, fx, k)
        look = [i for i, e in enumerate(fx.path.events) if e.kind == "call" and method_name(e.a) == "get" and "HashMap" in e.a]
        ck.ob("C08-R1", NP, "pressed-key-forgotten-from-mapped_absorbed_keys-before-any-lookup", len(forget) == 1 and (not look or forget[0] < look[0]))
    ck.floor("C08-R1", "newly_press-return-paths", n, 1)
    # ---------------- R2 absorbed argument
    # the local passed as 3rd argument of is_supported
    absorbed_local = None
    for i, name, t in np_.calls():
        if name == MOD + "is_supported":
            gt = np_.gterm_local(t["args"][2]["place"]["l"]) if t["args"][2]["k"] in ("copy", "move") and not t["args"][2]["place"]["p"] else None
            if isinstance(gt, tuple) and gt[0] == "var":
                absorbed_local = gt[1]
            pk = mir.Evaluator(np_, None).operand(t["args"][1])
            ck.ob("C08-R2", NP, "is_supported-is-given-input_pressed_keys-as-the-held-set", list_of(pk) == "IP")
    if absorbed_local is None:
        # is_supported asked from inside a closure (iter().find(|m| is_supported(.., &absorbed_keys, ..))): follow the
        # captured reference back to the local of newly_press
        for cp in sorted(ctx.F.bodies):
            if not cp.startswith(NP + "::{closure"):
                continue
            cb = ctx.body(cp)
            for i, name, t in cb.calls():
                if name != MOD + "is_supported":
                    continue
                pk = mir.Evaluator(cb, None).operand(t["args"][1])
                a2 = t["args"][2]
                idx = None
                if a2["k"] in ("copy", "move"):
                    src = a2["place"]
                    # the argument is a temp holding (a reborrow of) field idx of the closure environment
                    tterm = cb.gterm_local(src["l"]) if not src["p"] else None
                    for s_ in (mir.subterms(tterm) if isinstance(tterm, tuple) else []):
                        if isinstance(s_, tuple) and len(s_) == 3 and s_[0] == "field" and s_[1] == T("param", 1, cb.dbg.get(1, "")):
                            idx = s_[2]
                for blk in (np_.blocks.values() if isinstance(np_.blocks, dict) else np_.blocks):
                    for st in blk["stmts"]:
                        if st["k"] == "assign" and st["rv"]["k"] == "agg" and st["rv"].get("agg") == "closure" and st["rv"].get("def") == cp and idx is not None:
                            names = cb.upvar_names if hasattr(cb, "upvar_names") else {}
                            pos = None
                            if str(idx).isdigit():
                                pos = int(idx)
                            else:
                                for kk, nm in names.items():
                                    if nm == idx:
                                        pos = kk
                            if pos is not None and pos < len(st["rv"]["ops"]):
                                o = st["rv"]["ops"][pos]
                                if o["k"] in ("copy", "move") and not o["place"]["p"]:
                                    gt = np_.gterm_local(o["place"]["l"])
                                    if isinstance(gt, tuple) and gt[0] == "var":
                                        absorbed_local = gt[1]
                held_ok = False
                for sl in ktloops.selections(ctx, np_, ANM, 2):
                    for a_, v_ in sl.pred:
                        if isinstance(a_, tuple) and a_[0] == "call" and a_[1] == MOD + "is_supported" and list_of(a_[2][1]) == "IP":
                            held_ok = True
                ck.ob("C08-R2", NP, "is_supported-is-given-input_pressed_keys-as-the-held-set", held_ok)
    rows_np = {}
    by_selection = []
    if absorbed_local is None:
        # the list is built inside a closure (`mappings.get(&k).and_then(|ms| { ..; ms.iter().rev().find(..) })`): the
        # walker has spliced that closure into newly_press's paths, so each find()-selection carries the value that is
        # handed to is_supported on its path together with the guards that led there
        for sl in ktloops.selections(ctx, np_, ANM, 2):
            if sl.form != "find" or sl.problems:
                continue
            for a_, v_ in sl.pred:
                if isinstance(a_, tuple) and a_[0] == "call" and a_[1] == MOD + "is_supported" and v_ is True and len(a_[2]) > 2:
                    for cx in sl.contexts:
                        by_selection.append((a_[2][2], cx))
    ck.ob("C08-R2", NP, "absorbed-argument-is-a-branch-assigned-local", absorbed_local is not None or bool(by_selection))
    for val, guards in by_selection:
        row = should_absorb_row(guards, is_AT, k)
        want = expected_should_absorb(row)
        if (isinstance(val, tuple) and val[0] == "clone" and list_of(val[1]) == "AB") or list_of(val) == "AB":
            # (a copy of the list, or a shared borrow of the live list: the borrow checker admits no write while it is read)
            got = True
        elif (isinstance(val, tuple) and val[0] == "call" and method_name(val[1]) == "new" and not val[2]) or mir.strip(val) == T("array", ()):
            got = False
        else:
            got = None
        key = tuple(sorted(row.items()))
        if key in rows_np and rows_np[key] != got:
            got = None
        rows_np[key] = got
        ck.ob("C08-R2", NP, "absorbed-list=%s" % ",".join("%s=%s" % kv for kv in key), want is not None and got == want,
              detail="hides mapped_absorbed_keys: %s; specification (no trigger or trigger != pressed key): %s" % (got, want))
    if by_selection:
        ck.ob("C08-R2", NP, "both-rows(trigger-is/is-not-the-pressed-key)", len(rows_np) == 2, detail=str(rows_np))
    if absorbed_local is not None:
        for p in mir.walk_function(np_):
            sets = [e for e in p.events if e.kind == "set" and e.a == absorbed_local]
            if not sets:
                continue
            val = sets[-1].b
            row = should_absorb_row([(e.a, e.b) for e in p.events[:p.events.index(sets[-1])] if e.kind == "guard"], is_AT, k)
            want = expected_should_absorb(row)
            if (isinstance(val, tuple) and val[0] == "clone" and list_of(val[1]) == "AB") or list_of(val) == "AB":
            # (a copy of the list, or a shared borrow of the live list: the borrow checker admits no write while it is read)
                got = True
            elif (isinstance(val, tuple) and val[0] == "call" and method_name(val[1]) == "new" and not val[2]) or mir.strip(val) == T("array", ()):
                got = False
            else:
                got = None
            key = tuple(sorted(row.items()))
            rows_np[key] = got
            ck.ob("C08-R2", NP, "absorbed-list=%s" % ",".join("%s=%s" % kv for kv in key), want is not None and got == want,
                  detail="hides mapped_absorbed_keys: %s; specification (no trigger or trigger != pressed key): %s" % (got, want))
        ck.ob("C08-R2", NP, "both-rows(trigger-is/is-not-the-pressed-key)", len(rows_np) == 2, detail=str(rows_np))
    # ---------------- R3 twin in add_new_mapping
    anm = ctx.body(ANM)
    nk = T("param", 2, anm.dbg.get(2, ""))
    m = T("param", 3, anm.dbg.get(3, ""))
    rows_anm = {}
    for fx in K.path_fx(anm):
        if fx.tag != "fn" or fx.path.outcome[0] != "return":
            continue
        am = [v for a, v in fx.all_guards() if isinstance(a, tuple) and a[0] == "call" and a[1] == MOD + "is_action_mapping"]
        calls = [e for e in fx.effects if e.kind == "CALL" and e.key == RAK]
        if am == [False]:
            ck.ob("C08-R3", ANM, "modifier-remapping-does-not-release-absorbed-keys", not calls)
            continue
        lp = [i for i, e in enumerate(fx.path.events) if e.kind == "loop"]
        pre = fx.path.events[:lp[0]] if lp else fx.path.events
        row = should_absorb_row([(e.a, e.b) for e in pre if e.kind == "guard"], is_AT, nk)
        want = expected_should_absorb(row)
        key = tuple(sorted(row.items()))
        rows_anm[key] = bool(calls)
        ck.ob("C08-R3", ANM, "release_absorbed_keys-called-iff-should_absorb:%s" % ",".join("%s=%s" % kv for kv in key), want is not None and bool(calls) == want,
              detail="called: %s; specification: %s" % (bool(calls), want))
    ck.ob("C08-R3", "-", "the-two-should_absorb-computations-agree", rows_np == rows_anm and len(rows_anm) == 2, detail="newly_press %s / add_new_mapping %s" % (rows_np, rows_anm))
    # ---------------- R4 who may write AB / AT
    ab_w = {}
    at_w = {}
    for b in K.fn_bodies:
        for fx in K.path_fx(b):
            for e in fx.effects:
                if e.lst == "AB" and e.kind not in ("CALL",):
                    ab_w.setdefault(b.path, set()).add(e.kind)
                    if e.kind == "ADD":
                        key = mir.strip(e.key)
                        src_ok = isinstance(key, tuple) and key[0] == "elem" and key[1] == T("iter", T("field", m, "absorbing"), "fwd") and b.path == ANM
                        ck.ob("C08-R4", b.path, "mapped_absorbed_keys-gains-only-elements-of-the-firing-mapping's-absorbing-list", src_ok, site=e.ev.span)
                if e.kind == "APPEND" and list_of(e.key) == "AB":
                    ab_w.setdefault(b.path, set()).add("DRAIN")
                if e.kind == "STORE" and e.lst == "AT":
                    at_w.setdefault(b.path, set()).add(show(e.key)[:40])
                    if b.path == ANM:
                        val = e.key
                        vok = isinstance(val, tuple) and val[0] == "agg" and val[2] == "Some" and mir.strip(val[3][0]) == nk
                        g = fx.guards_before(e)
                        nonempty = any((a == T("empty", T("field", m, "absorbing")) and v is False) or
                                       (isinstance(a, tuple) and a[0] == "binop" and a[1] == "Gt" and a[2] == T("len", T("field", m, "absorbing")) and v is True) for a, v in g)
                        ck.ob("C08-R4", ANM, "absorbing_trigger:=pressed-key-iff-the-mapping-absorbs-something", vok and nonempty, site=e.ev.span)
    writers = {kk: sorted("DRAIN" if x == "OTHERMUT:take" else x for x in v) for kk, v in ab_w.items()}
    # two forms each for the producer and for the forgetting consumer, but not the loose form of both at once:
    #   ADD under `!contains` (duplicate-free list) goes with RETAIN or with remove-the-first-match (DEL, recognised by
    #   ktloops.forget_from_ab on every return path -- C08-R1); APPEND of the mapping's whole absorbing list (duplicates
    #   possible) only with RETAIN, which drops every copy
    whole = [e for b in K.fn_bodies for fx in K.path_fx(b) for e in fx.effects if e.lst == "AB" and e.kind == "APPEND"]
    whole_ok = all(mir.strip(e.key) == T("field", m, "absorbing") for e in whole)
    if writers.get(ANM) == ["APPEND"] and whole_ok and writers.get(NP) == ["RETAIN"]:
        writers[ANM] = ["ADD"]
    if writers.get(NP) == ["DEL"] and writers.get(ANM) == ["ADD"] and ktloops.ab_duplicate_free(K):
        writers[NP] = ["RETAIN"]
    ck.ob("C08-R4", "-", "mapped_absorbed_keys-writers", writers == {ANM: ["ADD"], NP: ["RETAIN"], RAK: ["DRAIN"]},
          detail=str({kk[len(MOD):]: sorted(v) for kk, v in ab_w.items()}))
    ck.ob("C08-R4", "-", "absorbing_trigger-writers", set(at_w) == {ANM, RAK}, detail=str({kk[len(MOD):]: sorted(v) for kk, v in at_w.items()}))
    # every firing of an absorbing mapping (re)writes the trigger, whatever it held before
    for fx in K.path_fx(anm):
        if fx.tag != "fn" or fx.path.outcome[0] != "return":
            continue
        emp = [v for a, v in fx.all_guards() if a == T("empty", T("field", m, "absorbing"))]
        gt = [v for a, v in fx.all_guards() if isinstance(a, tuple) and a[0] == "binop" and a[1] == "Gt" and a[2] == T("len", T("field", m, "absorbing"))]
        nonempty = emp == [False] or gt == [True]
        if nonempty:
            st = [e for e in fx.effects if e.kind == "STORE" and e.lst == "AT" and isinstance(e.key, tuple) and e.key[0] == "agg" and e.key[2] == "Some" and mir.strip(e.key[3][0]) == nk]
            ck.ob("C08-R4", ANM, "an-absorbing-mapping-sets-the-trigger-to-the-pressed-key-on-every-path(unconditionally)", len(st) >= 1,
                  detail=None if st else "a return path on which the mapping's absorbing list is non-empty does not store Some(pressed key) into absorbing_trigger")
    # paths of add_new_mapping with an empty absorbing list leave the trigger alone
    for fx in K.path_fx(anm):
        if fx.tag != "fn" or fx.path.outcome[0] != "return":
            continue
        emp = [v for a, v in fx.all_guards() if a == T("empty", T("field", m, "absorbing"))]
        st = [e for e in fx.effects if e.kind == "STORE" and e.lst == "AT"]
        if emp == [True]:
            ck.ob("C08-R4", ANM, "non-absorbing-mapping-does-not-set-the-trigger", not st)
    # ---------------- R5 release_absorbed_keys
    rb = ctx.body(RAK)
    fnp = [fx for fx in K.path_fx(rb) if fx.tag == "fn" and fx.path.outcome[0] == "return"]
    okd = bool(fnp)
    drained = None
    for fx in fnp:
        dr = [e for e in fx.effects if e.kind == "APPEND" and list_of(e.key) == "AB" and isinstance(e.lst, tuple)]
        tk = [e for e in fx.effects if e.kind == "OTHERMUT:take" and e.lst == "AB"]    # std::mem::take(&mut mapped_absorbed_keys)
        cl = [e for e in fx.effects if e.kind == "STORE" and e.lst == "AT" and isinstance(e.key, tuple) and e.key[0] == "agg" and e.key[2] == "None"]
        okd = okd and len(dr) + len(tk) == 1 and len(cl) == 1
        if dr:
            drained = dr[0].lst
        elif tk:
            drained = ("taken", tk[0].ev.c)
    ck.ob("C08-R5", RAK, "drains-mapped_absorbed_keys-and-clears-the-trigger-on-every-path", okd)
    per_key = 0
    for h in sorted(rb.loops()):
        il = ktloops.index_loop(rb, h)
        if il.kind == "for-elements" and (list_of(il.list_term) == drained or (isinstance(drained, tuple) and drained[0] == "taken" and mir.strip(il.list_term) == drained[1])):
            ok = il.complete and not il.break_paths
            ck.ob("C08-R5", RAK, "every-drained-key-is-processed", ok)
            x = il.elem
            for p in il.cont_paths:
                fx = K._one(rb, p, "x", None)
                inner = [e.a for e in p.events if e.kind == "loop"]
                am = pt = False
                for hh in inner:
                    xa, pa = ktloops.am_sweep(K, rb, hh)
                    am = am or (xa == x and not pa)
                    xp, pp = ktloops.pt_sweep(K, rb, hh)
                    pt = pt or (xp == x and not pp)
                pt = pt or ktloops.pt_search(K, fx, x) is not None
                rm = [e for e in fx.effects if e.kind == "RETAIN" and e.lst == "IP" and ktx.Analysis._retain_removes_key(e) == x]
                per_key += 1
                ck.ob("C08-R5", RAK, "per-key:mappings-needing-it-removed,lifted-from-pass_through,forgotten-as-input", am and pt and len(rm) == 1,
                      detail="mapping sweep %s, pass_through sweep %s, input removal %d" % (am, pt, len(rm)))
    ck.ob("C08-R5", RAK, "per-key-body-found", per_key >= 1)
    ck.explanation = "should_absorb tables: newly_press %s, add_new_mapping %s" % (rows_np, rows_anm)
