"""C14 — any layout file is either rejected with a message or runs without crashing."""
import json
import os

from .. import mir, panics, kt, ktloops, hirq
from ..facts import VERIF
from ..mir import T, show, method_name, const_int, Walker, subterms

LEVEL = "other"
META = {
    "technique": "panic-site ledger (P9): every MIR Assert and every call of a may-panic library function in the loader+mapper call cone is auto-discharged by a dominating-guard rule or listed in a reviewed ledger; constructor-vs-loader agreement on the pairwise-distinct-keys requirement; non-empty-trigger rule",
    "level_text": ("Inventory proof over the call cone of load_layout_from_file, Mapper::for_layout, Mapper::step and "
                   "Mapper::release_all: each of the bounds checks, overflow checks, unwraps, index/remove calls and explicit "
                   "panics on every walked path is discharged by a guard that dominates it on that path (key present by "
                   "has_*_keys, index is the induction variable of 0..len of the same vector, len-1 under a non-empty test, "
                   "fresh-allocation pointer checks, ...) or appears in /verif/ledgers/panic_sites.json with a reviewed reason; "
                   "the mapper constructor's 'panic on a repeated key' is matched by a converter validation that returns Err for "
                   "the same condition on every produced mapping before Ok(Layout) is returned; `from` is never empty."),
    "level_note": ("Trusted: serde_json on arbitrary bytes (recursion limit returns Err), allocation failure, stack depth, std library "
                   "internals, the ledger reasons (reviewed by hand, listed with the evidence). rustc MIR, tmfacts, walker."),
}

# --- additions to the level description (rules added after the first version)
META['level_text'] += ' An index that is the induction variable of 0..len(v) is only accepted when v cannot shrink under it (no removal in the loop body or its callees for a forward loop; at most one per iteration when counting down); an index found by position()/rposition() on the same unmodified vector is in range.'
META["technique"] += '; vector-shrink summary (per-iteration removal count through callees) for induction-variable indices'
# --- end additions

ROOTS = ["layout_loading::load_layout_from_file", "key_transforms::Mapper::for_layout", "key_transforms::Mapper::step", "key_transforms::Mapper::release_all"]
LEDGER = os.path.join(VERIF, "ledgers", "panic_sites.json")
CONVERT = "fancy_layout_interpreting::convert"
MHL = "key_transforms::make_hashed_layout"


def _only_iteration_guards(events):
    for e in events:
        if e.kind == "guard" and not (isinstance(e.a, tuple) and e.a[0] == "variantof" and isinstance(e.a[1], tuple) and e.a[1][0] in ("next", "try")):
            return False
    return True


def _unconditional_nest(body, h):
    """the loop h is entered unconditionally: no data-dependent guard on the enclosing paths that lead to it"""
    levels = [mir.walk_function(body)] + [mir.walk_loop_only(body, hh) for hh in body.loops() if hh != h and h in body.loops()[hh]]
    found = False
    for paths in levels:
        for p in paths:
            for i, e in enumerate(p.events):
                if e.kind == "loop" and e.a == h:
                    found = True
                    # guards before the loop on this path; guards that belong to earlier, already finished checks
                    # (a preceding sibling loop nest) are loop exits, not data guards
                    if not _only_iteration_guards(p.events[:i]):
                        return False
    return found


def dup_helpers(ctx):
    """crate-local helpers that answer "does some key occur twice in this list?":
         keys.iter().enumerate().any(|(i, k)| keys[i+1..].contains(k))            -> 'bool'
         keys.iter().enumerate().find(|(i, k)| keys[i+1..].contains(k))[.map(..)]  -> 'option'
       (some i < j with keys[i] == keys[j]  <=>  some i whose key occurs again in keys[i+1..])"""
    cache = ctx.F.__dict__.setdefault("_dup_helpers", None)
    if cache is not None:
        return cache
    from .. import tables
    out = {}
    for pth in sorted(ctx.F.bodies):
        if "::tests::" in pth or pth.startswith("<") or "::promoted[" in pth:
            continue
        if "{closure" in pth:
            # a local closure used as the helper:  let first_repeated = |keys: &[KeyCode]| keys.iter().enumerate().find(..)
            b = ctx.body(pth)
            if b.argc != 2 or b.loops() or len(b.blocks) > 40:
                continue
            kind = _scan_dup_kind(ctx, b, T("param", 2, b.dbg.get(2, "")))
            if kind:
                out[pth] = kind
            continue
        b = ctx.body(pth)
        if b.argc == 1 and b.loops() and len(b.blocks) <= 80:
            kind = _loop_dup_helper(ctx, b)
            if kind:
                out[pth] = kind
            continue
        if b.argc != 1 or b.loops() or len(b.blocks) > 40:
            continue
        kind = _scan_dup_kind(ctx, b, T("param", 1, b.dbg.get(1, "")))
        if kind:
            out[pth] = kind
    ctx.F._dup_helpers = out
    return out


def _scan_dup_kind(ctx, b, keys):
    rets = [p for p in mir.walk_function(b) if p.outcome[0] == "return"]
    if len(rets) != 1:
        return None
    got = _dup_scan_expr(ctx, rets[0].outcome[1])
    if got is None or got[1] != keys:
        return None
    return got[0]


def _dup_scan_expr(ctx, r):
    """r = keys.iter().enumerate().any|find|position(|(i, k)| keys[i+1..].contains(k)) [.map(..)]
    -> ('bool'|'option', keys term), else None"""
    from .. import tables
    kind = "bool"
    if isinstance(r, tuple) and r and r[0] == "call" and method_name(r[1]) == "map" and len(r[2]) == 2:
        r = r[2][0]
        kind = "option"
    if not (isinstance(r, tuple) and r and r[0] == "call" and method_name(r[1]) in ("any", "find", "position")):
        return None
    if method_name(r[1]) in ("find", "position"):
        kind = "option"
    try:
        sc = tables.closure_scan(ctx.body, r)
    except Exception:
        return None
    it = sc.iter_term
    if sc.problems or not sc.enum or not (isinstance(it, tuple) and it[0] == "iter" and it[2] == "fwd") or len(sc.set_paths) != 1 or len(sc.set_paths[0]) != 1:
        return None
    keys = it[1]
    a, v = sc.set_paths[0][0]
    want_slice = T("index", keys, T("agg", "std::ops::RangeFrom", "RangeFrom", (T("binop", "Add", T("enumidx", sc.iter_term), T("const", T("int", 1, "usize"))),), ("start",)))
    if v is True and isinstance(a, tuple) and a[0] == "in" and mir.strip(a[1]) == T("elem", sc.iter_term, None) and _same_slice(a[2], want_slice):
        return kind, keys
    return None


def _loop_dup_helper(ctx, b):
    """fn(keys) written with the two index loops themselves:
         for i in 0..keys.len() { for j in i+1..keys.len() { if keys[i] == keys[j] { return true | Some(..) } } }  false | None"""
    keys = T("param", 1, b.dbg.get(1, ""))
    hits = set()
    for h in sorted(b.loops()):
        if any(hh != h and hh in b.loops()[h] for hh in b.loops()):
            continue
        if not _unconditional_nest(b, h) or not all(_unconditional_nest(b, hh) for hh in b.loops() if hh != h and h in b.loops()[hh]):
            return None
        for p in mir.walk_loop_body(b, h):
            data = [e for e in p.events if e.kind == "guard" and not (isinstance(e.a, tuple) and e.a[0] == "variantof")]
            if p.outcome[0] == "return":
                if len(data) != 1 or data[0].b is not True or not (isinstance(data[0].a, tuple) and data[0].a[0] == "eq"):
                    return None
                a = data[0].a
                s1, s2 = mir.strip(a[1]), mir.strip(a[2])
                if not (isinstance(s1, tuple) and isinstance(s2, tuple) and s1[0] == "index" and s2[0] == "index" and mir.strip(s1[1]) == keys and mir.strip(s2[1]) == keys):
                    return None
                rng = []
                for ix in (s1[2], s2[2]):
                    if isinstance(ix, tuple) and ix[0] == "elem" and isinstance(ix[1], tuple) and ix[1][0] == "iter":
                        r = ix[1][1]
                        if isinstance(r, tuple) and r[0] == "agg" and r[1] == "std::ops::Range" and mir.strip(r[3][1]) in (T("len", keys), T("len", s1[1])):
                            rng.append((ix, r[3][0]))
                if len(rng) != 2:
                    return None
                (xa, la), (xb, lb) = rng
                one = T("const", T("int", 1, "usize"))
                if not ((const_int(la) == 0 and lb == T("binop", "Add", xa, one)) or (const_int(lb) == 0 and la == T("binop", "Add", xb, one))):
                    return None
                r = p.outcome[1]
                if const_int(r) == 1:
                    hits.add("bool")
                elif isinstance(r, tuple) and r and r[0] == "agg" and r[2] == "Some":
                    hits.add("option")
                else:
                    return None
            elif p.outcome[0] not in ("backedge", "unreachable", "infeasible") and not (isinstance(p.outcome, tuple) and p.outcome[0] in ("exit", "break", "stop")):
                pass
    if len(hits) != 1:
        return None
    kind = list(hits)[0]
    # every way out of the loops other than a hit answers "no duplicate"
    # (a path that runs through a summarised inner loop may be that loop's hit: it is judged where the loop is walked)
    levels = [mir.walk_function(b)] + [mir.walk_loop_body(b, h) for h in sorted(b.loops())]
    n_no = 0
    for paths in levels:
        for p in paths:
            if p.outcome[0] != "return" or any(e.kind == "loop" for e in p.events):
                continue
            if [e for e in p.events if e.kind == "guard" and isinstance(e.a, tuple) and e.a[0] == "eq" and e.b is True]:
                continue
            r = p.outcome[1]
            no = (const_int(r) == 0) if kind == "bool" else (isinstance(r, tuple) and r and r[0] == "agg" and r[2] == "None")
            if not no:
                return None
            n_no += 1
    return kind if n_no else None


def _same_slice(t, want):
    t = mir.strip(t)
    if t == want:
        return True
    # the aggregate's field-name tuple may be spelled differently: compare the parts that matter
    try:
        return t[0] == "index" and t[1] == want[1] and t[2][0] == "agg" and t[2][1] == "std::ops::RangeFrom" and t[2][3][0] == want[2][3][0]
    except Exception:
        return False


def _helper_checks(ctx, body, subject_pred, strict):
    """`if has_duplicate(X.F) { FAIL }` / `if let Some(k) = first_repeated(X.F) { FAIL }`"""
    helpers = dup_helpers(ctx)
    out = []
    levels = [mir.walk_function(body)] + [mir.walk_loop_body(body, h) for h in sorted(body.loops())]
    seen = set()
    for paths in levels:
        for p in paths:
            for i, e in enumerate(p.events):
                if e.kind != "guard" or not isinstance(e.a, tuple):
                    continue
                c = e.a[1] if e.a[0] == "variantof" else e.a
                inline = None
                if isinstance(c, tuple) and c and c[0] == "call" and c[1] not in helpers and method_name(c[1]) in ("any", "find", "position", "map"):
                    inline = _dup_scan_expr(ctx, c)     # the scan written in place
                seen_set = None
                if isinstance(c, tuple) and c and c[0] == "call" and method_name(c[1]) == "all" and e.a[0] != "variantof":
                    seen_set = _all_inserted_fresh(ctx, c, p.events[:i])    # keys.iter().all(|k| seen.insert(*k)) with a fresh set
                if seen_set is not None:
                    if e.b is not False:
                        continue
                    for vec in [mir.strip(seen_set)]:
                        _one_helper_check(vec, subject_pred, strict, p, i, helpers, seen, out)
                    continue
                if inline is not None:
                    arg0 = inline[1]
                elif not (isinstance(c, tuple) and c and c[0] == "call" and c[1] in helpers):
                    continue
                elif "{closure" in c[1]:
                    # calling a closure: (environment, (keys,))
                    if not (len(c[2]) == 2 and isinstance(c[2][1], tuple) and c[2][1][0] == "tuple" and len(c[2][1][1]) == 1):
                        continue
                    arg0 = c[2][1][1][0]
                elif len(c[2]) == 1:
                    arg0 = c[2][0]
                else:
                    continue
                hit = (e.b == "Some") if e.a[0] == "variantof" else (e.b is True)
                if not hit:
                    continue
                vec = mir.strip(arg0)
                while isinstance(vec, tuple) and vec and vec[0] in ("call",) and method_name(vec[1]) in ("deref", "as_slice", "as_ref"):
                    vec = mir.strip(vec[2][0])
                # `for (name, keys) in [("from", &m.from), ("to", &m.to)] { if let Some(k) = helper(keys) { FAIL } }`:
                # the element of a literal array stands for each of its members in turn (the `for` visits them all:
                # the only ways out of the body are this failure and the next element)
                vecs = [vec]
                if isinstance(vec, tuple) and vec[0] == "field" and isinstance(vec[1], tuple) and vec[1] and vec[1][0] == "elem" \
                        and isinstance(vec[1][1], tuple) and vec[1][1][0] == "iter" and vec[1][1][2] == "fwd" \
                        and isinstance(vec[1][1][1], tuple) and vec[1][1][1][0] == "array" and str(vec[2]).isdigit():
                    members = vec[1][1][1][1]
                    if all(isinstance(m_, tuple) and m_[0] == "tuple" and int(vec[2]) < len(m_[1]) for m_ in members) and _array_loop_is_total(body, vec[1][1], helpers):
                        vecs = [mir.strip(m_[1][int(vec[2])]) for m_ in members]
                for vec in vecs:
                    _one_helper_check(vec, subject_pred, strict, p, i, helpers, seen, out)
    return out


def _all_inserted_fresh(ctx, c, before):
    """c = keys.iter().all(|k| set.insert(*k)) where `set` is an empty hash set nothing has been inserted into yet:
    false exactly when some key occurs twice  ->  keys term, else None"""
    if len(c[2]) != 2:
        return None
    it, clos = c[2]
    if not (isinstance(it, tuple) and it[0] == "iter" and it[2] == "fwd" and isinstance(clos, tuple) and clos[0] == "closure"):
        return None
    elem = T("allelem", it)
    try:
        cps, cb = mir.walk_closure(ctx.body, clos, param_terms=[elem])
    except Exception:
        return None
    rets = [q for q in cps if q.outcome[0] not in ("unreachable", "infeasible")]
    if len(rets) != 1 or rets[0].outcome[0] != "return" or [e for e in rets[0].events if e.kind in ("guard", "store")]:
        return None
    r = rets[0].outcome[1]
    if not (isinstance(r, tuple) and r[0] == "call" and method_name(r[1]) == "insert" and ("HashSet" in r[1] or "BTreeSet" in r[1]) and len(r[2]) == 2 and mir.strip(r[2][1]) == elem):
        return None
    st = mir.strip(r[2][0])
    fresh = isinstance(st, tuple) and st[0] == "call" and method_name(st[1]) in ("new", "with_capacity", "default") and ("HashSet" in st[1] or "BTreeSet" in st[1])
    if not fresh:
        return None
    # nothing was put into that set before the scan
    for ev in before:
        if ev.kind == "call" and ev.d and any(mir.strip(x) == st for x in ev.d) and ev.c != st and ev.c != c:
            return None
    return it[1]


def _array_loop_is_total(body, it, helpers):
    """every path of the loop over `it` either goes on to the next element or leaves the function (no break)"""
    for h in sorted(body.loops()):
        paths = mir.walk_loop_body(body, h)
        mine = [p for p in paths if any(e.kind == "guard" and isinstance(e.a, tuple) and e.a[0] == "variantof" and isinstance(e.a[1], tuple) and e.a[1][0] == "next" and e.a[1][1] == it for e in p.events[:2])]
        if not mine:
            continue
        for p in mine:
            first = [e for e in p.events if e.kind == "guard"][0]
            if first.b == "None":
                continue           # exhaustion
            if p.outcome[0] in ("backedge", "return", "diverge"):
                continue
            return False
        return True
    return False


def _one_helper_check(vec, subject_pred, strict, p, i, helpers, seen, out):
    if True:
        if True:
            if True:
                if not (isinstance(vec, tuple) and vec[0] == "field" and subject_pred(vec[1])):
                    return
                if strict:
                    def is_scan(t):
                        return isinstance(t, tuple) and t and t[0] == "call" and (t[1] in helpers or method_name(t[1]) in ("any", "find", "position", "map"))
                    data = [g for g in p.events[:i] if g.kind == "guard" and isinstance(g.a, tuple) and not (g.a[0] == "variantof" and isinstance(g.a[1], tuple) and g.a[1][0] == "next")
                            and not (isinstance(g.a, tuple) and ((g.a[0] == "variantof" and is_scan(g.a[1])) or is_scan(g.a)))
                            and not (g.a[0] == "variantof" and isinstance(g.a[1], tuple) and g.a[1][0] == "try")]
                    if data:
                        return
                rest = p.events[i + 1:]
                if [g for g in rest if g.kind == "guard" and not (isinstance(g.a, tuple) and g.a[0] == "variantof" and isinstance(g.a[1], tuple) and g.a[1][0] in ("try",))]:
                    return    # the failure is not the immediate consequence
                if p.outcome[0] == "diverge":
                    key = (vec[2], "panic")
                    if key not in seen:
                        seen.add(key)
                        out.append((vec[2], "panic", p.outcome[1]))
                elif p.outcome[0] == "return" and _is_err_value(p.outcome[1]):
                    key = (vec[2], "err")
                    if key not in seen:
                        seen.add(key)
                        out.append((vec[2], "err", None))


def _is_err_value(r):
    """Err(..) built on this path, or handed on by `?`"""
    if isinstance(r, tuple) and r and r[0] == "from_residual" and isinstance(r[1], tuple) and r[1] and r[1][0] == "residual":
        r = r[1][1]
    return isinstance(r, tuple) and len(r) > 2 and r[0] == "agg" and r[2] == "Err"


def pairwise_checks(ctx, body, subject_pred, strict=False):
    return _loop_pairwise_checks(ctx, body, subject_pred, strict) + _helper_checks(ctx, body, subject_pred, strict)


def _loop_pairwise_checks(ctx, body, subject_pred, strict=False):
    """finds `for i in 0..X.F.len() { for j in i+1..X.F.len() { if X.F[i] == X.F[j] { FAIL } } }`.
    -> list of (field F, failure kind 'panic'|'err', block of the failing event)"""
    out = []
    for h in sorted(body.loops()):
        # innermost loops only
        if any(hh != h and hh in body.loops()[h] for hh in body.loops()):
            continue
        for p in mir.walk_loop_body(body, h):
            eqs = [(e.a, e.b) for e in p.events if e.kind == "guard" and isinstance(e.a, tuple) and e.a[0] == "eq" and e.b is True]
            if not eqs:
                continue
            a = eqs[-1][0]
            if strict:
                data = [e for e in p.events if e.kind == "guard" and not (isinstance(e.a, tuple) and e.a[0] == "variantof")]
                if len(data) != 1 or not _unconditional_nest(body, h):
                    continue
                outer = [hh for hh in body.loops() if hh != h and h in body.loops()[hh]]
                if not all(_unconditional_nest(body, hh) for hh in outer):
                    continue
            s1, s2 = mir.strip(a[1]), mir.strip(a[2])
            if not (isinstance(s1, tuple) and isinstance(s2, tuple) and s1[0] == "index" and s2[0] == "index" and s1[1] == s2[1]):
                continue
            vec = s1[1]
            if not (isinstance(vec, tuple) and vec[0] == "field" and subject_pred(vec[1])):
                continue
            i1, i2 = s1[2], s2[2]
            rng = []
            for ix in (i1, i2):
                if isinstance(ix, tuple) and ix[0] == "elem" and isinstance(ix[1], tuple) and ix[1][0] == "iter":
                    r = ix[1][1]
                    if isinstance(r, tuple) and r[0] == "agg" and r[1] == "std::ops::Range" and r[3][1] == T("len", vec):
                        rng.append((ix, r[3][0]))
            if len(rng) != 2:
                continue
            # one index starts at 0, the other at (that index)+1
            (xa, la), (xb, lb) = rng
            ok = (const_int(la) == 0 and lb == T("binop", "Add", xa, T("const", T("int", 1, "usize")))) or \
                 (const_int(lb) == 0 and la == T("binop", "Add", xb, T("const", T("int", 1, "usize"))))
            if not ok:
                continue
            if p.outcome[0] == "diverge":
                out.append((vec[2], "panic", p.outcome[1]))
            elif p.outcome[0] == "return" and isinstance(p.outcome[1], tuple) and p.outcome[1][0] == "agg" and p.outcome[1][2] == "Err":
                out.append((vec[2], "err", None))
    return out


def run(ctx):
    # every body of the cone (new helpers included) is inventoried on its own, with its own guards: the walker's
    # automatic splicing of new helpers into their callers is switched off while this rule set runs
    saved = mir.Walker.AUTO_INLINE
    mir.Walker.AUTO_INLINE = False
    try:
        return _run(ctx)
    finally:
        mir.Walker.AUTO_INLINE = saved


def _run(ctx):
    ck = ctx.check
    ck.rule_text = ("instances = every Assert terminator and every may-panic/diverging call on every walked path of every body in the cone; "
                    "one obligation per site key (function|operation|operand signature), plus the R2/R3 structural obligations")
    ck.trusted_base = ["serde_json error behaviour on malformed input", "std library internals", "reviewed ledger reasons", "rustc MIR", "tmfacts", "walker"]
    with open(LEDGER) as fh:
        ledger = {e["key"]: e["reason"] for e in json.load(fh)["entries"]}

    # hand-written Display impls are reached through format!'s dynamic dispatch (error messages of the loader): they
    # are roots of their own.  (derive-generated Debug/Display bodies only forward to the formatter.)
    fmt_roots = []
    for pth in sorted(ctx.F.bodies):
        if pth.startswith("<") and " as std::fmt::Display>::fmt" in pth and "{closure" not in pth and "::tests::" not in pth:
            fmt_roots.append(pth)
    ck.analysed["display_impl_roots"] = len(fmt_roots)
    inv = panics.Inventory(ctx, ROOTS + fmt_roots, skip=lambda p: "::tests::" in p)
    inv.run()
    ck.analysed.update({"cone_bodies": len(inv.cone), "bodies_walked": inv.bodies_walked, "paths": inv.paths, "sites": len(inv.sites),
                        "bodies_scanned_blockwise": inv.skipped_bodies})
    # anchors: the cone must contain the loader chain and the mapper
    for need in ("layout_parsing_formatting::parse_layout_from_json", CONVERT, MHL, "key_transforms::newly_press", "key_transforms::remove_mapping",
                 "char_production_map::_char_access_map", "physical_keyboard_layouts::_us_keyboard_layout"):
        ck.ob("C14-R1", "-", "cone-contains:" + need, need in inv.cone)
    ck.floor("C14-R1", "cone-bodies", len(inv.cone), 100)
    ck.floor("C14-R1", "panic-sites", len(inv.sites), 70)

    # R2 first: the constructor's explicit panics
    mh = ctx.body(MHL)
    cons = pairwise_checks(ctx, mh, lambda t: True)
    cons_fields = {f for f, kind, _ in cons if kind == "panic"}
    ck.ob("C14-R2", MHL, "constructor-panics-recognised-as-pairwise-distinct-checks", cons_fields == {"from", "to"}, detail=str(sorted(cons)))
    validated = loader_validation(ctx, ck)
    ck.ob("C14-R2", CONVERT, "loader-rejects(Err)-every-mapping-the-constructor-would-panic-on", cons_fields <= validated and bool(cons_fields),
          detail="constructor insists on pairwise-distinct %s; converter validates %s before returning Ok" % (sorted(cons_fields), sorted(validated)))

    used = set()
    n_dis = n_led = 0
    by_rule = {}
    for s in sorted(inv.sites.values(), key=lambda s: s.key()):
        key = s.key()
        if not s.undischarged:
            n_dis += 1
            for d in s.discharged_by:
                by_rule[d.split(":")[0]] = by_rule.get(d.split(":")[0], 0) + 1
            ck.ob("C14-R1", s.fn, "site:%s:%s" % (s.op, s.sig[:70]), True, detail="discharged by " + ", ".join(sorted(s.discharged_by)))
            continue
        if s.fn == MHL and s.op == "call:panic:begin_panic" and cons_fields <= validated and cons_fields:
            n_dis += 1
            ck.ob("C14-R1", s.fn, "site:%s:%s" % (s.op, s.sig[:70]), True, detail="discharged by R2 (the loader returns Err for the same condition)")
            continue
        if key in ledger:
            used.add(key)
            n_led += 1
            ck.ob("C14-R1", s.fn, "site:%s:%s" % (s.op, s.sig[:70]), True, detail="ledger: " + ledger[key])
            continue
        ck.ob("C14-R1", s.fn, "site:%s:%s" % (s.op, s.sig[:70]), False, site=s.line,
              detail="may panic: no dominating guard discharges it on %d of %d occurrence(s) and it is not in the reviewed ledger; guards seen: %s" % (s.undischarged, s.occ, s.example))
    stale = sorted(set(ledger) - used)
    if stale:
        ck.note("ledger entries not matched on this tree (harmless): %s" % [k[:80] for k in stale])
    ck.analysed.update({"discharged_sites": n_dis, "ledger_sites": n_led, "discharges_by_rule": by_rule, "ledger_stale": len(stale)})

    # ---------------- R3 non-empty trigger
    pf = ctx.body("layout_parsing_formatting::parse_from")
    rej = False
    for p in mir.walk_function(pf):
        if p.outcome[0] != "return":
            continue
        emp = [v for a, v in p.guards() if isinstance(a, tuple) and a[0] == "empty"]
        if emp == [True]:
            rej = _is_err_value(p.outcome[1])
    ck.ob("C14-R3", pf.path, "empty-`from`-array-is-rejected", rej)
    n_map = 0
    for fn in ("fancy_layout_interpreting::convert_single", "fancy_layout_interpreting::convert_row", "fancy_layout_interpreting::convert_alias",
               "fancy_layout_interpreting::adjust_repeats"):
        b = ctx.body(fn)
        segs = [mir.walk_function(b)] + [mir.walk_loop_only(b, h) for h in sorted(b.loops())]
        for paths in segs:
            for p in paths:
                pushed = set()
                for e in p.events:
                    if e.kind == "call" and method_name(e.a) == "push" and "Vec" in e.a and len(e.b) == 2:
                        pushed.add(mir.strip(e.b[0]))
                    for tt in (e.a, e.b, e.c):
                        if not isinstance(tt, tuple):
                            continue
                        for a in subterms(tt):
                            if isinstance(a, tuple) and len(a) > 4 and a[0] == "agg" and a[1] == "keys::Mapping":
                                frm = mir.strip(a[3][a[4].index("from")])
                                n_map += 1
                                ok = frm in pushed or (isinstance(frm, tuple) and frm[0] == "field" and frm[2] == "keys" and isinstance(frm[1], tuple)
                                                       and frm[1][0] == "field" and frm[1][2] == "from" and fn.endswith("convert_alias"))
                                ck.ob("C14-R3", fn, "every-produced-mapping's-`from`-ends-with-a-pushed-key", ok, detail=None if ok else show(frm)[:80])
    ck.floor("C14-R3", "mapping-construction-sites", n_map, 2)
    sa = ctx.body("layout_parsing_formatting::single_to_alias_from")
    oks = [p for p in mir.walk_loop_body(sa, sorted(sa.loops())[0]) if p.outcome[0] == "return" and isinstance(p.outcome[1], tuple) and p.outcome[1][2] == "Ok"] if sa.loops() else []
    ok = bool(oks) and all(any(e.kind == "call" and method_name(e.a) == "push" for e in p.events) for p in oks)
    ck.ob("C14-R3", sa.path, "alias-trigger-keys-end-with-the-trigger's-own-key", ok)
    ck.explanation = ("cone of %d bodies, %d paths, %d panic sites: %d discharged by guard rules %s, %d in the reviewed ledger."
                      % (len(inv.cone), inv.paths, len(inv.sites), n_dis, by_rule, n_led))


def loader_validation(ctx, ck):
    """fields F for which convert, on every path returning Ok(Layout{mappings: res}), has passed a complete loop over
    res that propagates the Err of a pairwise-distinct check on F"""
    cb = ctx.body(CONVERT)
    fields = None
    n = 0
    for p in mir.walk_function(cb):
        if p.outcome[0] != "return":
            continue
        ret = p.outcome[1]
        if not (isinstance(ret, tuple) and ret[0] == "agg" and ret[2] == "Ok"):
            continue
        lay = ret[3][0]
        if not (isinstance(lay, tuple) and lay[0] == "agg" and lay[1] == "keys::Layout"):
            ck.ob("C14-R2", CONVERT, "Ok-value-is-a-Layout-literal", False)
            return set()
        res = mir.strip(lay[3][lay[4].index("mappings")])
        n += 1
        here = set()
        last_loop_pos = -1
        for i, e in enumerate(p.events):
            if e.kind != "loop":
                continue
            il = ktloops.index_loop(cb, e.a, full=True)
            if il.kind != "for-elements" or mir.strip(il.list_term) != res or not il.exh_paths:
                continue
            # body: V(elem)? with Break -> return
            okbody = True
            vf = set()
            for q in il.cont_paths:
                calls = [x for x in q.events if x.kind == "call" and x.a in ctx.F.bodies and len(x.b) == 1 and mir.strip(x.b[0]) == il.elem]
                tried = [x for x in q.events if x.kind == "guard" and x.b == "Continue"]
                if len(calls) != 1 or not tried:
                    okbody = False
                    continue
                # (the validator is judged as one function: a new helper it delegates a side to is copied into it first)
                mir.Walker.AUTO_INLINE = True
                try:
                    vb = ctx.body(calls[0].a)
                    vb.loops()
                finally:
                    mir.Walker.AUTO_INLINE = False
                # (... and as compiled: a helper that answers "is some key repeated?" for one side is recognised as such)
                for vb_ in (vb, ctx.body(calls[0].a)):
                    for f, kind, _ in pairwise_checks(ctx, vb_, lambda t, vb_=vb_: t == T("param", 1, vb_.dbg.get(1, "")), strict=True):
                        if kind == "err":
                            vf.add(f)
            # the Err leaves convert
            brk = [q for q in il.break_paths if q.outcome[0] == "return" and isinstance(q.outcome[1], tuple) and q.outcome[1][0] == "from_residual"]
            if okbody and brk:
                here |= vf
                last_loop_pos = i
        # the same pass as an expression:  res.iter().try_for_each(check_no_repeated_keys)?  (stops at the first Err, which `?`
        # hands on; reaching the code behind it means every element passed)
        for i, e in enumerate(p.events):
            if e.kind == "call" and method_name(e.a) == "try_for_each" and len(e.b) == 2 and isinstance(e.b[0], tuple) and e.b[0][0] == "iter" and e.b[0][2] == "fwd" \
                    and mir.strip(e.b[0][1]) == res and isinstance(e.b[1], tuple) and e.b[1][0] == "const" and isinstance(e.b[1][1], tuple) and e.b[1][1][0] == "fn" \
                    and e.b[1][1][1] in ctx.F.bodies:
                tried = [g for g in p.events[i:] if g.kind == "guard" and g.a == T("variantof", T("try", e.c)) and g.b == "Continue"]
                if not tried:
                    continue
                vname = e.b[1][1][1]
                mir.Walker.AUTO_INLINE = True
                try:
                    vb = ctx.body(vname)
                    vb.loops()
                finally:
                    mir.Walker.AUTO_INLINE = False
                for vb_ in (vb, ctx.body(vname)):
                    for f, kind, _ in pairwise_checks(ctx, vb_, lambda t, vb_=vb_: t == T("param", 1, vb_.dbg.get(1, "")), strict=True):
                        if kind == "err":
                            here.add(f)
                last_loop_pos = max(last_loop_pos, i)
        # nothing is pushed onto res after the validation
        later = [e for e in p.events[last_loop_pos + 1:] if e.kind == "call" and method_name(e.a) in ("push", "insert", "append", "extend") and e.b and mir.strip(e.b[0]) == res]
        # ... nor handed to anything that could (a later pass that gets `&mut res` -- adjust_repeats appends identity mappings
        # for repeat-only entries -- must come BEFORE the validation)
        for e in p.events[last_loop_pos + 1:]:
            if e.kind == "call" and e.d and any(mir.strip(r_) == res or mir.mentions(r_, res) for r_ in e.d) and method_name(e.a) not in ("iter", "into_iter", "deref", "len"):
                later.append(e)
            if e.kind == "loop":
                for q in mir.walk_loop_only(cb, e.a):
                    for e2 in q.events:
                        if e2.kind == "call" and e2.d and any(mir.strip(r_) == res or mir.mentions(r_, res) for r_ in e2.d) and method_name(e2.a) not in ("iter", "into_iter", "deref", "len", "next"):
                            later.append(e2)
        if later:
            here = set()
        fields = here if fields is None else (fields & here)
    ck.ob("C14-R2", CONVERT, "Ok-return-paths-analysed", n >= 1, detail="%d" % n)
    return fields or set()
