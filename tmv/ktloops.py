"""Loop idiom recognisers for key_transforms.rs: complete index iterations and the three sweeps."""
from . import mir, kt
from .kt import MOD, list_of, HELD
from .mir import T, show, method_name, const_int, Walker


class IndexLoop:
    def __init__(self):
        self.list_term = None    # the vector whose indices are visited
        self.index = None        # term of the index inside the body
        self.complete = False    # every index 0..len-1 is offered (exit only by exhaustion, or explicit break arms listed)
        self.kind = None         # 'for-range' | 'while-countdown' | 'for-elements'
        self.elem = None         # for-elements: the element term
        self.break_paths = []    # paths leaving through a break arm
        self.cont_paths = []     # paths reaching the back edge
        self.exh_paths = []
        self.problems = []
        self.direction = None    # 'fwd' | 'rev'


def _range_of(it):
    """iter(Range(0, len L)) / rev  ->  L"""
    if isinstance(it, tuple) and it and it[0] == "iter":
        r = it[1]
        if isinstance(r, tuple) and r[0] == "agg" and r[1] == "std::ops::Range" and len(r[3]) == 2:
            lo, hi = r[3]
            if const_int(lo) == 0 and isinstance(hi, tuple) and hi[0] == "len":
                return mir.strip(hi[1])
    return None


def index_loop(body, h, enclosing_events=None, full=False):
    """analyses loop h as an iteration over all indices (or all elements) of a vector; with full=True the paths
    are followed beyond the loop to the end of the function (return values visible)"""
    il = IndexLoop()
    paths = mir.walk_loop_body(body, h) if full else mir.walk_loop_only(body, h)
    for p in paths:
        if p.outcome[0] in ("unreachable", "infeasible"):
            continue
        nxt = None
        for e in p.events:
            if e.kind == "guard" and isinstance(e.a, tuple) and e.a[0] == "variantof" and isinstance(e.a[1], tuple) and e.a[1][0] == "next":
                nxt = e
                break
        if nxt is not None:
            it = nxt.a[1][1]
            L = _range_of(it)
            if L is not None:
                il.kind = "for-range"
                il.list_term = L
                il.index = T("elem", it, nxt.a[1][2])
                il.direction = it[2]
            elif isinstance(it, tuple) and it[0] == "iter" and isinstance(it[1], tuple) and it[1][0] == "call" and method_name(it[1][1]) == "enumerate" \
                    and isinstance(it[1][2][0], tuple) and it[1][2][0][0] == "iter":
                # for (i, x) in xs.iter().enumerate()
                il.kind = "for-elements"
                il.list_term = mir.strip(it[1][2][0][1])
                pair = T("elem", it, nxt.a[1][2])
                il.elem = T("field", pair, "1")
                il.index = T("field", pair, "0")
                il.direction = it[1][2][0][2]
            elif isinstance(it, tuple) and it[0] == "iter":
                il.kind = "for-elements"
                il.list_term = mir.strip(it[1])
                il.elem = T("elem", it, nxt.a[1][2])
                il.direction = it[2]
            else:
                il.problems.append("iterator %s" % show(it)[:50])
            if nxt.b == "None":
                il.exh_paths.append(p)
                continue
        else:
            # while-countdown:  guard Ge(i, 0)
            g0 = None
            for e in p.events:
                if e.kind == "guard":
                    g0 = e
                    break
            if g0 is None or not (isinstance(g0.a, tuple) and g0.a[0] == "binop" and g0.a[1] == "Ge" and const_int(g0.a[3]) == 0
                                  and isinstance(g0.a[2], tuple) and g0.a[2][0] == "loopvar"):
                il.problems.append("unrecognised loop test")
                continue
            il.kind = "while-countdown"
            ivar = g0.a[2]
            il.index = T("cast", ivar, "usize")
            if g0.b is False:
                il.exh_paths.append(p)
                continue
            if p.outcome == ("backedge", h):
                decs = [e for e in p.events if e.kind == "set" and e.a == ivar[2]]
                if len(decs) != 1 or decs[0].b != T("binop", "Sub", ivar, T("const", T("int", 1, "isize"))):
                    il.problems.append("counter is not decremented by exactly one on a continuing path")
        if p.outcome == ("backedge", h):
            il.cont_paths.append(p)
        elif p.outcome[0] in ("after-loop", "return", "outer-backedge", "stop"):
            il.break_paths.append(p)
        else:
            il.problems.append("path outcome %s" % (p.outcome[0],))
    if il.kind == "while-countdown":
        # initial value: len(L) as isize - 1, assigned on the enclosing path just before the loop
        init_ok = False
        if enclosing_events is not None:
            ivl = il.index[1][2]
            sets = [e for e in enclosing_events if e.kind == "set" and e.a == ivl]
            if sets:
                v = sets[-1].b
                if isinstance(v, tuple) and v[0] == "binop" and v[1] == "Sub" and const_int(v[3]) == 1:
                    x = v[2]
                    narrow = False
                    while isinstance(x, tuple) and x[0] == "cast":
                        if x[2] not in ("isize", "usize", "i64", "u64", "i128", "u128"):
                            narrow = True       # `len as u8 as isize`: the sweep would start in the middle of a long vector
                        x = x[1]
                    if narrow:
                        il.problems.append("counter initial value passes through a type narrower than the length")
                    if isinstance(x, tuple) and x[0] == "len":
                        il.list_term = mir.strip(x[1])
                        init_ok = True
        if not init_ok:
            il.problems.append("counter initial value is not len-1")
    il.complete = bool(il.exh_paths) and not il.problems and il.list_term is not None
    return il


def loop_enclosing_events(body, h):
    """events of an enclosing path up to the `loop` event that summarises h (for initial values)"""
    segs = [mir.walk_function(body)]
    for hh in body.loops():
        if hh != h and h in body.loops()[hh]:
            segs.append(mir.walk_loop_only(body, hh))
    for paths in segs:
        for p in paths:
            for i, e in enumerate(p.events):
                if e.kind == "loop" and e.a == h:
                    return p.events[:i]
    return None


def path_effects(K, body, p):
    return K._one(body, p, "x", None).effects


def pt_sweep(K, body, h):
    """is loop h 'for every index i of PT: if PT[i] == x { emit Released(x); PT.remove(i); break }' ?
    -> (x term, problems)"""
    il = index_loop(body, h, loop_enclosing_events(body, h))
    probs = list(il.problems)
    if not il.complete or list_of(il.list_term) != "PT" or il.kind not in ("for-range", "while-countdown"):
        return None, probs + ["not a complete index iteration over pass_through_keys"]
    x = None
    for p in il.cont_paths:
        fx = K._one(body, p, "x", None)
        gs = [(a, v) for a, v in fx.all_guards() if not (isinstance(a, tuple) and a[0] == "variantof")]
        if fx.effects or len(gs) != 1 or gs[0][1] is not False:
            probs.append("continuing path is not `PT[i] != x, no effect`")
    if not il.break_paths:
        probs.append("no releasing path")
    for p in il.break_paths:
        fx = K._one(body, p, "x", None)
        gs = [(a, v) for a, v in fx.all_guards() if not (isinstance(a, tuple) and a[0] == "variantof")]
        if len(gs) != 1 or gs[0][1] is not True or not (isinstance(gs[0][0], tuple) and gs[0][0][0] == "eq"):
            probs.append("releasing path guard")
            continue
        a = gs[0][0]
        elem = T("index", il.list_term, il.index)
        other = a[2] if mir.strip(a[1]) == elem else (a[1] if mir.strip(a[2]) == elem else None)
        if other is None:
            probs.append("comparison is not on PT[i]")
            continue
        x = mir.strip(other)
        em = [e for e in fx.effects if e.kind == "EMIT"]
        de = [e for e in fx.effects if e.kind == "DEL"]
        if not (len(em) == 1 and em[0].aux == "Released" and fx.same_key(em[0].key, x) and len(de) == 1 and de[0].lst == "PT"
                and de[0].key == elem and len(fx.effects) == 2):
            probs.append("releasing path effects %s" % fx.effects)
    return x, probs


def pt_search(K, fx, x):
    """the pass_through sweep written as a search on path fx:
         if let Some(i) = pass_through_keys.iter().(r)position(|k2| *k2 == x) { emit Released(x); PT.remove(i) }
    (pass_through_keys holds no key twice, C19-I1, so lifting the one found lifts x).  -> event index or None"""
    for i, ev in enumerate(fx.path.events):
        if ev.kind != "guard" or not (isinstance(ev.a, tuple) and ev.a[0] == "variantof"):
            continue
        c = ev.a[1]
        if not (isinstance(c, tuple) and c[0] == "call" and mir.method_name(c[1]) in ("position", "rposition") and len(c[2]) == 2):
            continue
        it = c[2][0]
        if not (isinstance(it, tuple) and it[0] == "iter" and list_of(it[1]) == "PT"):
            continue
        probe = T("index", mir.strip(it[1]), T("field", T("variant", c, "Some"), "0"))
        found = K.resolve_pos(probe)
        if found is probe or not fx.same_key(found, x):
            continue
        if ev.b == "Some":
            em = [z for z in fx.effects if z.kind == "EMIT" and z.aux == "Released" and fx.same_key(z.key, x)]
            de = [z for z in fx.effects if z.kind == "DEL" and z.lst == "PT" and fx.same_key(z.key, x)]
            if len(em) == 1 and len(de) == 1:
                return i
        else:
            return i   # not there: nothing to lift
    return None


def am_sweep(K, body, h):
    """is loop h 'for every index i of AM: if fails_when_released(AM[i].from, x) { events += remove_mapping(state, i, x) }',
    leaving only by exhaustion?  -> (x term, problems)"""
    il = index_loop(body, h, loop_enclosing_events(body, h))
    probs = list(il.problems)
    if not il.complete or list_of(il.list_term) != "AM" or il.kind not in ("for-range", "while-countdown"):
        return None, probs + ["not a complete index iteration over active_mappings"]
    if il.break_paths:
        probs.append("the sweep can be left early")
    x = None
    seen = set()
    for p in il.cont_paths:
        fx = K._one(body, p, "x", None)
        gs = [(a, v) for a, v in fx.all_guards() if isinstance(a, tuple) and a[0] == "call" and a[1] == MOD + "fails_when_released"]
        if not gs:
            # the helper written out in place:  AM[i].from.contains(&x)   (what fails_when_released is shown to compute)
            gs = [(T("call", MOD + "fails_when_released", (a[2], a[1]), None), v) for a, v in fx.all_guards()
                  if isinstance(a, tuple) and a[0] == "in" and isinstance(mir.strip(a[2]), tuple) and mir.strip(a[2])[0] == "field" and mir.strip(a[2])[2] == "from"]
        if len(gs) != 1:
            probs.append("path does not test fails_when_released exactly once")
            continue
        a, v = gs[0]
        frm, key = a[2]
        want_from = T("field", T("index", il.list_term, il.index), "from")
        if mir.strip(frm) != want_from:
            probs.append("fails_when_released is not asked about AM[i].from")
        x = mir.strip(key)
        seen.add(v)
        calls = [e for e in fx.effects if e.kind == "CALL" and e.key == MOD + "remove_mapping"]
        if v is True:
            ok = len(calls) == 1 and len(calls[0].aux) == 3 and calls[0].aux[1] == il.index and mir.strip(calls[0].aux[2]) == x
            if not ok:
                probs.append("dependent mapping is not removed with remove_mapping(state, i, x)")
        else:
            if calls or [e for e in fx.effects if e.kind in ("EMIT", "ADD", "DEL", "RETAIN")]:
                probs.append("independent mapping is touched")
    if seen != {True, False}:
        probs.append("both outcomes of fails_when_released expected")
    return x, probs


def fails_when_released_table(ctx):
    """fails_when_released(trigger, key) == key in trigger ?"""
    if not ctx.has_body(MOD + "fails_when_released"):
        return True, ""      # no such helper any more: the sweeps ask `from.contains(&x)` themselves (am_sweep reads that form)
    b = ctx.body(MOD + "fails_when_released")
    loops = list(b.loops())
    if not loops:
        # trigger.contains(&key) / trigger.iter().any(|k| *k == key)
        rs = [p for p in mir.walk_function(b) if p.outcome[0] == "return"]
        if len(rs) == 1 and not [e for e in rs[0].events if e.kind == "guard"]:
            r = mir.strip(rs[0].outcome[1])
            if isinstance(r, tuple) and r[0] == "in" and mir.strip(r[1]) == T("param", 2, b.dbg.get(2, "")) and mir.strip(r[2]) == T("param", 1, b.dbg.get(1, "")):
                return True, ""
    if len(loops) != 1:
        return False, "expected one loop"
    from . import tables
    trig = T("param", 1, b.dbg.get(1, ""))
    key = T("param", 2, b.dbg.get(2, ""))
    paths = mir.walk_loop_body(b, loops[0])
    ok = True
    why = []
    seen = set()
    for p in paths:
        if p.outcome[0] in ("unreachable", "infeasible"):
            continue
        gs = [(a, v) for a, v in p.guards()]
        nxt = [v for a, v in gs if isinstance(a, tuple) and a[0] == "variantof" and isinstance(a[1], tuple) and a[1][0] == "next"]
        it = [a[1][1] for a, v in gs if isinstance(a, tuple) and a[0] == "variantof" and isinstance(a[1], tuple) and a[1][0] == "next"]
        if not it or it[0] != T("iter", trig, "fwd") and it[0] != T("iter", trig, "rev"):
            ok = False
            why.append("does not iterate the trigger")
            continue
        eqs = [(a, v) for a, v in gs if isinstance(a, tuple) and a[0] == "eq"]
        if nxt == ["None"]:
            seen.add("exh")
            if p.outcome[0] != "return" or const_int(p.outcome[1]) != 0:
                ok = False
                why.append("exhaustion does not return false")
        elif len(eqs) == 1:
            a, v = eqs[0]
            el = [s for s in (a[1], a[2]) if isinstance(s, tuple) and s[0] == "elem"]
            ot = [s for s in (a[1], a[2]) if s == key]
            if len(el) != 1 or len(ot) != 1:
                ok = False
                why.append("comparison is not element == key")
            if v is True:
                seen.add("hit")
                if p.outcome[0] != "return" or const_int(p.outcome[1]) != 1:
                    ok = False
                    why.append("match does not return true")
            else:
                seen.add("miss")
                if p.outcome != ("backedge", loops[0]):
                    ok = False
                    why.append("mismatch does not continue")
        else:
            ok = False
            why.append("unexpected path")
    if seen != {"exh", "hit", "miss"}:
        ok = False
        why.append("classes %s" % sorted(seen))
    return ok, "; ".join(why)


# --------------------------------------------------------------------------
# remove_mapping: the MO sweep and its decision table (C01-R4, C02-T1, C05-R2)

class RemoveMapping:
    def __init__(self):
        self.problems = []      # about the sweep as a whole
        self.role_problems = {"used": [], "shadowed": []}
        self.rows = []          # (valuation dict role->bool, outcome, site)
        self.sweep_loop = None
        self.flags = {}         # role -> ExistsLoop
        self.excl = {}          # role -> does the scan skip index i
        self.am_removal = None  # "after" | "before" the sweep (exactly once on every return path), else None
        self.index_param = None
        self.removed_param = None

    @property
    def am_removed_after_sweep(self):
        return self.am_removal == "after"

    def covers(self, role):
        """which mappings the scan for `role` looks at, relative to `all active mappings but the one being removed`:
        'exact' | 'subset' (may miss one) | 'superset' (also sees the one being removed) | None (unknown)"""
        if role not in self.excl or self.am_removal is None:
            return None
        ex = self.excl[role]
        if ex == "part":
            return "subset"     # a slice that leaves out index i and more (active_mappings[..i], [i+1..])
        if self.am_removal == "after":
            return "exact" if ex else "superset"
        return "subset" if ex else "exact"

    def scan_text(self, role):
        return {True: "skips index i", False: "looks at every listed mapping", "part": "looks at a slice that leaves out index i and more",
                None: "not recognised"}.get(self.excl.get(role))

    def all_problems(self):
        return self.problems + self.role_problems["used"] + self.role_problems["shadowed"]


def _tv_and(*xs):
    if any(x is False for x in xs):
        return False
    if all(x is True for x in xs):
        return True
    return None


def _tv_not(x):
    return None if x is None else (not x)


def remove_mapping_analysis(ctx, K):
    from . import tables
    R = RemoveMapping()
    body = ctx.body(MOD + "remove_mapping")
    i_par = T("param", 2, body.dbg.get(2, ""))
    rk_par = T("param", 3, body.dbg.get(3, ""))
    R.index_param, R.removed_param = i_par, rk_par
    # the sweep: the outermost loop that iterates the indices of MO
    outer = [h for h in body.loops() if not any(h in blks and hh != h for hh, blks in body.loops().items())]
    sweeps = []
    for h in outer:
        il = index_loop(body, h, loop_enclosing_events(body, h))
        if il.kind == "for-range" and list_of(il.list_term) == "MO":
            sweeps.append((h, il))
    if len(sweeps) != 1:
        R.problems.append("expected exactly one loop over the indices of mapped_output_keys (found %d)" % len(sweeps))
        return R
    h, il = sweeps[0]
    R.sweep_loop = h
    if not il.complete or il.break_paths:
        R.problems.append("the sweep over mapped_output_keys does not visit every index (%s)" % (il.problems or "early exit"))
    k = T("index", il.list_term, il.index)
    # inner existential scans written as loops
    inner = [hh for hh in body.loops() if hh != h and hh in body.loops()[h]]
    flags = {}
    for hh in inner:
        el = tables.exists_loop(body, hh)
        if el.problems:
            R.problems.append("inner loop bb%d is not an existential scan: %s" % (hh, el.problems[:2]))
            continue
        role, excl = _flag_role(el, i_par, k)
        if role is None:
            R.problems.append("inner scan bb%d (%s) does not have the shape `exists [j != i:] AM[j].<from|to> contains k`" % (hh, el.flag_name))
            continue
        flags[T("loopvar", hh, el.flag, el.flag_name)] = role
        R.flags[role] = el
        R.excl[role] = excl
    any_atoms = {}
    # flag initial values: false before each scan (dominating assignment on the sweep path)
    for p in il.cont_paths:
        fx = K._one(body, p, "x", None)
        val = {}
        unknown = []
        # a scan left through its exhaustion exit leaves its flag false, through its break arm true
        for e in p.events:
            if e.kind == "loopexit" and e.a in inner:
                fl = [f for f in flags if f[1] == e.a]
                ex = body.exhaustion_exit(e.a)
                if fl and ex is not None:
                    val[flags[fl[0]]] = (e.b != ex[1])
        for a, v in fx.all_guards():
            if isinstance(a, tuple) and a[0] == "variantof":
                continue
            if a in flags:
                val[flags[a]] = v
            elif isinstance(a, tuple) and a[0] == "in" and list_of(a[2]) == "IP" and mir.strip(a[1]) == k:
                val["held"] = v
            elif isinstance(a, tuple) and a[0] == "eq" and {mir.strip(a[1]), mir.strip(a[2])} == {k, rk_par}:
                val["is_removed"] = v
            elif isinstance(a, tuple) and a[0] == "call" and mir.method_name(a[1]) == "any":
                # the scan written as active_mappings.iter().any(|m| m.<from|to>.contains(&k))
                if a not in any_atoms:
                    el = tables.any_scan(ctx.body, a)
                    role = None
                    if not el.problems:
                        role, excl = _flag_role(el, i_par, k)
                    any_atoms[a] = role
                    if role is not None:
                        R.flags[role] = el
                        R.excl[role] = excl
                if any_atoms[a] is None:
                    txt = show(a)[:60]
                    rl = _closure_field_role(ctx, a)
                    if rl is not None:
                        if ("unrecognised scan: %s" % txt) not in R.role_problems[rl]:
                            R.role_problems[rl].append("unrecognised scan: %s" % txt)
                        R.flags.setdefault(rl, None)
                        val[rl] = v
                    else:
                        unknown.append(txt)
                else:
                    val[any_atoms[a]] = v
            else:
                unknown.append(show(a)[:60])
        # the flag must be false when its scan starts
        for e in p.events:
            if e.kind == "loop" and e.a in inner:
                fl = [f for f in flags if f[1] == e.a]
                if fl:
                    sets = [x for x in p.events[:p.events.index(e)] if x.kind == "set" and x.a == fl[0][2]]
                    if not sets or const_int(sets[-1].b) != 0:
                        R.role_problems[flags[fl[0]]].append("flag %s is not initialised to false before its scan" % fl[0][3])
        effs = [e for e in fx.effects if e.kind in ("EMIT", "ADD", "DEL", "RETAIN", "CALL") or e.kind.startswith("OTHERMUT")]
        emit = [e for e in effs if e.kind == "EMIT"]
        add = [e for e in effs if e.kind == "ADD"]
        dele = [e for e in effs if e.kind == "DEL"]
        outcome = "?"
        if not effs:
            outcome = "keep"
        elif len(dele) == 1 and dele[0].lst == "MO" and dele[0].key == k:
            if len(emit) == 1 and not add and emit[0].aux == "Released" and mir.strip(emit[0].key) == k and len(effs) == 2:
                outcome = "release"
            elif len(add) == 1 and not emit and add[0].lst == "PT" and mir.strip(add[0].key) == k and len(effs) == 2:
                outcome = "handover"
        if unknown:
            R.problems.append("unrecognised condition in the sweep: %s" % unknown[:2])
        R.rows.append((val, outcome, effs[0].ev.span if effs else None))
    # AM.remove(i): exactly once on every return path, with the index parameter, either after the complete sweep
    # or before it starts -- never inside
    fn_paths = [p for p in mir.walk_function(body) if p.outcome[0] == "return"]
    where = set()
    for p in fn_paths:
        fx = K._one(body, p, "fn", None)
        loops_seen = [e.a for e in p.events if e.kind == "loop"]
        dels = [e for e in fx.effects if e.kind == "DEL" and e.lst == "AM"]
        others = [e for e in fx.effects if e.lst == "AM" and e.kind != "DEL"]
        if len(dels) != 1 or others or dels[0].aux != i_par or h not in loops_seen:
            where.add(None)
            continue
        pos_loop = [i for i, e in enumerate(p.events) if e.kind == "loop" and e.a == h][0]
        where.add("before" if dels[0].pos < pos_loop else "after")
    # ... and nothing inside the sweep touches active_mappings
    for p in il.cont_paths + il.break_paths:
        fx = K._one(body, p, "x", None)
        if any(e.lst == "AM" for e in fx.effects):
            where.add(None)
    R.am_removal = where.pop() if len(where) == 1 else None
    return R


def _closure_field_role(ctx, atom):
    """an any()-scan we cannot read exactly: which of the two questions does its closure ask (m.to / m.from)?"""
    try:
        clos = atom[2][1]
        cps, cb = mir.walk_closure(ctx.body, clos, param_terms=[T("elem", atom[2][0], None)])
    except Exception:
        return None
    fields = set()
    for p in cps:
        for e in p.events:
            for t in (e.a, e.b, e.c):
                if isinstance(t, tuple):
                    for s_ in mir.subterms(t):
                        if isinstance(s_, tuple) and s_ and s_[0] == "field" and s_[2] in ("to", "from"):
                            fields.add(s_[2])
        if isinstance(p.outcome[1] if len(p.outcome) > 1 else None, tuple):
            for s_ in mir.subterms(p.outcome[1]):
                if isinstance(s_, tuple) and s_ and s_[0] == "field" and s_[2] in ("to", "from"):
                    fields.add(s_[2])
    if fields == {"to"}:
        return "used"
    if fields == {"from"}:
        return "shadowed"
    return None


def _flag_role(el, i_par, k):
    """exists m among active_mappings [other than index i]: m.<field> contains k
       -> ('used' (field to) | 'shadowed' (field from), skips_index_i)   or (None, None)
    the scan may run over the index range (AM[j]) or over the elements (for m in &AM / iter().any)"""
    it = el.iter_term
    L = _range_of(it)
    by_index = L is not None
    if by_index:
        if list_of(L) != "AM":
            return None, None
    part = False
    if not by_index:
        if not (isinstance(it, tuple) and it[0] == "iter"):
            return None, None
        src = mir.strip(it[1])
        if list_of(src) != "AM":
            # a slice of active_mappings that stops short of / starts after index i
            if not (isinstance(src, tuple) and src[0] == "index" and list_of(src[1]) == "AM" and isinstance(src[2], tuple) and src[2][0] == "agg"):
                return None, None
            rng = src[2]
            ops = dict(zip(rng[4], rng[3])) if len(rng) > 4 else {}
            if rng[1] == "std::ops::RangeTo" and ops.get("end") == i_par:
                part = True
            elif rng[1] == "std::ops::RangeFrom" and ops.get("start") == T("binop", "Add", i_par, T("const", T("int", 1, "usize"))):
                part = True
            else:
                return None, None
    roles = set()
    excls = set()

    def is_elem(t, j=None):
        t = mir.strip(t)
        if by_index:
            return isinstance(t, tuple) and t[0] == "index" and t[1] == L and isinstance(t[2], tuple) and t[2][0] == "elem" and (j is None or t[2] == j)
        return isinstance(t, tuple) and t[0] == "elem" and t[1] == it

    for gs in el.set_paths:
        pos = [(a, v) for a, v in gs if v is True]
        neg = [(a, v) for a, v in gs if v is False]
        if len(pos) != 1 or len(neg) > 1:
            return None, None
        a = pos[0][0]
        j = None
        if neg:
            n = neg[0][0]
            if not (isinstance(n, tuple) and n[0] == "eq" and i_par in (n[1], n[2])):
                return None, None
            j = n[2] if n[1] == i_par else n[1]
            if by_index:
                if not (isinstance(j, tuple) and j[0] == "elem"):
                    return None, None
            else:
                # iter().enumerate(): the closure sees (position, element)
                if not (getattr(el, "enum", False) and j == T("enumidx", it)):
                    return None, None
                j = None
        excls.add(bool(neg))
        if not (isinstance(a, tuple) and a[0] == "in" and mir.strip(a[1]) == k and isinstance(a[2], tuple) and a[2][0] == "field" and is_elem(a[2][1], j)):
            return None, None
        roles.add({"to": "used", "from": "shadowed"}.get(a[2][2]))
    if len(roles) != 1 or None in roles or len(excls) != 1:
        return None, None
    excl = excls.pop()
    if part:
        if excl:
            return None, None
        for gs in el.cont_paths:
            if not (len(gs) == 1 and gs[0][1] is False and isinstance(gs[0][0], tuple) and gs[0][0][0] == "in"):
                return None, None
        return roles.pop(), "part"
    for gs in el.cont_paths:
        # either j == i, or [j != i and] not contains
        if excl and len(gs) == 1 and gs[0][1] is True and isinstance(gs[0][0], tuple) and gs[0][0][0] == "eq":
            continue
        if excl and len(gs) == 2 and gs[0][1] is False and gs[1][1] is False:
            continue
        if not excl and len(gs) == 1 and gs[0][1] is False and isinstance(gs[0][0], tuple) and gs[0][0][0] == "in":
            continue
        return None, None
    return roles.pop(), excl


def remove_mapping_spec(val):
    """three-valued evaluation of the specification on a partial valuation -> expected outcome or None"""
    U = val.get("used")
    Hd = val.get("held")
    Rm = val.get("is_removed")
    S = val.get("shadowed")
    if U is True:
        return "keep"
    if U is None:
        return None
    hand = _tv_and(Hd, _tv_not(Rm), _tv_not(S))
    if hand is True:
        return "handover"
    if hand is False:
        return "release"
    return None


# --------------------------------------------------------------------------
# "select the first element of a scan that satisfies P, then act on it": written as a loop that tests, acts and
# breaks, or as  iter().find(|x| P(x))  followed by  if let Some(x) = found { act(x) }

class Selection:
    def __init__(self):
        self.form = None          # 'loop' | 'find'
        self.iter_term = None     # ('iter', xs, dir)
        self.elem = None          # the term that stands for the visited element in .pred
        self.chosen = None        # the term handed to the action
        self.pred = []            # [(atom, value)] known for the chosen element (atoms over .elem)
        self.leaves_scan = False  # nothing is scanned after the action
        self.skips_quietly = False  # an element failing P has no effect and the scan goes on
        self.acts = 0             # number of acting paths
        self.site = None
        self.header = None
        self.problems = []
        self.context = []         # find form: the guards of the function path before the action
        self.contexts = []        # ... of every function path that reaches this action with this chosen element

    def pred_over_chosen(self):
        return [(mir.subst(a, {self.elem: self.chosen}) if isinstance(a, tuple) else a, v) for a, v in self.pred]


def selections(ctx, body, action, arg_index):
    """all places in `body` where `action` is called on an element selected from a scan; arg_index = position of the
    element among the action's arguments"""
    from . import tables
    out = []
    # (1) loops
    for h in sorted(body.loops()):
        paths = mir.walk_loop_only(body, h)
        acting = [p for p in paths if any(e.kind == "call" and e.a == action for e in p.events)]
        if not acting:
            continue
        el = tables.exists_loop(body, h)
        group = []
        for p in acting:
            s = Selection()
            s.form, s.header = "loop", h
            s.iter_term = el.iter_term
            s.acts = len(acting)
            calls = [e for e in p.events if e.kind == "call" and e.a == action]
            if len(calls) != 1:
                s.problems.append("%d calls of the action on one path" % len(calls))
                group.append(s)
                continue
            ci = p.events.index(calls[0])
            s.site = calls[0].span
            s.chosen = mir.strip(calls[0].b[arg_index])
            s.elem = s.chosen
            s.pred = [(e.a, e.b) for e in p.events[:ci] if e.kind == "guard" and not (isinstance(e.a, tuple) and e.a[0] == "variantof" and isinstance(e.a[1], tuple) and e.a[1][0] == "next")]
            s.leaves_scan = p.outcome != ("backedge", h)
            group.append(s)
        quiet = True
        for p in paths:
            if p in acting or p.outcome != ("backedge", h):
                continue
            if [e for e in p.events if e.kind in ("store",) or (e.kind == "call" and e.d)]:
                # a call that receives `&mut` on a continuing path (other than stepping the iterator)
                if [e for e in p.events if e.kind == "call" and e.d and mir.method_name(e.a) not in ("next", "next_back")] or [e for e in p.events if e.kind == "store"]:
                    quiet = False
        for s in group:
            s.skips_quietly = quiet
            out.append(s)
    # (2) find(): the action is called with the payload of a find() result
    for p in mir.walk_function(body):
        for e in p.events:
            if e.kind != "call" or e.a != action:
                continue
            arg = mir.strip(e.b[arg_index])
            if not (isinstance(arg, tuple) and arg[0] == "field" and isinstance(arg[1], tuple) and arg[1][0] == "variant" and arg[1][2] == "Some"):
                continue
            c = arg[1][1]
            if not (isinstance(c, tuple) and c[0] == "call" and mir.method_name(c[1]) == "find"):
                continue
            if any(x.form == "find" and x.chosen == arg for x in out):
                for x in out:
                    if x.form == "find" and x.chosen == arg:
                        x.contexts.append([(g.a, g.b) for g in p.events[:p.events.index(e)] if g.kind == "guard"])
                continue
            sc = tables.closure_scan(ctx.body, c)
            s = Selection()
            s.form = "find"
            s.site = e.span
            s.chosen = arg
            s.iter_term = sc.iter_term
            s.elem = T("elem", sc.iter_term, None) if sc.iter_term else None
            if sc.problems or len(sc.set_paths) != 1:
                s.problems.append("find() predicate: %s" % (sc.problems[:1] or ["%d accepting paths" % len(sc.set_paths)]))
            else:
                s.pred = list(sc.set_paths[0])
            found = [g for g in p.events[:p.events.index(e)] if g.kind == "guard" and g.a == T("variantof", c) and g.b == "Some"]
            if not found:
                s.problems.append("the action is not under `found is Some`")
            s.leaves_scan = True
            s.skips_quietly = True
            s.acts = 1
            s.context = [(g.a, g.b) for g in p.events[:p.events.index(e)] if g.kind == "guard"]
            s.contexts = [s.context]
            out.append(s)
    return out


def ab_duplicate_free(K):
    """every insertion into mapped_absorbed_keys, in whatever function, stands under `!mapped_absorbed_keys.contains(key)`
    for the key it inserts (and nothing is appended to the list wholesale) -> the list never holds a key twice"""
    n = 0
    for b in K.fn_bodies:
        for fx in K.path_fx(b):
            for e in fx.effects:
                if e.lst == "AB" and e.kind not in ("ADD", "DEL", "RETAIN", "CALL", "DRAIN"):
                    return False        # extend / append / anything unclassified may bring a second copy in
                if e.kind == "ADD" and e.lst == "AB":
                    n += 1
                    g = fx.guards_before(e)
                    if not any(v is False and isinstance(a, tuple) and a[0] == "in" and list_of(a[2]) == "AB" and fx.same_key(a[1], e.key) for a, v in g):
                        return False
    return n > 0


def forget_from_ab(K, body, fx, k):
    """positions (indices into fx.path.events) at which the path forgets key k from mapped_absorbed_keys:
       * `mapped_absorbed_keys.retain(|x| *x != k)` -- every copy goes; or
       * a complete index loop over the list that removes the first element equal to k and stops -- the only copy goes,
         PROVIDED the list is duplicate-free (ab_duplicate_free).
    """
    from .ktx import Analysis
    out = [e.pos for e in fx.effects if e.kind == "RETAIN" and e.lst == "AB" and Analysis._retain_removes_key(e) == k]
    if out:
        return out
    dup_free = None
    for i, ev in enumerate(fx.path.events):
        if ev.kind != "loop":
            continue
        h = ev.a
        il = index_loop(body, h, loop_enclosing_events(body, h))
        if il.kind != "for-range" or il.list_term is None or list_of(il.list_term) != "AB" or il.problems or not il.exh_paths:
            continue
        ok = bool(il.break_paths)
        for p in il.cont_paths:
            f2 = K._one(body, p, "x", None)
            if [e for e in f2.effects if e.kind in ("EMIT", "ADD", "DEL", "RETAIN", "CALL", "STORE", "APPEND")]:
                ok = False
        for p in il.break_paths:
            f2 = K._one(body, p, "x", None)
            dels = [e for e in f2.effects if e.kind == "DEL" and e.lst == "AB"]
            others = [e for e in f2.effects if e.kind in ("EMIT", "ADD", "RETAIN", "CALL", "STORE", "APPEND") or (e.kind == "DEL" and e.lst != "AB")]
            elem = T("index", il.list_term, il.index)
            eq = [(a, v) for a, v in f2.all_guards() if isinstance(a, tuple) and a[0] == "eq" and {mir.strip(a[1]), mir.strip(a[2])} == {mir.strip(elem), k}]
            if len(dels) != 1 or others or not eq or eq[-1][1] is not True or mir.strip(dels[0].key) != mir.strip(elem) or p.outcome[0] != "after-loop":
                ok = False
        if not ok:
            continue
        if dup_free is None:
            dup_free = ab_duplicate_free(K)
        if dup_free:
            out.append(i)
    return out
