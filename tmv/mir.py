"""MIR analysis core: CFG utilities (P2), provenance terms (P3), path walker with
constant propagation and consistent-atom pruning (P4/P5).

Nothing here executes totalmapper: paths are walks of the control-flow graph with
*uninterpreted* terms; branch conditions that are not compile-time constants are
recorded as guards, never solved.
"""
import collections
import re

from .mirpp import place_str, op_str, term_str, callee_name

# --------------------------------------------------------------------------
# callee name normalisation


def norm_callee(t):
    """Canonical short name for a resolved callee + its generic args string."""
    c = t["callee"]
    name = c.get("resolved") or c.get("path") or "indirect"
    return name


_PURE_ID = (
    "::deref", "::deref_mut", "::borrow", "::borrow_mut", "::as_ref", "::as_mut", "::as_slice", "::as_mut_slice",
    "::as_str", "::copied", "::cloned", "::by_ref",
)


def _last(name, n=1):
    # "<A as B>::f" -> f ; "a::b::c" -> c
    parts = re.split(r"::(?![^<]*>)", name)
    return "::".join(parts[-n:])


def method_name(name):
    return _last(name, 1)


def is_vec_method(name, m):
    return name.startswith("std::vec::Vec::<") and name.endswith(">::" + m)


def is_slice_method(name, m):
    return name == "core::slice::<impl [T]>::" + m


# --------------------------------------------------------------------------
# terms

def T(*a):
    return tuple(a)


def subterms(t):
    yield t
    if isinstance(t, tuple):
        for x in t:
            if isinstance(x, tuple):
                for s in subterms(x):
                    yield s


def _reads_variable(t):
    """does the VALUE of term t depend on a re-assignable variable read at evaluation time?  Results of
    site-tagged calls are events in time (their identity includes the site), so their arguments do not count."""
    if not isinstance(t, tuple) or not t:
        return False
    if t[0] in ("var", "loopvar"):
        return True
    if t[0] == "call" and len(t) > 3 and t[3] is not None:
        return False
    if t[0] in ("next", "elem"):
        return False
    return any(_reads_variable(x) for x in t if isinstance(x, tuple))


def mentions(t, sub):
    for s in subterms(t):
        if s == sub:
            return True
    return False


def strip(t):
    """strip clones / casts of references – for identity comparisons."""
    while isinstance(t, tuple) and t and t[0] in ("clone",):
        t = t[1]
    return t


def show(t):
    if not isinstance(t, tuple) or not t:
        return str(t)
    k = t[0]
    if k == "param":
        return t[2] or "arg%d" % t[1]
    if k == "field":
        return "%s.%s" % (show(t[1]), t[2])
    if k == "const":
        return repr(t[1]) if not isinstance(t[1], tuple) else show(t[1])
    if k == "int":
        return str(t[1])
    if k == "call":
        return "%s(%s)" % (_last(t[1], 2), ", ".join(show(a) for a in t[2]))
    if k == "agg":
        return "%s::%s(%s)" % (_last(t[1]), t[2], ", ".join(show(a) for a in t[3]))
    if k == "variant":
        return "(%s as %s)" % (show(t[1]), t[2])
    if k == "index":
        return "%s[%s]" % (show(t[1]), show(t[2]))
    if k == "var":
        return "%s@%s" % (t[2] or "_%s" % (t[1] if not isinstance(t[1], tuple) else t[1][-1]), t[3])
    if k == "loopvar":
        # (re-tagged variables of an inlined helper carry a tuple instead of a plain header id)
        return "%s~L%s" % (t[3] or "_%s" % (t[2],), t[1] if not isinstance(t[1], tuple) else "i")
    if k == "in":
        return "(%s in %s)" % (show(t[1]), show(t[2]))
    if k == "eq":
        return "(%s == %s)" % (show(t[1]), show(t[2]))
    if k == "not":
        return "!%s" % show(t[1])
    if k == "elem":
        return "elem(%s)" % show(t[1])
    if k == "iter":
        return "iter%s(%s)" % ("" if t[2] == "fwd" else "~rev", show(t[1]))
    if k == "closure":
        return "closure<%s>" % _last(t[1], 2)
    return "(" + " ".join(show(x) if isinstance(x, tuple) else str(x) for x in t) + ")"


def mk_not(t):
    if isinstance(t, tuple) and t and t[0] == "not":
        return t[1]
    if isinstance(t, tuple) and t and t[0] == "const" and isinstance(t[1], tuple) and t[1][0] == "int":
        return T("const", T("int", 0 if t[1][1] else 1, t[1][2]))
    return T("not", t)


def _split_call(t):
    """t = xs.split_last() / xs.split_first() / xs.last() / xs.first()  ->  (method, xs)"""
    if isinstance(t, tuple) and t and t[0] == "call" and len(t) > 2 and len(t[2]) == 1 and method_name(t[1]) in ("split_last", "split_first", "last", "first") and "slice" in t[1]:
        return method_name(t[1]), strip(t[2][0])
    return None


def _bool_const(t):
    if isinstance(t, tuple) and t and t[0] == "const" and isinstance(t[1], tuple) and t[1][0] == "int" and len(t[1]) > 2 and t[1][2] == "bool":
        return bool(t[1][1])
    return None


def mk_eq(a, b):
    # b == true  is  b ;  b == false  is  !b
    for x, y in ((a, b), (b, a)):
        c = _bool_const(x)
        if c is not None and _bool_const(y) is None:
            return y if c else mk_not(y)
    if repr(a) > repr(b):
        a, b = b, a
    return T("eq", a, b)


def _len_cmp_as_empty(op, a, b):
    def is_len(t):
        return isinstance(t, tuple) and t and t[0] == "len"
    ca, cb = const_int(a), const_int(b)
    if is_len(a) and cb is not None:
        e = T("empty", a[1])
        if (op, cb) in (("Eq", 0), ("Lt", 1), ("Le", 0)):
            return e
        if (op, cb) in (("Ne", 0), ("Gt", 0), ("Ge", 1)):
            return mk_not(e)
    if is_len(b) and ca is not None:
        e = T("empty", b[1])
        if (op, ca) in (("Eq", 0), ("Gt", 1), ("Ge", 0)):
            return e
        if (op, ca) in (("Ne", 0), ("Lt", 0), ("Le", 1)):
            return mk_not(e)
    return None


def _wrap_int(v, ty):
    bits = {"8": 8, "16": 16, "32": 32, "64": 64, "128": 128, "size": 64}[ty[1:]]
    v &= (1 << bits) - 1
    if ty[0] == "i" and v >= 1 << (bits - 1):
        v -= 1 << bits
    return v


def fold_binop(op, a, b):
    ca, cb = const_int(a), const_int(b)
    if ca is not None and cb is not None and isinstance(a[1], tuple) and a[1][2] not in ("bool", "char"):
        ty = a[1][2]
        r = None
        if op == "Add":
            r = ca + cb
        elif op == "Sub":
            r = ca - cb
        elif op == "Mul":
            r = ca * cb
        if r is not None and re.match(r"^[iu](8|16|32|64|128|size)$", ty):
            return T("const", T("int", _wrap_int(r, ty), ty))
    return T("binop", op, a, b)


def const_int(t):
    """-> python int if term is an integer/bool/char constant else None"""
    if isinstance(t, tuple) and len(t) >= 2 and t[0] == "const" and isinstance(t[1], tuple) and t[1][0] == "int":
        return t[1][1]
    return None


# --------------------------------------------------------------------------
# body wrapper

class Body:
    def __init__(self, b, facts=None):
        self.b = b
        self.path = b["path"]
        self.facts = facts
        self.blocks = {x["i"]: x for x in b["blocks"]}
        self.argc = b["argc"]
        self.ltypes = {l["i"]: l["ty"] for l in b["locals"]}
        self.dbg = {}
        self.upvar_names = {}
        for d in b["debug"]:
            v = d["v"]
            if "l" in v:
                if not v["p"]:
                    self.dbg.setdefault(v["l"], d["name"])
                else:
                    # closure upvars:  (*_1).k  or  *((*_1).k)
                    if v["l"] == 1:
                        for e in v["p"]:
                            if e["k"] == "field":
                                self.upvar_names[e["i"]] = d["name"]
                                break
        self._succ = {}
        self._pred = collections.defaultdict(list)
        for i, x in self.blocks.items():
            s = self._succs_of(x)
            self._succ[i] = s
        for i, ss in self._succ.items():
            for s in ss:
                self._pred[s].append(i)
        self.defs = collections.defaultdict(list)
        for i, x in self.blocks.items():
            if x["cleanup"]:
                continue
            for n, st in enumerate(x["stmts"]):
                if st["k"] == "assign":
                    pr = st["lhs"]["p"]
                    if pr and pr[0]["k"] == "deref" and self.ltypes.get(st["lhs"]["l"], "").startswith("&"):
                        continue        # a store THROUGH a reference local writes memory; the local keeps its value
                    self.defs[st["lhs"]["l"]].append((i, n, bool(pr)))
            t = x["term"]
            if t["k"] == "call":
                self.defs[t["dest"]["l"]].append((i, "term", bool(t["dest"]["p"])))
        self._dom = None
        self._pdom = None
        self._loops = None
        self._gterm = {}

    # ---- CFG
    @staticmethod
    def _succs_of(blk):
        t = blk["term"]
        k = t["k"]
        if k == "goto":
            return [t["t"]]
        if k == "switch":
            seen = []
            for _, b in t["targets"]:
                if b not in seen:
                    seen.append(b)
            if t["otherwise"] not in seen:
                seen.append(t["otherwise"])
            return seen
        if k in ("call", "drop", "assert"):
            return [t["t"]] if "t" in t else []
        return []

    def succ(self, i):
        return self._succ[i]

    def pred(self, i):
        return self._pred[i]

    def live_blocks(self):
        """blocks reachable from entry (non-cleanup)"""
        return self.reach(0)

    def reach(self, start, removed=(), stop=()):
        seen = set()
        st = [start] if not isinstance(start, (list, set, tuple)) else list(start)
        removed = set(removed)
        stop = set(stop)
        while st:
            n = st.pop()
            if n in seen or n in removed:
                continue
            seen.add(n)
            if n in stop:
                continue
            for s in self._succ[n]:
                st.append(s)
        return seen

    def reach_strict(self, start, removed=(), stop=()):
        """blocks reachable from the successors of start (start itself only if on a cycle)"""
        out = set()
        for s in self._succ[start]:
            out |= self.reach(s, removed, stop)
        return out

    def idoms(self):
        """immediate dominators (Cooper-Harvey-Kennedy)"""
        if self._dom is not None:
            return self._dom
        order = self._rpo()
        num = {n: i for i, n in enumerate(order)}
        idom = {0: 0}
        changed = True
        while changed:
            changed = False
            for n in order:
                if n == 0:
                    continue
                new = None
                for p in self._pred[n]:
                    if p in idom and p in num:
                        if new is None:
                            new = p
                        else:
                            a, b2 = p, new
                            while a != b2:
                                while num[a] > num[b2]:
                                    a = idom[a]
                                while num[b2] > num[a]:
                                    b2 = idom[b2]
                            new = a
                if new is not None and idom.get(n) != new:
                    idom[n] = new
                    changed = True
        self._dom = idom
        return idom

    def dominators(self):
        """block -> set of its dominators (materialised lazily; avoid on very large bodies)"""
        if getattr(self, "_domsets", None) is None:
            idom = self.idoms()
            sets = {}
            for n in self._rpo():
                if n == 0:
                    sets[n] = {0}
                elif n in idom:
                    sets[n] = sets[idom[n]] | {n}
            self._domsets = sets
        return self._domsets

    def _rpo(self):
        seen = set()
        order = []

        def dfs(n):
            stack = [(n, iter(self._succ[n]))]
            seen.add(n)
            while stack:
                node, it = stack[-1]
                adv = False
                for s in it:
                    if s not in seen:
                        seen.add(s)
                        stack.append((s, iter(self._succ[s])))
                        adv = True
                        break
                if not adv:
                    order.append(node)
                    stack.pop()
        dfs(0)
        order.reverse()
        return order

    def dominates(self, a, b):
        idom = self.idoms()
        if b not in idom:
            return False
        while True:
            if a == b:
                return True
            if b == 0:
                return False
            b = idom[b]

    def exits(self):
        return [i for i in self.live_blocks() if self.blocks[i]["term"]["k"] == "return"]

    def postdominators(self):
        """post-dominators w.r.t. normal returns (diverging blocks are ignored as exits)"""
        if self._pdom is not None:
            return self._pdom
        nodes = sorted(self.live_blocks())
        exits = set(self.exits())
        pd = {n: set(nodes) for n in nodes}
        for e in exits:
            pd[e] = {e}
        changed = True
        while changed:
            changed = False
            for n in reversed(self._rpo()):
                if n in exits:
                    continue
                ss = [s for s in self._succ[n] if s in pd and self._can_return(s)]
                if not ss:
                    continue
                new = set.intersection(*(pd[s] for s in ss)) | {n}
                if new != pd[n]:
                    pd[n] = new
                    changed = True
        self._pdom = pd
        return pd

    def _can_return(self, n):
        if not hasattr(self, "_canret"):
            exits = self.exits()
            can = set()
            st = list(exits)
            while st:
                x = st.pop()
                if x in can:
                    continue
                can.add(x)
                st.extend(self._pred[x])
            self._canret = can
        return n in self._canret

    def loops(self):
        """natural loops: header -> set(body blocks)"""
        if self._loops is not None:
            return self._loops
        dom = self.idoms()
        loops = {}
        for u in dom:
            for h in self._succ[u]:
                if h in dom and self.dominates(h, u):
                    body = loops.setdefault(h, {h})
                    st = [u]
                    while st:
                        x = st.pop()
                        if x in body:
                            continue
                        body.add(x)
                        st.extend(p for p in self._pred[x] if p in dom)
        self._loops = loops
        return loops

    def loop_exits(self, h):
        body = self.loops()[h]
        out = []
        for n in body:
            for s in self._succ[n]:
                if s not in body:
                    out.append((n, s))
        return out

    def exhaustion_exit(self, h):
        """exit edge (src, tgt) taken when the loop's own test fails (iterator exhausted / while condition false):
        the exit whose source is the first branching block reached from the header in a straight line. None for
        `loop {}` (all exits are breaks)."""
        body = self.loops()[h]
        n = h
        seen = set()
        while n not in seen:
            seen.add(n)
            ss = [x for x in self._succ[n]]
            real = [x for x in ss if not (self.blocks[x]["term"]["k"] == "unreachable" and not self.blocks[x]["stmts"])]
            if len(real) > 1:
                outs = [x for x in real if x not in body]
                if len(outs) == 1:
                    return (n, outs[0])
                return None
            if len(real) != 1 or real[0] not in body:
                return None
            n = real[0]
        return None

    def after_loop_region(self, h):
        """blocks outside loop h that are reachable from its exhaustion exit (bounded by enclosing loop headers);
        blocks outside the loop and outside this region that are reachable from other exits are *break arms*."""
        if not hasattr(self, "_after"):
            self._after = {}
        if h not in self._after:
            ex = self.exhaustion_exit(h)
            if ex is None:
                self._after[h] = set()
            else:
                enclosing = [hh for hh, blks in self.loops().items() if hh != h and h in blks]
                self._after[h] = self.reach(ex[1], stop=enclosing) - set(self.loops()[h])
        return self._after[h]

    def is_break_arm(self, h, blk):
        return blk not in self.loops()[h] and blk not in self.after_loop_region(h) and bool(self.after_loop_region(h))

    def loop_assigned_locals(self, h):
        body = self.loops()[h]
        ls = set()
        for n in body:
            blk = self.blocks[n]
            for st in blk["stmts"]:
                if st["k"] == "assign":
                    ls.add(st["lhs"]["l"])
                elif st["k"] == "setdiscr":
                    ls.add(st["lhs"]["l"])
            t = blk["term"]
            if t["k"] == "call":
                ls.add(t["dest"]["l"])
        return ls

    def loop_readonly(self, h):
        """True when nothing in the loop can write memory other than the loop's own locals: no store through a
        pointer, no call that is handed a `&mut` (other than stepping an iterator) or a closure capturing by `&mut`"""
        cache = self.__dict__.setdefault("_loop_ro", {})
        if h in cache:
            return cache[h]
        ok = True
        for n in self.loops()[h]:
            blk = self.blocks[n]
            if blk.get("cleanup"):
                continue
            for st in blk["stmts"]:
                if st["k"] in ("assign", "setdiscr") and any(e["k"] == "deref" for e in st["lhs"]["p"]):
                    ok = False
                if st["k"] == "assign" and st["rv"]["k"] == "agg" and st["rv"].get("agg") == "closure":
                    # a closure built in the loop: its captures by &mut are writes when it is called
                    for o in st["rv"]["ops"]:
                        if o["k"] in ("copy", "move") and not o["place"]["p"] and self.ltypes.get(o["place"]["l"], "").startswith("&mut"):
                            ok = False
            t = blk["term"]
            if t["k"] == "call":
                if any(e["k"] == "deref" for e in t["dest"]["p"]):
                    ok = False
                name = norm_callee(t)
                m = method_name(name)
                for aty in t.get("argtys", []):
                    if aty.startswith("&mut") and m not in ("next", "next_back"):
                        ok = False
        cache[h] = ok
        return ok

    def innermost_loop(self, n):
        best = None
        for h, body in self.loops().items():
            if n in body and (best is None or len(body) < len(self.loops()[best])):
                best = h
        return best

    # ---- calls
    def calls(self, pred=None):
        out = []
        for i in sorted(self.live_blocks()):
            t = self.blocks[i]["term"]
            if t["k"] == "call":
                name = norm_callee(t)
                if pred is None or pred(name, t):
                    out.append((i, name, t))
        return out

    def name_of(self, l):
        return self.dbg.get(l, "")

    # ---- global (flow-insensitive) terms for single-definition locals
    def gterm_local(self, l, depth=0):
        if l in self._gterm:
            return self._gterm[l]
        if depth > 40:
            return T("deep")
        if 1 <= l <= self.argc:
            r = T("param", l, self.dbg.get(l, ""))
            self._gterm[l] = r
            return r
        ds = [d for d in self.defs.get(l, [])]
        whole = [d for d in ds if not d[2]]
        if len(ds) != 1 or len(whole) != 1:
            r = T("var", l, self.dbg.get(l, ""), 0)
            self._gterm[l] = r
            return r
        bb, n, _ = whole[0]
        ev = Evaluator(self, None, depth + 1)
        if n == "term":
            r = ev.call_term(self.blocks[bb]["term"], bb)
        else:
            r = ev.rvalue(self.blocks[bb]["stmts"][n]["rv"])
        # a single-assignment local whose value was computed from a re-assignable variable is a SNAPSHOT of that
        # variable: expanding it at a use far from its definition would pretend the variable is read there.
        # Only compiler temporaries used in the block that defines them are expanded.
        scalar = re.match(r"^(bool|char|[iu](8|16|32|64|128|size)|f32|f64)$", self.ltypes.get(l, ""))
        if _reads_variable(r) and scalar:
            if not self._used_only_in_block(l, bb):
                r = T("var", l, self.dbg.get(l, ""), 0)
        elif scalar and self.dbg.get(l) and _reads_memory(r, self) and self._used_in_a_loop_that_does_not_define(l, bb):
            # a named scalar computed from memory (a length, an element) BEFORE a loop and used inside it is a snapshot
            # too: the memory may be written by the loop between iterations
            r = T("var", l, self.dbg.get(l, ""), 0)
        self._gterm[l] = r
        return r

    def _used_in_a_loop_that_does_not_define(self, l, bb):
        self._used_only_in_block(l, bb)     # fills _use_blocks
        uses = self._use_blocks.get(l, set())
        for h, blks in self.loops().items():
            if bb not in blks and any(u in blks for u in uses):
                if not self.loop_readonly(h):
                    return True
        return False

    def _used_only_in_block(self, l, bb):
        if not hasattr(self, "_use_blocks"):
            ub = collections.defaultdict(set)

            def place(p, i):
                ub[p["l"]].add(i)
                for e in p["p"]:
                    if e["k"] == "index":
                        ub[e["local"]].add(i)

            def op(o, i):
                if o["k"] in ("copy", "move"):
                    place(o["place"], i)
            for i, x in self.blocks.items():
                if x["cleanup"]:
                    continue
                for st in x["stmts"]:
                    if st["k"] == "assign":
                        rv = st["rv"]
                        k = rv["k"]
                        if k in ("use", "cast"):
                            op(rv["op"], i)
                        elif k in ("ref", "rawptr", "copyderef", "discr"):
                            place(rv["place"], i)
                        elif k == "binop":
                            op(rv["a"], i)
                            op(rv["b"], i)
                        elif k == "unop":
                            op(rv["a"], i)
                        elif k == "agg":
                            for o in rv["ops"]:
                                op(o, i)
                        if st["lhs"]["p"]:
                            place(st["lhs"], i)
                t = x["term"]
                if t["k"] == "call":
                    for a in t["args"]:
                        op(a, i)
                elif t["k"] == "switch":
                    op(t["discr"], i)
                elif t["k"] == "assert":
                    op(t["cond"], i)
                elif t["k"] == "drop":
                    pass
            self._use_blocks = ub
        return self._use_blocks.get(l, set()) <= {bb}


# --------------------------------------------------------------------------
# evaluation of operands / rvalues into terms

ENUMS = {}   # enum type string -> (variant names, discriminant values), filled while evaluating
_OPTION_TRIES = set()   # terms (try x) where x is an Option: `x?` is read as the match on x it abbreviates

STD_ENUMS = {
    "std::option::Option": ["None", "Some"],
    "std::result::Result": ["Ok", "Err"],
    "std::ops::ControlFlow": ["Continue", "Break"],
}


class Evaluator:
    def __init__(self, body, env, depth=0):
        self.body = body
        self.env = env  # dict local->term or None (global mode)
        self.mem = {}   # place-term -> stored term (path-local field stores)
        self.depth = depth
        self.versions = collections.Counter()

    def local(self, l):
        if self.env is not None and l in self.env:
            return self.env[l]
        return self.body.gterm_local(l, self.depth)

    def place(self, p):
        t = self.local(p["l"])
        for e in p["p"]:
            k = e["k"]
            if k == "deref":
                t = self._deref(t)
            elif k == "field":
                t = self._field(t, e["name"] or str(e["i"]), e["i"])
            elif k == "downcast":
                t = T("variant", t, e["name"] or str(e["variant"]))
            elif k == "index":
                t = T("index", t, self.local(e["local"]))
            elif k == "constindex":
                t = T("index", t, T("const", T("int", (-1 - e["offset"]) if e["from_end"] else e["offset"], 8)))
            else:
                t = T("proj?", t)
        if self.mem and t in self.mem:
            return self.mem[t]
        return t

    @staticmethod
    def _deref(t):
        return t  # references are transparent

    def _field(self, t, name, idx):
        # projections out of known aggregates / tuples
        if isinstance(t, tuple) and t:
            if t[0] == "agg" and idx < len(t[3]) and (len(t) < 5 or True):
                fn = t[4] if len(t) > 4 else None
                if fn and name in fn:
                    return t[3][fn.index(name)]
                if not fn:
                    return t[3][idx]
            if t[0] == "tuple" and idx < len(t[1]):
                return t[1][idx]
            if t[0] == "closure" and idx < len(t[2]):
                return t[2][idx]      # a captured value read through the closure's environment
            if t[0] == "variant" and isinstance(t[1], tuple):
                inner = t[1]
                # ((next it) as Some).0 -> elem
                if inner and inner[0] == "next" and t[2] == "Some" and idx == 0:
                    return T("elem", inner[1], inner[2])
                sp = _split_call(inner)
                if sp is not None and t[2] == "Some" and idx == 0:
                    # xs.split_last() = Some((&xs[len-1], &xs[0..len-1]));  xs.split_first() = Some((&xs[0], &xs[1..]))
                    xs = sp[1]
                    one = T("const", T("int", 1, "usize"))
                    if sp[0] == "last":
                        return T("index", xs, T("binop", "Sub", T("len", xs), one))      # xs.last() = Some(&xs[len-1])
                    if sp[0] == "first":
                        return T("index", xs, T("const", T("int", 0, "usize")))
                    if sp[0] == "split_last":
                        end = T("binop", "Sub", T("len", xs), one)
                        return T("tuple", (T("index", xs, end), T("index", xs, T("agg", "std::ops::Range", "Range", (T("const", T("int", 0, "usize")), end), ("start", "end")))))
                    return T("tuple", (T("index", xs, T("const", T("int", 0, "usize"))), T("index", xs, T("agg", "std::ops::RangeFrom", "RangeFrom", (one,), ("start",)))))
                if inner and inner[0] == "try" and idx == 0 and t[2] == "Continue" and inner in _OPTION_TRIES:
                    return self._field(T("variant", inner[1], "Some"), "0", 0)       # the payload of `opt?` is the payload of Some
                if inner and inner[0] == "try" and idx == 0:
                    src = inner[1]
                    if t[2] == "Continue" and isinstance(src, tuple) and src and src[0] == "agg" and len(src) > 3 and src[2] in ("Ok", "Some") and src[3]:
                        return src[3][0]          # `?` on a freshly built Ok(x) / Some(x) is x
                    return T("okval" if t[2] == "Continue" else "residual", src)
                if inner and inner[0] == "agg" and inner[2] == t[2]:
                    fn = inner[4] if len(inner) > 4 else None
                    if fn and name in fn:
                        return inner[3][fn.index(name)]
                    if idx < len(inner[3]):
                        return inner[3][idx]
            if t[0] == "closure_env":
                # upvar idx of a closure body: resolved by the caller through substitution
                return T("upvar", idx, self.body.upvar_names.get(idx, ""))
            if t[0] == "overflow" and idx == 0:
                return fold_binop(t[1], t[2], t[3])
            if t[0] == "overflow" and idx == 1:
                return T("overflowed", t[1], t[2], t[3])
        return T("field", t, name)

    def operand(self, o):
        k = o["k"]
        if k in ("copy", "move"):
            return self.place(o["place"])
        if k == "const":
            c = o["c"]
            if "str" in c:
                return T("const", T("str", c["str"]))
            if "bytes" in c:
                return T("const", T("bytes", c["bytes"]))
            if "fn" in c:
                return T("const", T("fn", c["fn"]))
            if c.get("disp", "").endswith("]") and "::promoted[" in c.get("disp", ""):
                r = self._promoted(c["disp"])
                if r is not None:
                    return r
            if "bits" in c:
                ty = c["ty"]
                bits = int(c["bits"])
                size = c.get("size", 0)
                if ty in ("i8", "i16", "i32", "i64", "i128", "isize") and size:
                    if bits >= 1 << (8 * size - 1):
                        bits -= 1 << (8 * size)
                if ty in ("bool", "char") or re.match(r"^[iu](8|16|32|64|128|size)$", ty):
                    return T("const", T("int", bits, ty))
                return T("const", T("val", c["disp"], bits, ty))
            return T("const", T("val", c["disp"], None, c["ty"]))
        return T("?")

    def rvalue(self, rv):
        k = rv["k"]
        if k == "use":
            return self.operand(rv["op"])
        if k in ("ref", "rawptr", "copyderef"):
            return self.place(rv["place"])
        if k == "cast":
            inner = self.operand(rv["op"])
            if rv["kind"].startswith("PointerCoercion"):
                return inner
            ci = const_int(inner)
            if ci is not None and rv["kind"] == "IntToInt" and re.match(r"^[iu](8|16|32|64|128|size)$", rv["ty"]):
                return T("const", T("int", _wrap_int(ci, rv["ty"]), rv["ty"]))
            return T("cast", inner, rv["ty"])
        if k == "discr":
            ty = rv.get("ty", "")
            if rv.get("variants"):
                ENUMS[ty] = (tuple(rv["variants"]), tuple(rv.get("discrs", ())))
            return T("discr", self.place(rv["place"]), ty)
        if k == "binop":
            a = self.operand(rv["a"])
            b = self.operand(rv["b"])
            op = rv["op"]
            if op.endswith("WithOverflow"):
                return T("overflow", op[:-len("WithOverflow")], a, b)
            # len(x) compared with 0/1  ==  emptiness atom
            em = _len_cmp_as_empty(op, a, b)
            if em is not None:
                return em
            if op == "Eq":
                ca, cb = const_int(a), const_int(b)
                if ca is not None and cb is not None:
                    return T("const", T("int", int(ca == cb), "bool"))
                return mk_eq(a, b)
            if op == "Ne":
                ca, cb = const_int(a), const_int(b)
                if ca is not None and cb is not None:
                    return T("const", T("int", int(ca != cb), "bool"))
                return mk_not(mk_eq(a, b))
            return fold_binop(op, a, b)
        if k == "unop":
            a = self.operand(rv["a"])
            if rv["op"] == "Not":
                ty = None
                return mk_not(a)
            if rv["op"] == "PtrMetadata":
                return T("len", a)
            return T("unop", rv["op"], a)
        if k == "agg":
            ops = tuple(self.operand(o) for o in rv["ops"])
            if rv["agg"] == "adt":
                return T("agg", rv["adt"], rv["vname"], ops, tuple(rv.get("fnames", ())))
            if rv["agg"] == "closure":
                muts = []
                for o in rv["ops"]:
                    m = False
                    if o["k"] in ("copy", "move") and not o["place"]["p"]:
                        m = self.body.ltypes.get(o["place"]["l"], "").startswith("&mut")
                    muts.append(m)
                return T("closure", rv["def"], ops, tuple(muts))
            if rv["agg"] == "tuple":
                return T("tuple", ops)
            return T("array", ops)
        return T("rv?", rv.get("dbg", "")[:40])

    def _promoted(self, path):
        """value of a promoted constant: the return term of its tiny body"""
        facts = self.body.facts
        if facts is None or path not in facts.bodies:
            return None
        key = ("promoted", id(facts), path)
        if key not in _CLOSURE_BODIES:
            pb = _closure_body(facts, path)
            val = None
            try:
                ps = [p for p in Walker(pb, max_paths=20).walk(0) if p.outcome[0] == "return"]
                if len(ps) == 1 and not any(e.kind in ("guard", "call") and not (e.kind == "call" and method_name(e.a) in ("deref",)) for e in ps[0].events):
                    val = ps[0].outcome[1]
            except TooManyPaths:
                val = None
            _CLOSURE_BODIES[key] = val
        return _CLOSURE_BODIES[key]

    def _any_as_membership(self, it, clos):
        """xs.iter().any(|x| x == k)  ==  k in xs"""
        facts = self.body.facts
        if facts is None or clos[1] not in facts.bodies:
            return None
        if not (isinstance(it, tuple) and it and it[0] == "iter"):
            return None
        cb = _closure_body(facts, clos[1])
        try:
            ps = [p for p in Walker(cb, max_paths=50).walk(0) if p.outcome[0] == "return"]
        except TooManyPaths:
            return None
        if len(ps) != 1 or any(e.kind == "guard" for e in ps[0].events):
            return None
        r = subst(ps[0].outcome[1], closure_upvar_map(cb, clos))
        if not (isinstance(r, tuple) and r and r[0] == "eq"):
            return None
        x = T("param", 2, cb.dbg.get(2, ""))
        a, b = strip(r[1]), strip(r[2])
        if a == x and not mentions(b, x):
            return T("in", b, strip(it[1]))
        if b == x and not mentions(a, x):
            return T("in", a, strip(it[1]))
        return None

    def call_term(self, t, blk):
        name = norm_callee(t)
        args = tuple(self.operand(a) for a in t["args"])
        return self.mk_call(name, args, t, blk)

    def mk_call(self, name, args, t, blk):
        m = method_name(name)
        if any(name.endswith(s) for s in _PURE_ID) and len(args) == 1:
            return args[0]
        if m == "clone" and len(args) == 1:
            return T("clone", args[0])
        # arithmetic on (references to) primitive integers through the operator traits: `i + 1` with i: &usize
        mo = re.match(r"^<&?(?:'\w+ )?(usize|u8|u16|u32|u64|isize|i8|i16|i32|i64) as std::ops::(Add|Sub|Mul)<&?(?:usize|u8|u16|u32|u64|isize|i8|i16|i32|i64)>>::(add|sub|mul)$", name)
        if mo and len(args) == 2:
            return T("binop", mo.group(2), strip(args[0]), strip(args[1]))
        if m == "contains" and len(args) == 2 and (is_slice_method(name, "contains") or "Vec" in name or "HashSet" in name or "BTreeSet" in name):
            return T("in", strip(args[1]), strip(args[0]))
        if m == "any" and len(args) == 2 and "Iterator" in name and isinstance(args[1], tuple) and args[1] and args[1][0] == "closure":
            r = self._any_as_membership(args[0], args[1])
            if r is not None:
                return r
        if m == "eq" and len(args) == 2 and "PartialEq" in name:
            return mk_eq(args[0], args[1])
        if m == "ne" and len(args) == 2 and "PartialEq" in name:
            return mk_not(mk_eq(args[0], args[1]))
        if m == "len" and len(args) == 1:
            return T("len", args[0])
        if m == "is_empty" and len(args) == 1:
            return T("empty", args[0])
        if m == "into_iter" and len(args) == 1:
            a = args[0]
            if isinstance(a, tuple) and a and a[0] in ("iter", "rev", "adapt"):
                return a
            return T("iter", a, "fwd")
        if m == "iter" and len(args) == 1 and ("slice" in name or "Vec" in name):
            return T("iter", args[0], "fwd")
        if m == "rev" and len(args) == 1 and "Iterator" in name or name == "std::iter::Iterator::rev":
            a = args[0]
            if isinstance(a, tuple) and a and a[0] == "iter":
                return T("iter", a[1], "rev" if a[2] == "fwd" else "fwd")
            return T("iter", a, "rev")
        if m == "next" and len(args) == 1 and "Iterator" in name:
            return T("next", args[0], blk)
        if m == "index" and len(args) == 2 and "Index" in name:
            return T("index", args[0], args[1])
        if m == "index_mut" and len(args) == 2 and "IndexMut" in name:
            return T("index", args[0], args[1])
        if m == "branch" and "Try" in name:
            if name.startswith("<std::option::Option<"):
                _OPTION_TRIES.add(T("try", args[0]))      # `opt?`: Continue <=> Some, Break <=> None (see _switch_edges/_field)
            return T("try", args[0])
        if m == "from_residual":
            return T("from_residual", args[0])
        if m == "from" and len(args) == 1 and name.startswith("<T as std::convert::From<T>>"):
            return args[0]
        if self._is_pure(name):
            # a NEW pure predicate (not a function of the pinned tree) whose body is one expression is that expression:
            #   fn is_claimed(state, k) -> bool { state.active_mappings.iter().any(|m| m.from.contains(k) || m.to.contains(k)) }
            v = self._new_pure_value(name, args)
            if v is not None:
                return v
            # the same pure predicate asked about the same arguments is ONE atom, wherever it is asked
            return T("call", name, args, None)
        if m in ("any", "all", "find", "position", "rposition") and "Iterator" in name and len(args) == 2 and isinstance(args[1], tuple) and args[1] and args[1][0] == "closure" \
                and not any(args[1][3]) and self._closure_is_pure(args[1][1]):
            # xs.iter().any(|x| pure(x, captures)) is a function of xs and the captures
            return T("call", name, args, None)
        return T("call", name, args, blk)

    def _new_pure_value(self, name, args):
        facts = self.body.facts
        if not Walker.AUTO_INLINE or facts is None or name not in facts.bodies or "{closure" in name or self.depth > 3:
            return None
        from . import splice
        known = splice.known_functions()
        if not known or name in known:
            return None
        key = ("purevalue", id(facts), name)
        if key not in _CLOSURE_BODIES:
            val = None
            try:
                cb = _closure_body(facts, name)
                if not cb.loops() and len(cb.blocks) <= 40:
                    ps = [p for p in Walker(cb, max_paths=50, depth=self.depth + 1).walk(0) if p.outcome[0] not in ("unreachable", "infeasible")]
                    if len(ps) == 1 and ps[0].outcome[0] == "return" and not [e for e in ps[0].events if e.kind in ("guard", "store", "loop")] \
                            and not [e for e in ps[0].events if e.kind == "call" and e.d]:
                        val = (ps[0].outcome[1], cb)
            except Exception:
                val = None
            _CLOSURE_BODIES[key] = val
        val = _CLOSURE_BODIES[key]
        if val is None:
            return None
        r, cb = val
        if not isinstance(r, tuple):
            return r
        m = {T("param", i + 1, cb.dbg.get(i + 1, "")): a for i, a in enumerate(args)}
        return subst(r, m)

    def _closure_is_pure(self, path):
        facts = self.body.facts
        if facts is None or path not in facts.bodies:
            return False
        cache = getattr(facts, "_pure_closures", None)
        if cache is None:
            cache = {}
            facts._pure_closures = cache
        if path not in cache:
            calls, writes = _scan_calls_writes(facts.bodies[path])
            ok = not writes
            for c in calls:
                if not (_PURE_STD.search(c) or self._is_pure(c)):
                    ok = False
            cache[path] = ok
        return cache[path]

    def _is_pure(self, name):
        if name.startswith("core::str::<impl str>::") or name.startswith("core::char::methods::<impl char>::") or name.startswith("std::char::methods::<impl char>::"):
            return True
        facts = self.body.facts
        if facts is None:
            return False
        pure = getattr(facts, "_pure_fns", None)
        if pure is None:
            pure = _pure_local_predicates(facts)
            facts._pure_fns = pure
        return name in pure


_PURE_STD = re.compile(r"(::contains|::eq|::ne|::len|::is_empty|::iter|::into_iter|::next|::deref|::index|::rev|::any|::all|::as_str|::as_slice|::clone|::cmp|::partial_cmp|::lt|::le|::gt|::ge|::starts_with|::ends_with|::is_control|::first|::last|::get)$")


def _scan_calls_writes(b):
    calls = set()
    writes = False
    for blk in b["blocks"]:
        if blk["cleanup"]:
            continue
        for st in blk["stmts"]:
            if st["k"] == "assign" and any(e["k"] == "deref" for e in st["lhs"]["p"]):
                writes = True
            if st["k"] == "assign" and st["rv"]["k"] == "agg" and st["rv"].get("agg") == "closure":
                calls.add(st["rv"]["def"])
        t = blk["term"]
        if t["k"] == "call":
            calls.add(t["callee"].get("resolved") or t["callee"].get("path") or "indirect")
            for a in t["args"]:
                if a["k"] == "const" and "fn" in a["c"]:
                    calls.add(a["c"]["fn"])
    return calls, writes


def _reads_memory(t, body=None):
    """does the term read memory that can be written later?  (fields/lengths/elements below a `&mut` parameter or a
    re-assignable local; what hangs off a shared `&T` parameter cannot change)"""
    def mutable_root(x):
        while isinstance(x, tuple) and x and x[0] in ("field", "index", "len", "clone", "iter", "elem", "empty", "cast"):
            x = x[1]
        if isinstance(x, tuple) and x and x[0] == "param":
            ty = body.ltypes.get(x[1], "") if body is not None else "&mut"
            return ty.startswith("&mut") or not ty.startswith("&")
        return isinstance(x, tuple) and bool(x) and x[0] in ("var", "loopvar")
    for s_ in subterms(t):
        if isinstance(s_, tuple) and s_ and s_[0] in ("len", "index", "empty") and mutable_root(s_[1]):
            return True
        if isinstance(s_, tuple) and s_ and s_[0] == "in" and mutable_root(s_[2]):
            return True
    return False


def _pure_local_predicates(facts):
    """crate-local functions that return bool, take no `&mut` parameter, write through no pointer and whose bodies
    (transitively) only call other such functions or read-only std accessors: their result is a function of their
    arguments, so two calls with equal argument terms are one atom"""
    data = facts.bodies if isinstance(facts.bodies, dict) else {}
    cand = {}
    clos = {}
    for p, b in data.items():
        if "::promoted[" in p:
            continue
        calls, writes = _scan_calls_writes(b)
        if writes:
            continue
        if "{closure" in p:
            clos[p] = calls
            continue
        tys = {l["i"]: l["ty"] for l in b["locals"]}
        if tys.get(0) != "bool":
            continue
        if any(tys.get(i, "").startswith("&mut") for i in range(1, b["argc"] + 1)):
            continue
        cand[p] = calls
    pure = set(cand) | set(clos)
    changed = True
    while changed:
        changed = False
        for p in list(pure):
            for c in cand.get(p, clos.get(p, set())):
                if c in pure or _PURE_STD.search(c):
                    continue
                pure.discard(p)
                changed = True
                break
    return {p for p in pure if p in cand}


_CLOSURE_BODIES = {}


def _closure_body(facts, path):
    key = (id(facts), path, Walker.AUTO_INLINE)
    if key not in _CLOSURE_BODIES:
        _CLOSURE_BODIES[key] = Body(facts.bodies[path], facts)
    return _CLOSURE_BODIES[key]


# --------------------------------------------------------------------------
# path walker

class Ev:
    __slots__ = ("kind", "blk", "a", "b", "c", "d", "span")

    def __init__(self, kind, blk, a=None, b=None, c=None, d=None, span=None):
        self.kind = kind
        self.blk = blk
        self.a = a
        self.b = b
        self.c = c
        self.d = d
        self.span = span

    def __repr__(self):
        if self.kind == "guard":
            return "guard[%s = %s]" % (show(self.a), self.b)
        if self.kind == "call":
            return "call[%s(%s)]@%s" % (_last(self.a, 2), ", ".join(show(x) for x in self.b), self.span)
        if self.kind == "store":
            return "store[%s := %s]" % (show(self.a), show(self.b))
        if self.kind == "set":
            return "set[%s := %s]" % (self.c or self.a, show(self.b))
        if self.kind == "loop":
            return "loop[bb%d]" % self.a
        return "%s[%s]" % (self.kind, self.a)


class PathResult:
    __slots__ = ("events", "outcome", "env", "blocks")

    def __init__(self, events, outcome, env, blocks):
        self.events = events
        self.outcome = outcome
        self.env = env
        self.blocks = blocks

    def guards(self):
        return [(e.a, e.b) for e in self.events if e.kind == "guard"]

    def calls(self, pred=None):
        return [e for e in self.events if e.kind == "call" and (pred is None or pred(e))]

    def __repr__(self):
        return "Path(%s -> %s)" % (" ; ".join(repr(e) for e in self.events), self.outcome)


class TooManyPaths(Exception):
    pass


class Walker:
    """Enumerates the acyclic paths of a region with symbolic terms.

    * compile-time-constant branch conditions (drop flags, literal bools) are followed
      only along the feasible edge;
    * a condition whose term was already decided on the path (and whose inputs were not
      written since) is followed consistently;
    * inner loops are summarised by havoc: every local assigned in the loop becomes an
      opaque `loopvar`, a `loop` event is recorded and the walk continues at each loop
      exit edge (the exit guard is *not* assumed);
    * the walk ends at `return`, at a back edge to the start header, at any block in
      `stops`, or at a diverging call.
    """

    def __init__(self, body, max_paths=20000, inline=None, depth=0):
        self.body = body
        self.max_paths = max_paths
        self.inline = inline or set()     # crate-local callees whose paths are spliced into the caller's paths
        self.depth = depth

    _KNOWN_FUNCTIONS = None
    AUTO_INLINE = True      # rule sets that follow helpers themselves (C20) switch this off while they run

    def _new_helper(self, name):
        """a crate-local function that does not exist on the pinned tree: an extracted helper, walked as part of its
        callers (ledgers/known_functions.json is the list of functions of the pinned tree)"""
        facts = self.body.facts
        if not Walker.AUTO_INLINE or facts is None or name not in facts.bodies or "{closure" in name or name == self.body.path:
            return False
        if Walker._KNOWN_FUNCTIONS is None:
            import json as _json
            import os as _os
            pth = _os.path.join(_os.path.dirname(_os.path.dirname(_os.path.abspath(__file__))), "ledgers", "known_functions.json")
            try:
                with open(pth) as fh:
                    Walker._KNOWN_FUNCTIONS = set(_json.load(fh)["functions"])
            except Exception:
                Walker._KNOWN_FUNCTIONS = set()
        if not Walker._KNOWN_FUNCTIONS or name in Walker._KNOWN_FUNCTIONS:
            return False
        b = facts.bodies[name]
        if len(b["blocks"]) > 250:
            return False
        # pure bool predicates stay atoms (they are expanded on demand, tables.expand_pure)
        pure = getattr(facts, "_pure_fns", None)
        if pure is None:
            pure = _pure_local_predicates(facts)
            facts._pure_fns = pure
        return name not in pure

    def walk(self, start=0, stops=(), env=None, enter_loops=False, start_is_header=None, plain_headers=(), stop_after_loop=False):
        body = self.body
        loops = body.loops()
        if start_is_header is None:
            start_is_header = start in loops
        self.results = []
        self.stops = set(stops)
        self.plain = set(plain_headers)
        self.after = set()
        if stop_after_loop and start_is_header is not False and start in loops:
            self.after = body.after_loop_region(start)
        self.start = start
        self.start_is_header = start_is_header
        env0 = dict(env or {})
        if start_is_header:
            for l in body.loop_assigned_locals(start):
                if l not in env0 and not self._is_single_def_temp_outside(l, start):
                    env0[l] = T("loopvar", start, l, body.name_of(l))
        ev = Evaluator(body, env0)
        self._go(start, ev, [], {}, [start], first=True)
        return self.results

    def _is_single_def_temp_outside(self, l, h):
        return False

    def _finish(self, events, outcome, ev, blocks):
        self.results.append(PathResult(list(events), outcome, dict(ev.env), list(blocks)))
        if len(self.results) > self.max_paths:
            raise TooManyPaths(self.body.path)

    def _fork(self, ev):
        n = Evaluator(ev.body, dict(ev.env))
        n.mem = dict(ev.mem)
        n.versions = collections.Counter(ev.versions)
        return n

    @staticmethod
    def _functional_update(ev, lhs, val):
        """`local.field = v` where the local currently holds a known aggregate: update the aggregate in place"""
        if len(lhs["p"]) != 1 or lhs["p"][0]["k"] != "field":
            return False
        cur = ev.env.get(lhs["l"]) if ev.env is not None else None
        if not (isinstance(cur, tuple) and len(cur) > 4 and cur[0] == "agg"):
            return False
        name = lhs["p"][0].get("name")
        if not name or name not in cur[4]:
            return False
        i = cur[4].index(name)
        ops = list(cur[3])
        ops[i] = val
        ev.env[lhs["l"]] = T("agg", cur[1], cur[2], tuple(ops), cur[4])
        return True

    def _invalidate(self, ev, known, root):
        """a write through `root` happened: forget decided atoms and stored fields that mention it"""
        if root is None:
            return
        for kk in [k for k in known if mentions(k, root)]:
            del known[kk]
        for kk in [k for k in ev.mem if mentions(k, root) or mentions(ev.mem[k], root)]:
            del ev.mem[kk]

    def _go(self, n, ev, events, known, blocks, first=False):
        body = self.body
        loops = body.loops()
        while True:
            if not first:
                if n == self.start and self.start_is_header:
                    self._finish(events, ("backedge", n), ev, blocks)
                    return
                if n in self.stops:
                    self._finish(events, ("stop", n), ev, blocks)
                    return
                if n in self.after:
                    self._finish(events, ("after-loop", n), ev, blocks)
                    return
                if n in self.plain:
                    if n in blocks[:-1]:
                        self._finish(events, ("cycle", n), ev, blocks)
                        return
                elif n in loops and n != self.start:
                    if n in blocks[:-1]:
                        self._finish(events, ("backedge", n), ev, blocks)
                        return
                    if self.start in loops[n]:
                        # header of a loop enclosing the start: `continue` of an outer loop
                        self._finish(events, ("outer-backedge", n), ev, blocks)
                        return
                    # summarise the inner loop
                    events = events + [Ev("loop", n, n)]
                    for l in body.loop_assigned_locals(n):
                        ev.env[l] = T("loopvar", n, l, body.name_of(l))
                    # anything may have been written inside: forget decided memory atoms
                    if not body.loop_readonly(n):
                        known = {k: v for k, v in known.items() if not self._mem_atom(k)}
                        ev.mem = {}
                    exits = body.loop_exits(n)
                    seen_t = []
                    for (src, tgt) in exits:
                        if tgt in seen_t or self._is_unreachable(tgt):
                            continue
                        seen_t.append(tgt)
                    if not seen_t:
                        self._finish(events, ("diverge-loop", n), ev, blocks)
                        return
                    for tgt in seen_t:
                        e2 = self._fork(ev)
                        # assignments on the exiting block edge are lost by havoc; fine (opaque)
                        self._go_after_loop(tgt, e2, list(events) + [Ev("loopexit", n, n, tgt)], dict(known), blocks + [tgt])
                    return
            first = False
            blk = body.blocks[n]
            for st in blk["stmts"]:
                if st["k"] == "assign":
                    val = ev.rvalue(st["rv"])
                    lhs = st["lhs"]
                    if not lhs["p"]:
                        l = lhs["l"]
                        ev.env[l] = val
                        if body.dbg.get(l) and len(body.defs.get(l, ())) > 1:
                            events.append(Ev("set", n, l, val, body.dbg.get(l), span=st["span"]["line"]))
                    else:
                        if self._functional_update(ev, lhs, val):
                            events.append(Ev("store", n, T("field", T("localplace", lhs["l"], body.dbg.get(lhs["l"], "")), lhs["p"][0].get("name") or str(lhs["p"][0].get("i"))), val, span=st["span"]["line"]))
                            continue
                        saved_mem = ev.mem
                        ev.mem = {}
                        pt = ev.place(lhs)
                        ev.mem = saved_mem
                        events.append(Ev("store", n, pt, val, span=st["span"]["line"]))
                        self._invalidate(ev, known, pt)
                        ev.mem[pt] = val
                elif st["k"] == "setdiscr":
                    pt = ev.place(st["lhs"])
                    events.append(Ev("store", n, T("discr", pt), T("const", T("int", st["variant"], "variant"))))
            t = blk["term"]
            k = t["k"]
            if k == "goto":
                n = t["t"]
                blocks = blocks + [n]
                continue
            if k == "return":
                self._finish(events, ("return", ev.local(0)), ev, blocks)
                return
            if k in ("unreachable", "unwind"):
                self._finish(events, ("unreachable",), ev, blocks)
                return
            if k == "drop":
                n = t["t"]
                blocks = blocks + [n]
                continue
            if k == "assert":
                events.append(Ev("assert", n, ev.operand(t["cond"]), t["expected"], t["msg"], span=t["span"]["line"]))
                n = t["t"]
                blocks = blocks + [n]
                continue
            if k == "call":
                name = norm_callee(t)
                args = tuple(ev.operand(a) for a in t["args"])
                res = ev.mk_call(name, args, t, n)
                mut_roots = []
                for a, aty, at in zip(t["args"], t.get("argtys", []), args):
                    if aty.startswith("&mut") and not (isinstance(at, tuple) and at and at[0] == "iter" and re.match(r"&mut (std::iter::Rev<)?std::slice::Iter<", aty)):
                        # (stepping a by-reference slice iterator writes the iterator, not the slice)
                        mut_roots.append(at)
                    if isinstance(at, tuple) and at and at[0] == "closure":
                        for cap, m in zip(at[2], at[3]):
                            if m:
                                mut_roots.append(cap)
                if (name in self.inline or self._new_helper(name)) and self.depth < 3 and body.facts is not None and name in body.facts.bodies and "t" in t:
                    self._inline_call(n, t, name, args, ev, events, known, blocks)
                    return
                if Walker.COMBINATORS_INLINE and self.depth < 3 and body.facts is not None and "t" in t and self._combinator(name, args) is not None:
                    self._inline_combinator(n, t, name, args, ev, events, known, blocks)
                    return
                events.append(Ev("call", n, name, args, res, tuple(mut_roots), span=t["span"]["line"]))
                for r in mut_roots:
                    self._invalidate(ev, known, r)
                dest = t["dest"]
                if not dest["p"]:
                    ev.env[dest["l"]] = res
                    l = dest["l"]
                    if body.dbg.get(l) and len(body.defs.get(l, ())) > 1:
                        events.append(Ev("set", n, l, res, body.dbg.get(l), span=t["span"]["line"]))
                else:
                    saved_mem = ev.mem
                    ev.mem = {}
                    pt = ev.place(dest)
                    ev.mem = saved_mem
                    events.append(Ev("store", n, pt, res, span=t["span"]["line"]))
                    self._invalidate(ev, known, pt)
                    ev.mem[pt] = res
                if "t" not in t:
                    self._finish(events, ("diverge", name), ev, blocks)
                    return
                n = t["t"]
                blocks = blocks + [n]
                continue
            if k == "switch":
                d = ev.operand(t["discr"])
                dty = None
                if t["discr"]["k"] in ("copy", "move") and not t["discr"]["place"]["p"]:
                    dty = body.ltypes.get(t["discr"]["place"]["l"])
                edges = self._switch_edges(d, dty, t)
                # constant?
                ci = const_int(d)
                if ci is None:
                    ci = self._known_discr(d)
                feasible = []
                for (atom, val, tgt, rawvals) in edges:
                    if ci is not None:
                        if rawvals[0] == "eq" and rawvals[1] != ci:
                            continue
                        if rawvals[0] == "other" and ci in rawvals[1]:
                            continue
                        feasible.append((None, None, tgt))
                        continue
                    if atom in known:
                        if not self._compatible(known[atom], val):
                            continue
                    if not self._int_feasible(atom, val, known):
                        continue
                    feasible.append((atom, val, tgt))
                if not feasible:
                    self._finish(events, ("infeasible",), ev, blocks)
                    return
                if len(feasible) == 1:
                    atom, val, tgt = feasible[0]
                    if atom is not None and atom not in known:
                        events.append(Ev("guard", n, atom, val))
                        known[atom] = val
                        self._int_learn(atom, val, known)
                    elif atom is not None and isinstance(val, tuple) and val and val[0] == "other":
                        pass
                    n = tgt
                    blocks = blocks + [n]
                    continue
                for atom, val, tgt in feasible:
                    e2 = self._fork(ev)
                    ev2 = list(events)
                    k2 = dict(known)
                    if atom is not None:
                        ev2.append(Ev("guard", n, atom, val))
                        k2[atom] = val
                        self._int_learn(atom, val, k2)
                    self._go(tgt, e2, ev2, k2, blocks + [tgt])
                return
            self._finish(events, ("unknown-terminator", k), ev, blocks)
            return

    def _inline_call(self, n, t, name, args, ev, events, known, blocks, wrap=None):
        """splice every path of the crate-local callee into the caller's path (P2: inlined supergraph).
        Callee-local variables and call sites are re-tagged so that they cannot collide with the caller's."""
        body = self.body
        cb = _closure_body(body.facts, name)
        env0 = {i + 1: a for i, a in enumerate(args)}
        if "{closure" in name and len(args) == 2 and isinstance(args[1], tuple) and args[1] and args[1][0] == "tuple":
            # calling a closure: (environment, (a, b, ..)) -- the argument tuple is spread over the parameters
            env0 = {1: args[0]}
            for i, a in enumerate(args[1][1]):
                env0[i + 2] = a
        sub = Walker(cb, max_paths=self.max_paths, inline=self.inline, depth=self.depth + 1)
        cpaths = sub.walk(0, env=env0)
        tag = ("inl", name, n)

        def retag(x):
            if not isinstance(x, tuple) or not x:
                return x
            if x[0] in ("var",) and not (isinstance(x[1], tuple) and x[1] and x[1][0] == "inl"):
                return T("var", (tag, x[1]), x[2], x[3])
            if x[0] == "loopvar" and not (isinstance(x[1], tuple)):
                return T("loopvar", (tag, x[1]), x[2], x[3])
            if x[0] == "call" and len(x) > 3 and x[3] is not None and not isinstance(x[3], tuple):
                return T("call", x[1], tuple(retag(a) for a in x[2]), (tag, x[3]))
            if x[0] in ("next", "elem") and len(x) > 2 and not isinstance(x[2], tuple):
                return T(x[0], retag(x[1]), (tag, x[2]))
            return tuple(retag(a) if isinstance(a, tuple) else a for a in x)
        # arguments are caller terms and must not be re-tagged: protect them by substitution afterwards is not
        # possible in general, so re-tag only sub-terms that do not occur in the arguments
        argset = set()
        for a in args:
            for s_ in subterms(a):
                argset.add(s_)

        def retag_safe(x):
            if not isinstance(x, tuple) or not x:
                return x
            if x in argset:
                return x
            if x[0] == "var" and not (isinstance(x[1], tuple)):
                return T("var", (tag, x[1]), x[2], x[3])
            if x[0] == "loopvar" and not isinstance(x[1], tuple):
                return T("loopvar", (tag, x[1]), x[2], x[3])
            if x[0] == "call" and len(x) > 3 and x[3] is not None and not isinstance(x[3], tuple):
                return T("call", x[1], tuple(retag_safe(a) if isinstance(a, tuple) else a for a in x[2]), (tag, x[3]))
            if x[0] in ("next", "elem") and len(x) > 2 and not isinstance(x[2], tuple):
                return T(x[0], retag_safe(x[1]), (tag, x[2]))
            return tuple(retag_safe(a) if isinstance(a, tuple) else a for a in x)
        for cp in cpaths:
            if cp.outcome[0] in ("unreachable", "infeasible"):
                continue
            e2 = self._fork(ev)
            evs2 = list(events)
            k2 = dict(known)
            evs2.append(Ev("enter", n, name, args, span=t["span"]["line"]))
            feasible = True
            for ce in cp.events:
                kind = ce.kind
                if kind in ("loop", "loopexit"):
                    kind = "inl-" + kind      # a loop of the callee: its header is not a block of the caller
                ne = Ev(kind, n, ce.a, ce.b, ce.c, ce.d, ce.span)
                if kind.startswith("inl-"):
                    evs2.append(ne)
                    continue
                for fld in ("a", "b", "c", "d"):
                    v = getattr(ne, fld)
                    if isinstance(v, tuple):
                        setattr(ne, fld, retag_safe(v))
                if ne.kind == "guard":
                    if ne.a in k2 and not self._compatible(k2[ne.a], ne.b):
                        feasible = False
                        break
                    if not self._int_feasible(ne.a, ne.b, k2):
                        feasible = False
                        break
                    k2[ne.a] = ne.b
                    self._int_learn(ne.a, ne.b, k2)
                if ne.kind == "call":
                    for r in (ne.d or ()):
                        self._invalidate(e2, k2, r)
                evs2.append(ne)
            if not feasible:
                continue
            evs2.append(Ev("leave", n, name))
            if cp.outcome[0] != "return":
                self._finish(evs2, cp.outcome, e2, blocks)
                continue
            res = retag_safe(cp.outcome[1]) if isinstance(cp.outcome[1], tuple) else cp.outcome[1]
            if wrap is not None:
                res = wrap(res)
            dest = t["dest"]
            if not dest["p"]:
                e2.env[dest["l"]] = res
            else:
                saved = e2.mem
                e2.mem = {}
                pt = e2.place(dest)
                e2.mem = saved
                e2.mem[pt] = res
            self._go(t["t"], e2, evs2, k2, blocks + [t["t"]])

    # ---- Option / Result combinators with a crate-local closure: `o.and_then(f)` is `match o { Some(v) => f(v), None => None }`
    COMBINATORS_INLINE = True
    # (type, method) -> (hit variant, miss variant, what the hit arm yields, what the miss arm yields, index of the closure argument)
    #   "f(v)"  the closure applied to the payload        "Some(f(v))" / "Ok(f(v))" / "Err(f(v))"  the same, wrapped
    #   "v"     the payload                               "Ok(v)" / "Some(v)"    the payload, re-wrapped
    #   "same"  the scrutinee itself                      "arg1"  the second argument
    #   "f()"   the closure applied to nothing            "Err(f())"             the same, wrapped
    #   "None" / "false"                                  a fresh constant
    _COMBINATORS = {
        ("Option", "and_then"):       ("Some", "None", "f(v)", "None", 1),
        ("Option", "map_or"):         ("Some", "None", "f(v)", "arg1", 2),
        ("Option", "is_some_and"):    ("Some", "None", "f(v)", "false", 1),
        ("Option", "unwrap_or_else"): ("None", "Some", "f()", "v", 1),
        ("Option", "ok_or_else"):     ("None", "Some", "Err(f())", "Ok(v)", 1),
        ("Option", "or_else"):        ("None", "Some", "f()", "same", 1),
        ("Result", "and_then"):       ("Ok", "Err", "f(v)", "same", 1),
        ("Result", "unwrap_or_else"): ("Err", "Ok", "f(v)", "v", 1),
        ("Result", "or_else"):        ("Err", "Ok", "f(v)", "same", 1),
    }

    def _combinator(self, name, args):
        m = re.match(r"^std::(option::Option|result::Result)::<[^>]*>::(\w+)$", name)
        if not m:
            return None
        spec = self._COMBINATORS.get((m.group(1).split("::")[1], m.group(2)))
        if spec is None or len(args) <= spec[4]:
            return None
        f = args[spec[4]]
        if isinstance(f, tuple) and f and f[0] == "const" and isinstance(f[1], tuple) and f[1][0] == "fn" and f[1][1] in self.body.facts.bodies and "f(v)" in spec[2] + spec[3]:
            return spec        # a crate-local function used as the closure:  opt.map_or(false, is_action_key)
        if not (isinstance(f, tuple) and f and f[0] == "closure" and f[1] in self.body.facts.bodies):
            return None
        return spec

    def _inline_combinator(self, n, t, name, args, ev, events, known, blocks):
        hit, miss, on_hit, on_miss, fi = self._combinator(name, args)
        o = args[0]
        f = args[fi]
        atom = T("variantof", o)
        fixed = o[2] if isinstance(o, tuple) and o and o[0] == "agg" and len(o) > 2 else None
        sp = _split_call(o)
        if sp is not None:
            atom = T("empty", sp[1])      # xs.last()/first()/split_*() is None exactly when xs is empty

        def gval(variant):
            return (variant == "None") if sp is not None else variant

        def payload(variant):
            return ev._field(T("variant", o, variant), "0", 0)

        def fresh(vname, *ops):
            return T("agg", "std::%s" % ("option::Option" if vname in ("Some", "None") else "result::Result"), vname, tuple(ops), ())
        for variant, what in ((hit, on_hit), (miss, on_miss)):
            if fixed is not None and fixed != variant:
                continue
            if atom in known and not self._compatible(known[atom], gval(variant)):
                continue
            e2 = self._fork(ev)
            evs2 = list(events)
            k2 = dict(known)
            if fixed is None and atom not in k2:
                evs2.append(Ev("guard", n, atom, gval(variant)))
                k2[atom] = gval(variant)
            elif fixed is None:
                k2[atom] = gval(variant)
            if "f(v)" in what and f[0] == "const":
                fname = f[1][1]
                pv = payload(variant)
                res = e2.mk_call(fname, (pv,), t, n)
                evs2.append(Ev("call", n, fname, (pv,), res, (), span=t["span"]["line"]))
                if what.startswith(("Some(", "Ok(", "Err(")):
                    res = fresh(what.split("(")[0], res)
                dest = t["dest"]
                if not dest["p"]:
                    e2.env[dest["l"]] = res
                else:
                    savedm = e2.mem
                    e2.mem = {}
                    pt = e2.place(dest)
                    e2.mem = savedm
                    e2.mem[pt] = res
                self._go(t["t"], e2, evs2, k2, blocks + [t["t"]])
                continue
            if "f(" in what:
                wrap = None
                if what.startswith(("Some(", "Ok(", "Err(")):
                    vname = what.split("(")[0]
                    wrap = (lambda r, vname=vname: fresh(vname, r))
                cargs = (f, T("tuple", ((payload(variant),) if "f(v)" in what else ())))
                saved = self.results
                self._inline_call(n, t, f[1], cargs, e2, evs2, k2, blocks, wrap=wrap)
                continue
            if what == "v":
                res = payload(variant)
            elif what in ("Ok(v)", "Some(v)"):
                res = fresh(what.split("(")[0], payload(variant))
            elif what == "same":
                res = o
            elif what == "arg1":
                res = args[1]
            elif what == "None":
                res = fresh("None")
            else:
                res = T("const", T("int", 0, "bool"))
            dest = t["dest"]
            if not dest["p"]:
                e2.env[dest["l"]] = res
            else:
                savedm = e2.mem
                e2.mem = {}
                pt = e2.place(dest)
                e2.mem = savedm
                e2.mem[pt] = res
            self._go(t["t"], e2, evs2, k2, blocks + [t["t"]])

    # ---- integer facts: (x == c) guards and integer switches on x must agree
    @staticmethod
    def _eq_const(atom):
        if isinstance(atom, tuple) and atom and atom[0] == "eq":
            ca, cb = const_int(atom[1]), const_int(atom[2])
            if ca is not None and cb is None:
                return atom[2], ca
            if cb is not None and ca is None:
                return atom[1], cb
        return None

    def _int_feasible(self, atom, val, known):
        ec = self._eq_const(atom)
        if ec is not None and isinstance(val, bool):
            x, c = ec
            iv = known.get(("intval", x))
            ne = known.get(("intne", x), frozenset())
            if val:
                return (iv is None or iv == c) and c not in ne
            return iv is None or iv != c
        if isinstance(atom, tuple) and not isinstance(val, bool):
            iv = known.get(("intval", atom))
            ne = known.get(("intne", atom), frozenset())
            if isinstance(val, int):
                return (iv is None or iv == val) and val not in ne
            if isinstance(val, tuple) and val and val[0] == "other":
                return iv is None or iv not in val[1]
        return True

    def _int_learn(self, atom, val, known):
        ec = self._eq_const(atom)
        if ec is not None and isinstance(val, bool):
            x, c = ec
            if val:
                known[("intval", x)] = c
            else:
                known[("intne", x)] = known.get(("intne", x), frozenset()) | {c}
            return
        if isinstance(atom, tuple) and not isinstance(val, bool):
            if isinstance(val, int):
                known[("intval", atom)] = val
            elif isinstance(val, tuple) and val and val[0] == "other" and all(isinstance(v, int) for v in val[1]):
                known[("intne", atom)] = known.get(("intne", atom), frozenset()) | set(val[1])

    @staticmethod
    def _known_discr(d):
        """discriminant of a freshly built aggregate is a compile-time fact"""
        if isinstance(d, tuple) and d and d[0] == "discr":
            pl = d[1]
            names, discrs = ENUMS.get(d[2], ((), ()))
            if isinstance(pl, tuple) and pl and pl[0] == "agg" and names and pl[2] in names:
                idx = names.index(pl[2])
                if discrs:
                    return int(discrs[idx])
                return idx
            # `?` on a value that was itself produced by a failed `?` (a helper's early return) fails again
            if isinstance(pl, tuple) and pl and pl[0] == "try" and isinstance(pl[1], tuple) and pl[1] and pl[1][0] == "from_residual" and names and "Break" in names:
                idx = names.index("Break")
                return int(discrs[idx]) if discrs else idx
            # `?` on a freshly built Err/None (Ok/Some) breaks (continues): ControlFlow of Try::branch
            if isinstance(pl, tuple) and pl and pl[0] == "try" and isinstance(pl[1], tuple) and pl[1] and pl[1][0] == "agg" and len(pl[1]) > 2 and names:
                want = {"Err": "Break", "None": "Break", "Ok": "Continue", "Some": "Continue"}.get(pl[1][2])
                if want in names:
                    idx = names.index(want)
                    if discrs:
                        return int(discrs[idx])
                    return idx
        return None

    def _go_after_loop(self, tgt, ev, events, known, blocks):
        self._go(tgt, ev, events, known, blocks, first=False)

    @staticmethod
    def _mem_atom(k):
        # atoms over memory: membership, len, field reads, calls. Pure-local atoms (loopvars, vars) survive.
        for s in subterms(k):
            if isinstance(s, tuple) and s:
                if s[0] in ("in", "len", "empty", "field", "index", "elem", "discr"):
                    return True
                if s[0] == "call" and (len(s) < 4 or s[3] is not None):
                    return True   # impure / site-tagged call; pure predicates over non-memory arguments survive
        return False

    @staticmethod
    def _compatible(kv, val):
        if isinstance(val, tuple) and val and val[0] == "other":
            if isinstance(kv, tuple) and kv and kv[0] == "other":
                return True
            return kv not in val[1]
        if isinstance(kv, tuple) and kv and kv[0] == "other":
            return val not in kv[1]
        return kv == val

    def _switch_edges(self, d, dty, t):
        """-> list of (atom, value, target, raw) ; bools normalised through `not`; enum discriminants to names"""
        targets = [(int(v), b) for v, b in t["targets"]]
        other = t["otherwise"]
        edges = []
        neg = False
        atom = d
        while isinstance(atom, tuple) and atom and atom[0] == "not":
            atom = atom[1]
            neg = not neg
        is_bool = dty == "bool" or (isinstance(d, tuple) and d and d[0] in ("not", "in", "eq", "empty"))
        if isinstance(atom, tuple) and atom and atom[0] == "discr":
            names, discrs = ENUMS.get(atom[2], ((), ()))
            place = atom[1]
            a2 = T("variantof", place)
            def nm(v):
                if discrs:
                    for i, dv in enumerate(discrs):
                        if int(dv) == v:
                            return names[i]
                    return "#%d" % v
                for pref, vs in STD_ENUMS.items():
                    if atom[2].startswith(pref) and v < len(vs):
                        return vs[v]
                return "#%d" % v
            if place in _OPTION_TRIES:
                # `opt?`: the ControlFlow it is turned into mirrors the Option
                inner_edges = []
                a3 = T("variantof", place[1])
                spo = _split_call(place[1])
                for v, b in targets:
                    nmv = nm(v)
                    val = {"Continue": "Some", "Break": "None"}.get(nmv, nmv)
                    if spo is not None:
                        inner_edges.append((T("empty", spo[1]), val == "None", b, ("eq", v)))
                    else:
                        inner_edges.append((a3, val, b, ("eq", v)))
                if len(targets) == 1 and not self._is_unreachable(other):
                    nmv = nm(targets[0][0])
                    val = {"Continue": "None", "Break": "Some"}.get(nmv)
                    if val is not None:
                        if spo is not None:
                            inner_edges.append((T("empty", spo[1]), val == "None", other, ("other", (targets[0][0],))))
                        else:
                            inner_edges.append((a3, val, other, ("other", (targets[0][0],))))
                if len(inner_edges) >= 2:
                    return inner_edges
            sp = _split_call(place)
            if sp is not None:
                # split_last()/split_first() is None exactly when the slice is empty: the same atom as `xs.len() == 0`
                em = T("empty", sp[1])
                for v, b in targets:
                    edges.append((em, v == 0, b, ("eq", v)))
                if len(targets) == 1 and not self._is_unreachable(other):
                    edges.append((em, targets[0][0] != 0, other, ("other", (targets[0][0],))))
                return edges

            vals = []
            for v, b in targets:
                edges.append((a2, nm(v), b, ("eq", v)))
                vals.append(nm(v))
            covered = bool(names) and set(vals) >= set(names)
            # (when every variant has its own edge the `otherwise` edge cannot be taken, even if it leads to live
            # code -- the shared wildcard arm of a match with guards)
            if not self._is_unreachable(other) and not covered:
                edges.append((a2, ("other", tuple(vals)), other, ("other", tuple(v for v, _ in targets))))
            return edges
        if is_bool:
            for v, b in targets:
                val = bool(v) ^ neg
                edges.append((atom, val, b, ("eq", v)))
            if len(targets) == 1:
                v = targets[0][0]
                edges.append((atom, (not bool(v)) ^ neg, other, ("other", (v,))))
            elif not self._is_unreachable(other):
                edges.append((atom, ("other", tuple(bool(v) ^ neg for v, _ in targets)), other, ("other", tuple(v for v, _ in targets))))
            return edges
        vals = []
        for v, b in targets:
            edges.append((d, v, b, ("eq", v)))
            vals.append(v)
        if not self._is_unreachable(other):
            edges.append((d, ("other", tuple(vals)), other, ("other", tuple(vals))))
        return edges

    def _is_unreachable(self, b):
        blk = self.body.blocks[b]
        return blk["term"]["k"] == "unreachable" and not blk["stmts"]


def walk_function(body, **kw):
    return Walker(body).walk(0, **kw)


def walk_loop_body(body, header, **kw):
    return Walker(body).walk(header, start_is_header=True, **kw)


def walk_loop_only(body, header, **kw):
    """the loop body and its break arms, up to the point where control rejoins the code after the loop"""
    return Walker(body).walk(header, start_is_header=True, stop_after_loop=True, **kw)


# --------------------------------------------------------------------------
# closure substitution: express a closure body's terms in the parent's vocabulary

def subst(t, mapping):
    """replace subterms by mapping (dict term->term) bottom-up"""
    if t in mapping:
        return mapping[t]
    if not isinstance(t, tuple):
        return t
    new = tuple(subst(x, mapping) if isinstance(x, tuple) else x for x in t)
    if new in mapping:
        return mapping[new]
    # projections of a substituted tuple / aggregate
    if len(new) == 3 and new[0] == "field" and isinstance(new[1], tuple) and new[1]:
        base = new[1]
        if base[0] == "tuple" and str(new[2]).isdigit() and int(new[2]) < len(base[1]):
            return base[1][int(new[2])]
        if base[0] == "agg" and len(base) > 4 and new[2] in base[4]:
            return base[3][base[4].index(new[2])]
    return new


def _closure_fields(t, facts):
    """field(<closure value>, upvar) -> the captured term (after a closure value was substituted for an environment)"""
    if not isinstance(t, tuple) or not t:
        return t
    new = tuple(_closure_fields(x, facts) if isinstance(x, tuple) else x for x in t)
    if len(new) == 3 and new[0] == "field" and isinstance(new[1], tuple) and new[1] and new[1][0] == "closure":
        clos = new[1]
        idx = None
        if str(new[2]).isdigit():
            idx = int(new[2])
        elif facts is not None and clos[1] in facts.bodies:
            names = _closure_body(facts, clos[1]).upvar_names
            for k_, nm in names.items():
                if nm == new[2]:
                    idx = k_
        if idx is not None and idx < len(clos[2]):
            return clos[2][idx]
    return new


def closure_upvar_map(closure_body, closure_term):
    """mapping from the closure body's upvar terms to the captured terms at the construction site"""
    m = {}
    caps = closure_term[2]
    env_param = T("param", 1, closure_body.dbg.get(1, ""))
    for i, c in enumerate(caps):
        # closure bodies read captures as field i of param 1
        for nm in (closure_body.upvar_names.get(i, ""), str(i), ""):
            m[T("field", env_param, nm)] = c
        m[T("field", env_param, str(i))] = c
    return m


_FN_CALL = re.compile(r"Fn(Mut|Once)?<.*>>::call(_mut|_once)?$|^std::ops::Fn(Mut|Once)?::call(_mut|_once)?$|^core::ops::function::Fn(Mut|Once)?::call(_mut|_once)?$")


def _apply_closure_values(t, facts, depth=0):
    """a closure that reached this point as a VALUE (a `pred: impl Fn(&T) -> bool` parameter of a helper that has been
    copied into its caller) and is called there:  pred(x)  with pred = |m| m.to.contains(&k)  is  x.to.contains(&k).
    Only single-expression closures (one path, no branch, no write) are applied; anything else stays a call."""
    if not isinstance(t, tuple) or not t or facts is None or depth > 4:
        return t
    t = tuple(_apply_closure_values(x, facts, depth) if isinstance(x, tuple) else x for x in t)
    if t[0] == "call" and len(t) > 2 and isinstance(t[1], str) and _FN_CALL.search(t[1]) and len(t[2]) == 2:
        clos, args = strip(t[2][0]), t[2][1]
        if isinstance(clos, tuple) and clos and clos[0] == "closure" and clos[1] in facts.bodies and isinstance(args, tuple) and args and args[0] == "tuple":
            try:
                cps, cb = walk_closure(lambda p_: _closure_body(facts, p_), clos, param_terms=list(args[1]))
            except Exception:
                return t
            live = [q for q in cps if q.outcome[0] not in ("unreachable", "infeasible")]
            if len(live) == 1 and live[0].outcome[0] == "return" and not [e for e in live[0].events if e.kind in ("guard", "store", "loop")] \
                    and not [e for e in live[0].events if e.kind == "call" and e.d]:
                return _apply_closure_values(live[0].outcome[1], facts, depth + 1) if isinstance(live[0].outcome[1], tuple) else live[0].outcome[1]
    return t


def walk_closure(facts_bodies, closure_term, param_terms=None):
    """walk a closure body; returns (paths, body) with upvars replaced by the captured terms and
    parameters (from index 2) replaced by param_terms"""
    cb = facts_bodies(closure_term[1])
    # closures of the same function that this one calls (|k| .. is_held(k)) are inlined
    sibs = set()
    if cb.facts is not None and "::{closure" in closure_term[1]:
        parent = closure_term[1].split("::{closure", 1)[0]
        sibs = {p for p in cb.facts.bodies if p.startswith(parent + "::{closure") and p != closure_term[1]}
    paths = Walker(cb, inline=sibs).walk(0) if sibs else Walker(cb).walk(0)
    m = closure_upvar_map(cb, closure_term)
    if param_terms:
        for i, pt in enumerate(param_terms):
            m[T("param", i + 2, cb.dbg.get(i + 2, ""))] = pt
    out = []
    facts = cb.facts

    def sb(x):
        if not isinstance(x, tuple):
            return x
        y = subst(x, m)
        y = _closure_fields(y, facts) if sibs else y
        return _apply_closure_values(y, facts)
    for p in paths:
        evs = []
        for e in p.events:
            ne = Ev(e.kind, e.blk, e.a, e.b, e.c, e.d, e.span)
            ne.a = sb(e.a)
            ne.b = sb(e.b)
            ne.c = sb(e.c)
            ne.d = sb(e.d)
            evs.append(ne)
        oc = tuple(sb(x) for x in p.outcome)
        out.append(PathResult(evs, oc, p.env, p.blocks))
    return out, cb


def context_events(body, path):
    """events of a path whose guard context is complete on this path: events located in a break arm of a loop
    that was summarised earlier on the path are left out (the loop's own walk analyses them with their guards)"""
    out = []
    exited = []
    for i, e in enumerate(path.events):
        if e.kind == "loopexit":
            exited.append(e.a)
            out.append((i, e))
            continue
        if exited and any(body.is_break_arm(h, e.blk) for h in exited):
            continue
        out.append((i, e))
    return out
