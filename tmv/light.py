"""Light path enumeration for large loop-free generated bodies (derive output: decision trees with
thousands of leaves).  Uses flow-insensitive single-definition terms, so it is only valid for bodies
whose temporaries are assigned once (asserted) – exactly what derive macros produce."""
from . import mir
from .mir import T, Evaluator, norm_callee


class NotTreeLike(Exception):
    pass


def leaves(body, max_leaves=200000):
    """-> list of (guards [(term, value)], calls [(name, args)], return term)"""
    if body.loops():
        raise NotTreeLike("body has loops")
    ev = Evaluator(body, None)
    out = []
    w = mir.Walker(body)
    stack = [(0, (), (), None)]
    while stack:
        n, guards, calls, ret = stack.pop()
        while True:
            blk = body.blocks[n]
            for st in blk["stmts"]:
                if st["k"] == "assign" and st["lhs"]["l"] == 0 and not st["lhs"]["p"]:
                    ret = ev.rvalue(st["rv"])
            t = blk["term"]
            k = t["k"]
            if k == "goto" or k == "drop" or k == "assert":
                n = t["t"]
                continue
            if k == "return":
                out.append((list(guards), list(calls), ret))
                if len(out) > max_leaves:
                    raise NotTreeLike("too many leaves")
                break
            if k in ("unreachable", "unwind"):
                break
            if k == "call":
                name = norm_callee(t)
                args = tuple(ev.operand(a) for a in t["args"])
                res = ev.mk_call(name, args, t, n)
                calls = calls + ((name, args, res),)
                if t["dest"]["l"] == 0 and not t["dest"]["p"]:
                    ret = res
                if "t" not in t:
                    break
                n = t["t"]
                continue
            if k == "switch":
                d = ev.operand(t["discr"])
                dty = None
                if t["discr"]["k"] in ("copy", "move") and not t["discr"]["place"]["p"]:
                    dty = body.ltypes.get(t["discr"]["place"]["l"])
                known = {}
                for a, v in guards:
                    known[a] = v
                    w._int_learn(a, v, known)
                for (atom, val, tgt, raw) in w._switch_edges(d, dty, t):
                    if atom in known and not w._compatible(known[atom], val):
                        continue
                    if not w._int_feasible(atom, val, known):
                        continue
                    stack.append((tgt, guards + ((atom, val),), calls, ret))
                break
            raise NotTreeLike("terminator " + k)
    return out
