"""Premises shared between properties.

Several properties rest on facts that another property's rule set decides (the held-input set mirrors the physical
keyboard; the two held-output lists mirror the device; the loop sends every step result; ...).  A check that needs such a
fact re-runs exactly the rules that decide it and reports a failure as its own `<ID>-premise` obligation, naming the
rule that failed.  Rule sets are run WITHOUT their own premises (`ctx.no_premises`), so there are no cycles; results are
cached per fact base (in memory, and on disk keyed by the tree hash and a digest of the checker's sources).
"""
import hashlib
import importlib
import json
import os
import traceback

from . import facts as facts_mod
from .report import Check, Unrecognised

_DIGEST = None


def _code_digest():
    global _DIGEST
    if _DIGEST is None:
        h = hashlib.sha256()
        base = os.path.dirname(os.path.abspath(__file__))
        for root, dirs, files in os.walk(base):
            dirs.sort()
            for f in sorted(files):
                if f.endswith(".py"):
                    p = os.path.join(root, f)
                    h.update(p.encode())
                    with open(p, "rb") as fh:
                        h.update(fh.read())
        for extra in ("ledgers/panic_sites.json", "oracles/us_qwerty.json", "oracles/kernel_keycodes.json", "oracles/systemd_cmdline.py"):
            p = os.path.join(facts_mod.VERIF, extra)
            if os.path.exists(p):
                with open(p, "rb") as fh:
                    h.update(fh.read())
        _DIGEST = h.hexdigest()[:16]
    return _DIGEST


def own_violations(ctx, pid):
    """violation keys of property `pid`'s OWN rules (its premises are not re-run) on ctx's fact base"""
    from .ctx import Ctx
    F = ctx.F
    mem = F.__dict__.setdefault("_premise_cache", {})
    if pid in mem:
        return mem[pid]
    th = (F.info or {}).get("tree_hash")
    disk = None
    if th and th != "scratch":
        disk = os.path.join(facts_mod.CACHE, "prem-%s-%s-%s.json" % (th[:16], _code_digest(), pid))
        if os.path.exists(disk):
            try:
                with open(disk) as fh:
                    mem[pid] = json.load(fh)
                return mem[pid]
            except Exception:
                pass
    mod = importlib.import_module("tmv.rules." + pid.lower())
    sub = Check(pid, quiet=True)
    sctx = Ctx(F, sub, ctx.tier)
    sctx.no_premises = True
    try:
        mod.run(sctx)
    except Unrecognised as u:
        sub.unrecognised("anchor", "-", u.what, site=u.site)
    except Exception as e:
        sub.ob("internal", "-", "checker-error:" + type(e).__name__, False, detail=traceback.format_exc()[-600:])
    keys = [v["key"] for v in sub.violations]
    mem[pid] = keys
    if disk:
        try:
            os.makedirs(facts_mod.CACHE, exist_ok=True)
            tmp = disk + ".%d.tmp" % os.getpid()
            with open(tmp, "w") as fh:
                json.dump(keys, fh)
            os.replace(tmp, disk)
            # keep the cache directory small
            old = sorted((f for f in os.listdir(facts_mod.CACHE) if f.startswith("prem-")), key=lambda f: os.path.getmtime(os.path.join(facts_mod.CACHE, f)))
            for f in old[:-200]:
                os.remove(os.path.join(facts_mod.CACHE, f))
        except Exception:
            pass
    return keys


# named groups of rules (property id, rule ids or None for all, what they establish)
IP_EXACT = [("C01", {"C01-R2", "C01-R5"}, "input_pressed_keys gains the pressed key and forgets the released key on every acted-on event, with the sweeps that go with it"),
            ("C09", {"C09-T1"}, "Mapper::step hands every press of a key not held to newly_press and every release of a held key to newly_release; ignored events change nothing")]
AM_EXACT = [("C01", {"C01-R3", "C01-R4", "C01-R5", "C01-R6"}, "active_mappings gains a mapping only when its trigger is held and loses every mapping whose trigger key goes up")]
C01_ALL = [("C01", None, "invariants I1-I3 of the mapper state")]
C19_ALL = [("C19", None, "every emission and every change of the two held-key lists is a guarded press/release/move transaction")]
LAYOUT_VERBATIM = [("C03", {"C03-R1"}, "the mapper's lookup table holds every mapping of the layout, unchanged, filed under its final trigger key in source order")]
ACTION_KEY_TABLE = [("C03", {"C03-T2"}, "is_action_key is false exactly on the eight standard modifiers")]
STEP_TABLE = [("C09", {"C09-T1"}, "decision table of Mapper::step")]


def require(ctx, pid, groups):
    """one obligation per premise group; skipped when this rule set is itself being run as somebody's premise"""
    if getattr(ctx, "no_premises", False):
        return
    ck = ctx.check
    n = 0
    for other, rules, text in groups:
        keys = own_violations(ctx, other)
        if rules is not None:
            # (a rule set that gave up on an unrecognised construct did not evaluate the rules after that point: the
            # premise is then not established, whichever rules it names)
            keys = [k for k in keys if any("/%s/" % r in k for r in rules) or "/anchor/" in k or "/internal/" in k]
        n += 1
        label = "%s:%s" % (other, ",".join(sorted(r.split("-", 1)[1] for r in rules)) if rules else "%s:all-rules" % other)
        ck.ob(pid + "-premise", "-", "premise(%s):%s" % (label, text[:110].replace("/", "|")), not keys,
              detail=None if not keys else "%d rule(s) of %s fail here, first: %s" % (len(keys), other, keys[0][:200]))
    ck.analysed["premise_groups_rerun"] = n


# the layers around the mapper: a property stated between the physical and the virtual keyboard also needs the reader,
# the event loop and the writer to hand every event through unchanged
LOOP_FAITHFUL = [("C10", None, "the event loop reads every notified event, steps it once and writes every non-empty result once, in order (incl. the Driver adapters)"),
                 ("C18", {"C18-R2", "C18-R3"}, "the writer emits one record per event and the reader returns every key record it reads"),
                 ("C12", {"C12-R2"}, "a tablet-mode switch releases everything that is held (both arms)"),
                 ("C06", {"C06-R1"}, "release_all steps a release for every held key")]
CONVERTER_ORDER = [("C13", {"C13-S5"}, "the converter keeps the source order of the mappings it produces")]
CONVERTER_REPEAT = [("C13", {"C13-S5", "C13-S8"}, "repeat-only entries set the repeat mode of exactly the mappings with the same trigger")]
CONVERTER_ALIASES = [("C13", {"C13-S1", "C13-S2", "C13-S3"}, "output-side and absorbing aliases resolve to the keys chosen on the trigger side")]

DEPS = {
    "C01": C19_ALL + STEP_TABLE + LOOP_FAITHFUL,
    "C02": C01_ALL + C19_ALL + STEP_TABLE + LOOP_FAITHFUL + [
        ("C03", {"C03-T1", "C03-R2"}, "a press fires the mapping its held keys select (a key that has a satisfied mapping is consumed, not passed through)"),
        ("C08", {"C08-R1", "C08-R2"}, "which held keys count for that selection: an absorbed key is hidden until it is pressed again, and forgotten as absorbed before the look-up")],
    "C03": IP_EXACT + AM_EXACT + C19_ALL + CONVERTER_ORDER,
    "C04": C01_ALL + C19_ALL + [("C11", {"C11-R3", "C11-R4"}, "a repeat chord presses only keys that are not held and releases exactly those: it leaves the held set as it was")],
    "C05": IP_EXACT + C19_ALL + ACTION_KEY_TABLE + CONVERTER_REPEAT + [("C01", {"C01-R3"}, "a mapping that fires is registered in active_mappings on every return path: the still-used scan of remove_mapping can only spare the outputs of mappings it can see")],
    "C06": C19_ALL + STEP_TABLE + [("C12", {"C12-R2"}, "both tablet arms stop the repeat timer and send release_all's result (the loop's timer is the only memory of a repeat trigger)"),
            ("C08", {"C08-R4"}, "absorbed keys and the absorbing trigger are (re)written whenever an absorbing mapping fires"),
            ("C10", None, "the event loop hands every event to the mapper"), ("C18", {"C18-R3"}, "the reader returns every key record it reads")],
    "C07": C19_ALL + LAYOUT_VERBATIM + CONVERTER_REPEAT + [("C18", {"C18-R2"}, "the writer emits one record per event of the batch, in order")],
    "C08": IP_EXACT + CONVERTER_ALIASES + ACTION_KEY_TABLE + [("C18", {"C18-R3"}, "the reader drops auto-repeat records (value 2) and returns every press/release record")],
    "C09": LAYOUT_VERBATIM + CONVERTER_REPEAT,
    "C10": [("C18", {"C18-R3"}, "the reader consumes one input_event record per read() and returns every key record it reads")],
    "C12": [("C06", None, "release_all returns the mapper to rest")] + C01_ALL + C19_ALL + STEP_TABLE + [("C10", {"C10-R1", "C10-R7", "C10-R8"}, "the Driver adapters hand every readiness event and every record through"),
            ("C18", {"C18-R3"}, "the reader drops auto-repeat records and returns every press/release record")],
    "C14": [("C13", {"C13-S12"}, "every layout the loader accepts has gone through parse_layout_from_json and convert (the checks that reject what the mapper would panic on live there)"),
            ("C13", {"C13-S1", "C13-S2", "C13-S3", "C13-S5", "C13-S7", "C13-S8", "C13-S10"},
             "alias-combination indices, definition counts >= 1 and from_table indices are in range by construction (the reasons of the reviewed ledger entries)"),
            ("C01", {"C01-R4", "C01-R6"}, "remove_mapping is only called with the index of a complete count-down sweep over active_mappings and removes exactly that one entry")],
    "C11": CONVERTER_REPEAT + [("C12", {"C12-R2"}, "a tablet-mode event (On or Off) stops the repeat timer: the mapper is reset there, so nothing would ever cancel the repeat")],
    "C16": [("C18", {"C18-T2"}, "every KeyCode variant carries its kernel key code: the capability bitmaps of the device list are numbered by the kernel, and `KeyCode::X as i32` is what the keyboard test looks up in them")],
    "C19": [("C10", {"C10-R3"}, "the loop writes every non-empty step result exactly once, in order"),
            ("C12", {"C12-R1", "C12-R2"}, "the mapper is stepped only while its output is being written (not in tablet mode), and the release_all batch of a tablet event is written exactly once "
                                          "(a batch the mapper has accounted for but the device never saw makes every later event redundant)")],
}


def apply(ctx, pid):
    require(ctx, pid, DEPS.get(pid, []))
    from . import traits
    traits.require_structural(ctx, pid)
