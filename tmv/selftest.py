"""Checker self-tests: mutants must fire (naming the instance), refactors must stay silent.

Specs live in /verif/selftest/mutants.json:
  {"id": "...", "property": "C20", "kind": "mutant"|"refactor", "edits": [{"file": "src/x.rs", "old": "...", "new": "..."}],
   "expect": "<substring of a violation key>"}
Each is applied to a scratch copy outside /repo and /verif, analysed, and the copy removed.
"""
import importlib
import json
import os
import sys
import traceback

from . import facts as facts_mod
from .ctx import Ctx
from .report import Check, Unrecognised, load_known
from .scratch import Scratch

SPEC = os.path.join(facts_mod.VERIF, "selftest", "mutants.json")


def load_specs():
    with open(SPEC) as fh:
        specs = json.load(fh)
    # the independently written breaking changes kept under seeded/: each must be reported by its own property's check
    import glob
    for mp in sorted(glob.glob(os.path.join(facts_mod.VERIF, "seeded", "*", "meta.json"))):
        try:
            meta = json.load(open(mp))
        except Exception:
            continue
        d = os.path.dirname(mp)
        specs.append({"id": "seed:" + os.path.basename(d), "property": [meta["breaks_property"]], "kind": "mutant",
                      "patch": os.path.join(d, "patch.diff"), "silent": meta.get("silent", [])})
    # independently written behaviour-preserving refactorings kept under refactors/: the checks of the properties they
    # were written for (and of any property whose check once raised an alarm on them) must stay silent
    for mp in sorted(glob.glob(os.path.join(facts_mod.VERIF, "refactors", "*", "meta.json"))):
        try:
            meta = json.load(open(mp))
        except Exception:
            continue
        if meta.get("verdict") not in ("silent", "fixed"):
            continue      # pending triage, or judged not behaviour-preserving after all
        d = os.path.dirname(mp)
        props = sorted(set(meta.get("written_for", [])) | set(meta.get("alarms_at_intake", {}) or {}))
        specs.append({"id": "refactor:" + os.path.basename(d), "property": props, "kind": "refactor", "patch": os.path.join(d, "patch.diff")})
    return specs


def run_rules(pid, F, tier="quick"):
    mod = importlib.import_module("tmv.rules." + pid.lower())
    ck = Check(pid, tier=tier, quiet=True)
    ctx = Ctx(F, ck, tier)
    import signal

    def _timeout(signum, frame):
        raise TimeoutError("rule set %s did not finish within its time budget" % pid)
    old_handler = None
    try:
        old_handler = signal.signal(signal.SIGALRM, _timeout)
        signal.alarm(int(os.environ.get("TM_RULE_BUDGET_S", "420")))
    except (ValueError, OSError):
        old_handler = None     # not in the main thread: no watchdog
    try:
        mod.run(ctx)
        from . import premises
        premises.apply(ctx, pid)
    except Unrecognised as u:
        ck.unrecognised("anchor", "-", u.what, site=u.site)
    except Exception as e:
        ck.ob("internal", "-", "checker-error:" + type(e).__name__, False, detail=traceback.format_exc()[-800:])
    finally:
        if old_handler is not None:
            signal.alarm(0)
            signal.signal(signal.SIGALRM, old_handler)
    known = {f["key"] for f in load_known().get("findings", []) if f.get("property") == pid}
    return [v for v in ck.violations if v["key"] not in known], ck


def run_spec(spec, pids=None):
    """-> dict(id, status, detail) ; status in ok / FAILED / skipped"""
    res = {"id": spec["id"], "kind": spec.get("kind", "mutant"), "property": spec["property"]}
    with Scratch() as sc:
        if spec.get("patch"):
            okp, pout = sc.apply_patch(spec["patch"])
            if not okp:
                res["status"] = "skipped"
                res["detail"] = "patch no longer applies: " + pout[-120:]
                return res
        for e in spec.get("edits", []):
            if not sc.replace(e["file"], e["old"], e["new"], count=e.get("count", 1)):
                res["status"] = "skipped"
                res["detail"] = "edit no longer applies to %s" % e["file"]
                return res
        try:
            F = sc.facts()
        except RuntimeError as ex:
            res["status"] = "skipped"
            res["detail"] = "variant does not compile: " + str(ex)[-300:]
            return res
    props = pids or ([spec["property"]] if isinstance(spec["property"], str) else spec["property"])
    keys = []
    for pid in props:
        vs, _ = run_rules(pid, F)
        keys += [v["key"] for v in vs]
    res["violation_keys"] = keys[:12]
    silent = spec.get("silent", [])
    if pids and all(p in silent for p in pids):
        # a breaking change for ANOTHER property that leaves this one intact: this property's check must stay quiet
        res["kind"] = "mutant-of-another-property"
        res["status"] = "ok" if not keys else "FAILED"
        if keys:
            res["detail"] = "alarm on a change that does not break this property"
        return res
    if spec.get("kind", "mutant") == "refactor":
        res["status"] = "ok" if not keys else "FAILED"
        if keys:
            res["detail"] = "behaviour-preserving variant raised an alarm"
    else:
        exp = spec.get("expect", "")
        hit = [k for k in keys if exp in k]
        res["status"] = "ok" if hit else "FAILED"
        if not hit:
            res["detail"] = "mutant not detected (expected a key containing %r)" % exp
    return res


def _job(a):
    spec, pid = a
    try:
        return run_spec(spec, [pid])
    except Exception as e:
        return {"id": spec["id"], "status": "error", "detail": "%s: %s" % (type(e).__name__, str(e)[:200])}


def run_for_property(pid, only=None, jobs=None):
    todo = []
    for spec in load_specs():
        props = [spec["property"]] if isinstance(spec["property"], str) else spec["property"]
        if pid not in props and pid not in spec.get("silent", []):
            continue
        if only and spec["id"] not in only:
            continue
        todo.append((spec, pid))
    jobs = jobs or int(os.environ.get("TM_JOBS", "0") or 0) or min(12, os.cpu_count() or 4)
    if jobs <= 1 or len(todo) <= 1:
        return [_job(t) for t in todo]
    import multiprocessing
    with multiprocessing.get_context("fork").Pool(min(jobs, len(todo))) as pool:
        return pool.map(_job, todo, chunksize=1)


if __name__ == "__main__":
    pid = sys.argv[1]
    only = sys.argv[2:] or None
    for r in run_for_property(pid, only):
        print(json.dumps(r))
