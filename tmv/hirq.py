"""Queries over the exported HIR trees (typed, with typeck-resolved callees)."""


def children(n):
    if isinstance(n, dict):
        for k, v in n.items():
            if k in ("span", "ty", "id", "recv_ty", "base_ty"):
                continue
            if isinstance(v, (dict, list)):
                yield v
    elif isinstance(n, list):
        for v in n:
            if isinstance(v, (dict, list)):
                yield v


def walk(n):
    """all dict nodes, pre-order"""
    st = [n]
    while st:
        x = st.pop()
        if isinstance(x, dict):
            yield x
        cs = list(children(x))
        cs.reverse()
        st.extend(cs)


def exprs(n, kind=None):
    for x in walk(n):
        if "k" in x and (kind is None or x["k"] == kind):
            yield x


def callee_of(call):
    """resolved path of a Call / MethodCall node"""
    if call.get("k") == "MethodCall":
        return call.get("callee")
    if call.get("k") == "Call":
        f = call["f"]
        if f.get("k") == "Path":
            r = f["res"]
            if r.get("k") in ("def", "self"):
                return r.get("path")
    return None


def calls(n, path=None, suffix=None):
    for x in walk(n):
        if x.get("k") in ("Call", "MethodCall"):
            c = callee_of(x)
            if c is None:
                continue
            if path is not None and c != path:
                continue
            if suffix is not None and not c.endswith(suffix):
                continue
            yield x


def call_args(call):
    if call["k"] == "MethodCall":
        return [call["recv"]] + call["args"]
    return call["args"]


def str_lits(n):
    out = []
    for x in walk(n):
        if x.get("k") == "Lit" and x["lit"]["t"] == "str":
            out.append(x["lit"]["v"])
    return out


def lits(n):
    return [x["lit"] for x in walk(n) if x.get("k") == "Lit"]


def is_print_macro(n):
    sp = n.get("span") or {}
    ms = sp.get("macros") or []
    return any(m in ("println", "eprintln", "print", "eprint") for m in ms)


def local_name(e):
    if e.get("k") == "Path" and e["res"].get("k") == "local":
        return e["res"]["name"]
    return None


def strip_ref(e):
    while e.get("k") in ("AddrOf",) or (e.get("k") == "Unary" and e.get("op") == "Deref"):
        e = e["e"]
    return e


def let_inits(fn_body):
    """local binding id -> init expr for simple `let x = e;` statements"""
    out = {}
    for x in walk(fn_body):
        if x.get("k") == "Let" and "init" in x and x["pat"].get("k") == "Binding":
            out[x["pat"]["id"]] = x["init"]
    return out


def resolve(fn_body, e, depth=0):
    """follow references and immutable simple lets to the defining expression"""
    inits = let_inits(fn_body)
    while depth < 6:
        e = strip_ref(e)
        if e.get("k") == "Path" and e["res"].get("k") == "local" and e["res"]["id"] in inits:
            e = inits[e["res"]["id"]]
            depth += 1
            continue
        break
    return e


def for_loops(n):
    """-> list of (pattern, iterated expr, body expr) for every `for pat in expr { body }` (desugared form)"""
    out = []
    for x in walk(n):
        if x.get("k") == "Match" and x.get("src") == "ForLoopDesugar" and x["scrut"].get("k") == "Call":
            f = x["scrut"]["f"]
            if f.get("k") == "Path" and f["res"].get("path", "").endswith("IntoIterator::into_iter"):
                it = x["scrut"]["args"][0]
                lp = x["arms"][0]["body"]
                if lp.get("k") != "Loop":
                    continue
                for st in lp["b"]["stmts"]:
                    inner = st.get("e")
                    if inner and inner.get("k") == "Match" and inner.get("src") == "ForLoopDesugar":
                        for a in inner["arms"]:
                            p = a["pat"]
                            if p.get("k") in ("Struct", "TupleStruct") and p["res"].get("path", "").endswith("Some"):
                                pat = p["fields"][0]["pat"] if p["k"] == "Struct" else p["pats"][0]
                                out.append((pat, it, a["body"]))
    return out


def if_chain(e):
    """`if c1 {b1} else if c2 {b2} … else {bn}` -> ([(c1,b1),(c2,b2)…], else or None)"""
    arms = []
    while e is not None and e.get("k") == "If":
        arms.append((e["cond"], e["then"]))
        e = e.get("else")
        if e is not None and e.get("k") == "Block" and not e["b"]["stmts"] and e["b"].get("expr") is not None and e["b"]["expr"].get("k") == "If":
            e = e["b"]["expr"]
    return arms, e
