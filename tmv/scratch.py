"""Scratch copies of /repo for checker self-tests (mutants / refactors).

A copy holds only what the build reads (src, Cargo.toml, Cargo.lock); it lives outside /repo and
/verif and is removed as soon as the facts were extracted.  The dependency build output in
/verif/.cache/target is shared (cargo keys dependencies by package id, not by workspace path).
"""
import json
import os
import shutil
import subprocess
import tempfile

from . import facts as facts_mod


class Scratch:
    def __init__(self, repo=None):
        self.repo = repo or facts_mod.REPO
        self.dir = None

    def __enter__(self):
        self.dir = tempfile.mkdtemp(prefix="tmv-scratch-")
        shutil.copytree(os.path.join(self.repo, "src"), os.path.join(self.dir, "src"))
        for f in ("Cargo.toml", "Cargo.lock"):
            shutil.copy(os.path.join(self.repo, f), os.path.join(self.dir, f))
        return self

    def __exit__(self, *a):
        if self.dir and os.path.isdir(self.dir):
            shutil.rmtree(self.dir, ignore_errors=True)
        # the scratch member's own artifacts in the shared target dir
        return False

    def apply_patch(self, patch_path):
        r = subprocess.run(["patch", "-p1", "--no-backup-if-mismatch", "-s", "-i", os.path.abspath(patch_path)],
                           cwd=self.dir, stdout=subprocess.PIPE, stderr=subprocess.STDOUT, text=True)
        return r.returncode == 0, r.stdout

    def replace(self, relpath, old, new, count=1):
        p = os.path.join(self.dir, relpath)
        s = open(p).read()
        if s.count(old) < 1:
            return False
        if count and s.count(old) != count:
            return False
        s = s.replace(old, new)
        open(p, "w").write(s)
        return True

    def facts(self):
        """run the driver on the scratch tree (raises if it does not compile).  Several build-output slots
        (.cache/target, .cache/target-1, ...) let self-tests run in parallel; a slot is held under a file lock."""
        import fcntl
        import random
        out = os.path.join(self.dir, "facts.json")
        os.makedirs(facts_mod.CACHE, exist_ok=True)
        facts_mod.build_driver_locked()
        nslots = int(os.environ.get("TM_SLOTS", "6") or 6)
        held = None
        order = list(range(nslots))
        for k in order:
            lk = open(os.path.join(facts_mod.CACHE, "lock" if k == 0 else "lock-%d" % k), "w")
            try:
                fcntl.flock(lk, fcntl.LOCK_EX | fcntl.LOCK_NB)
                held = (k, lk)
                break
            except OSError:
                lk.close()
        if held is None:
            k = random.randrange(nslots)
            lk = open(os.path.join(facts_mod.CACHE, "lock" if k == 0 else "lock-%d" % k), "w")
            fcntl.flock(lk, fcntl.LOCK_EX)
            held = (k, lk)
        k, lk = held
        try:
            tdir = os.path.join(facts_mod.CACHE, "target" if k == 0 else "target-%d" % k)
            facts_mod.run_driver(out, repo=self.dir, target_dir=tdir)
        finally:
            fcntl.flock(lk, fcntl.LOCK_UN)
            lk.close()
        with open(out) as fh:
            data = json.load(fh)
        os.remove(out)
        return facts_mod.Facts(data, {"tree_hash": "scratch"})
