"""Scratch copies of /repo for checker self-tests (mutants / refactors).

A copy holds only what the build reads (src, Cargo.toml, Cargo.lock); it lives outside /repo and
/verif and is removed as soon as the facts were extracted.  The dependency build output in
/verif/.cache/target is shared (cargo keys dependencies by package id, not by workspace path).
"""
import json
import os
import shutil
import subprocess
import tempfile

from . import facts as facts_mod


class Scratch:
    def __init__(self, repo=None):
        self.repo = repo or facts_mod.REPO
        self.dir = None

    def __enter__(self):
        self.dir = tempfile.mkdtemp(prefix="tmv-scratch-")
        shutil.copytree(os.path.join(self.repo, "src"), os.path.join(self.dir, "src"))
        for f in ("Cargo.toml", "Cargo.lock"):
            shutil.copy(os.path.join(self.repo, f), os.path.join(self.dir, f))
        return self

    def __exit__(self, *a):
        if self.dir and os.path.isdir(self.dir):
            shutil.rmtree(self.dir, ignore_errors=True)
        # the scratch member's own artifacts in the shared target dir
        return False

    def apply_patch(self, patch_path):
        r = subprocess.run(["patch", "-p1", "--no-backup-if-mismatch", "-s", "-i", os.path.abspath(patch_path)],
                           cwd=self.dir, stdout=subprocess.PIPE, stderr=subprocess.STDOUT, text=True)
        return r.returncode == 0, r.stdout

    def replace(self, relpath, old, new, count=1):
        p = os.path.join(self.dir, relpath)
        s = open(p).read()
        if s.count(old) < 1:
            return False
        if count and s.count(old) != count:
            return False
        s = s.replace(old, new)
        open(p, "w").write(s)
        return True

    def facts(self):
        """run the driver on the scratch tree (raises if it does not compile)"""
        import fcntl
        out = os.path.join(self.dir, "facts.json")
        os.makedirs(facts_mod.CACHE, exist_ok=True)
        lock = open(os.path.join(facts_mod.CACHE, "lock"), "w")
        fcntl.flock(lock, fcntl.LOCK_EX)
        try:
            facts_mod.build_driver()
            facts_mod.run_driver(out, repo=self.dir)
        finally:
            fcntl.flock(lock, fcntl.LOCK_UN)
            lock.close()
        with open(out) as fh:
            data = json.load(fh)
        os.remove(out)
        return facts_mod.Facts(data, {"tree_hash": "scratch"})
