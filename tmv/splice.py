"""MIR-level splicing of NEW helper functions into their callers.

A crate-local function that does not exist on the pinned tree (ledgers/known_functions.json lists the pinned tree's
functions) is an extracted helper: the statements it holds used to stand in its callers, and every rule that reasons
about "the loop in newly_release" or "the path from the read to the write" was written against that shape.  Rather
than teaching each rule to look through calls, the helper's control-flow graph is copied into each caller:

    bb_call:  ...; _d = helper(a1, a2) -> bb_next          bb_call:  ...; p1' = a1; p2' = a2; goto entry'
                                                    ==>     entry' .. (the helper's blocks, locals and blocks renumbered)
                                                            return' :  _d = move _0'; goto bb_next

The result is an ordinary body for mir.Body: loops of the helper are loops of the caller, its guards are guards on the
caller's paths.  The helper itself stays in the fact base as a function of its own (rule sets that inventory every
function -- C14's panic sites, C20's error paths -- look at the unspliced bodies: Facts.bodies follows
mir.Walker.AUTO_INLINE).

Not spliced: closures (they are inlined by the walker where they are called), functions of test modules, recursive
helpers, helpers of more than 250 blocks, pure bool predicates (they stay atoms; tables.expand_pure opens them on
demand), helpers nested more than three deep.
"""
import copy
import json
import os
import re

_KNOWN = None


def known_functions():
    global _KNOWN
    if _KNOWN is None:
        pth = os.path.join(os.path.dirname(os.path.dirname(os.path.abspath(__file__))), "ledgers", "known_functions.json")
        try:
            with open(pth) as fh:
                _KNOWN = set(json.load(fh)["functions"])
        except Exception:
            _KNOWN = set()
    return _KNOWN


def _rename(o, lmap, bmap, refmap=None):
    """deep copy of a statement / terminator / debug entry with locals and block numbers renamed.
    refmap: renamed parameter local -> the caller's place it is a reference to (`helper(&mut flag)` with `flag` a local of
    the caller): `*param` in the helper IS that place, so a write through the out-parameter becomes a plain assignment to
    the caller's variable (references are otherwise transparent to the walker, which would not see the variable change)"""
    if isinstance(o, dict):
        if "l" in o and "p" in o and isinstance(o["p"], list):
            nl = lmap(o["l"])
            proj = [dict(e, local=lmap(e["local"])) if e.get("k") == "index" else dict(e) for e in o["p"]]
            if refmap and nl in refmap and proj and proj[0].get("k") == "deref":
                base = refmap[nl]
                return {"l": base["l"], "p": [dict(e) for e in base["p"]] + proj[1:]}
            return {"l": nl, "p": proj}
        out = {}
        for k, v in o.items():
            if k == "t" and isinstance(v, int):
                out[k] = bmap(v)
            elif k == "otherwise" and isinstance(v, int):
                out[k] = bmap(v)
            elif k == "targets" and isinstance(v, list):
                out[k] = [[x[0], bmap(x[1])] for x in v]
            else:
                out[k] = _rename(v, lmap, bmap, refmap)
        return out
    if isinstance(o, list):
        return [_rename(v, lmap, bmap, refmap) for v in o]
    return o


def _callee_name(t):
    from . import mir
    return mir.norm_callee(t)


def splice_body(b, bodies, is_new, stack=(), depth=0):
    """-> a body dict with every call of a new helper replaced by the helper's blocks (or `b` itself)"""
    calls = []
    for blk in b["blocks"]:
        t = blk["term"]
        if t["k"] == "call" and not blk["cleanup"]:
            name = _callee_name(t)
            if name != b["path"] and name not in stack and is_new(name) and depth < 3:
                calls.append((blk["i"], name))
    if not calls:
        return b
    nb = dict(b)
    nb["locals"] = list(b["locals"])
    nb["debug"] = list(b["debug"])
    nb["blocks"] = [dict(x) for x in b["blocks"]]
    nb["spliced"] = list(b.get("spliced", []))
    byi = {x["i"]: x for x in nb["blocks"]}
    for bi, name in calls:
        callee = splice_body(bodies[name], bodies, is_new, stack + (b["path"],), depth + 1)
        L = max(l["i"] for l in nb["locals"]) + 1
        B = max(x["i"] for x in nb["blocks"]) + 1
        lmap = (lambda l, L=L: l + L)
        bmap = (lambda i, B=B: i + B)
        blk = byi[bi]
        t = blk["term"]
        if len(t["args"]) != callee["argc"]:
            continue          # (a rust-call ABI mismatch: leave the call alone)
        for l in callee["locals"]:
            nb["locals"].append({"i": l["i"] + L, "ty": l["ty"]})
        for d in callee["debug"]:
            nb["debug"].append({"name": d["name"], "v": _rename(d["v"], lmap, bmap) if "l" in d["v"] else d["v"]})
        # out-parameters: an argument that is `&mut X` / `&X` of a plain local X of the caller, built just before the call
        refmap = {}
        for ai, a in enumerate(t["args"]):
            if a.get("k") in ("move", "copy") and not a["place"]["p"]:
                tl = a["place"]["l"]
                base = None
                cur = tl
                for _hop in range(3):
                    found = None
                    for st in reversed(blk["stmts"]):
                        if st.get("k") == "assign" and st["lhs"]["l"] == cur and not st["lhs"]["p"]:
                            found = st["rv"]
                            break
                    if not (found and found.get("k") == "ref"):
                        break
                    pl = found["place"]
                    if not pl["p"]:
                        base = pl                      # t = &mut X
                        break
                    if len(pl["p"]) == 1 and pl["p"][0].get("k") == "deref":
                        cur = pl["l"]                  # t = &mut *u   (a reborrow): go on with u
                        continue
                    break
                if base is not None and callee["locals"][1 + ai]["ty"].startswith("&") and base["l"] > b["argc"] \
                        and re.match(r"^&(mut )?(bool|[iu](8|16|32|64|size)|[\w:]+)$", callee["locals"][1 + ai]["ty"]) and "Vec" not in callee["locals"][1 + ai]["ty"]:
                    refmap[L + 1 + ai] = base
        stmts = list(blk["stmts"])
        for ai, a in enumerate(t["args"]):
            stmts.append({"k": "assign", "lhs": {"l": L + 1 + ai, "p": []}, "rv": {"k": "use", "op": copy.deepcopy(a)}, "span": t["span"], "splice": "arg"})
        blk["stmts"] = stmts
        blk["term"] = {"k": "goto", "t": B + 0}
        blk["spliced_call"] = {"callee": name, "span": t["span"]}
        first = B
        for cb in callee["blocks"]:
            x = {"i": cb["i"] + B, "cleanup": cb["cleanup"], "stmts": _rename(cb["stmts"], lmap, bmap, refmap), "term": _rename(cb["term"], lmap, bmap, refmap)}
            if "spliced_call" in cb:
                x["spliced_call"] = cb["spliced_call"]
            x["from"] = cb.get("from", name)
            if x["term"]["k"] == "return":
                if "t" in t:
                    x["stmts"] = x["stmts"] + [{"k": "assign", "lhs": copy.deepcopy(t["dest"]), "rv": {"k": "use", "op": {"k": "move", "place": {"l": L, "p": []}}}, "span": t["span"], "splice": "ret"}]
                    x["term"] = {"k": "goto", "t": t["t"]}
                else:
                    x["term"] = {"k": "unreachable"}
            nb["blocks"].append(x)
            byi[x["i"]] = x
        nb["spliced"].append({"callee": name, "at": bi, "blocks": [first, first + len(callee["blocks"]) - 1], "line": t["span"]["line"]})
    return nb


def splice_all(facts_bodies, pure):
    known = known_functions()
    if not known:
        return facts_bodies

    def is_new(name):
        if name not in facts_bodies or name in known or "{closure" in name or "::tests::" in name or name in pure:
            return False
        return len(facts_bodies[name]["blocks"]) <= 250
    if not any(is_new(n) for n in facts_bodies):
        return facts_bodies
    out = {}
    for path, b in facts_bodies.items():
        if "::tests::" in path or path.endswith("::tests"):
            out[path] = b
            continue
        out[path] = splice_body(b, facts_bodies, is_new, (), 0)
    return out


def spliced_away(raw_bodies, spliced_bodies):
    """new helpers that live on only inside their callers: spliced at least once, and no call of them is left in any
    non-test body.  (A helper that is still called somewhere, or that nothing calls, is analysed as a function.)"""
    if spliced_bodies is raw_bodies:
        return set()
    used = set()
    left = set()
    for path, b in spliced_bodies.items():
        if "::tests::" in path:
            continue
        for sp in b.get("spliced", ()):
            used.add(sp["callee"])
        for blk in b["blocks"]:
            for x in ([blk.get("spliced_call")] if blk.get("spliced_call") else []):
                used.add(x["callee"])
            t = blk["term"]
            if t["k"] == "call" and not blk["cleanup"]:
                left.add(_callee_name(t))
    # (a helper's own body is kept unspliced-into only at depth; calls left inside helpers that are themselves away do not count)
    away = set(n for n in used if n in raw_bodies)
    changed = True
    while changed:
        changed = False
        for n in sorted(away):
            callers = [p for p, b in spliced_bodies.items() if "::tests::" not in p and p not in away and p != n
                       and any(blk["term"]["k"] == "call" and not blk["cleanup"] and _callee_name(blk["term"]) == n for blk in b["blocks"])]
            if callers:
                away.discard(n)
                changed = True
    return away
