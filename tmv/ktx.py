"""Transaction recogniser over key_transforms effects (C19 discipline); results reused by C01/C02/C05/C07."""
from . import mir, kt
from .kt import HELD, MOD, list_of
from .mir import T, show, method_name, mentions


class Tx:
    def __init__(self, kind, fn, lists, key, fx, effs, guard_ok=True, why=None, note=None):
        self.kind = kind          # PRESS RELEASE MOVE REPRESS REPRESS+MOVE BATCHPUSH BATCHEMIT BATCHDEL RETAIN->BATCH
        self.fn = fn
        self.lists = lists
        self.key = key
        self.fx = fx
        self.effs = effs
        self.guard_ok = guard_ok
        self.why = why
        self.note = note

    def site(self):
        e = self.effs[0].ev
        return e.span if e is not None else None

    def sig(self):
        return "%s[%s]" % (self.kind, ",".join(str(l) for l in self.lists))


def other(l):
    return "MO" if l == "PT" else "PT"


def guard_val(guards, pred):
    for a, v in guards:
        if pred(a):
            return v
    return None


def in_atom(key, lst_abbr, fxpath):
    """predicate for the membership atom  key in <State list lst_abbr>"""
    def pred(a):
        return (isinstance(a, tuple) and a and a[0] == "in" and list_of(a[2]) == lst_abbr and fxpath.same_key(a[1], key))
    return pred


def in_local_atom(key, local, fxpath):
    def pred(a):
        return isinstance(a, tuple) and a and a[0] == "in" and list_of(a[2]) == local and fxpath.same_key(a[1], key)
    return pred


class Analysis:
    """runs the recogniser over every path of every key_transforms function"""

    def __init__(self, ctx, K=None):
        self.ctx = ctx
        self.K = K or kt.KT(ctx)
        self.txs = []
        self.problems = []     # (fn, construct, detail, site)
        self.batches = {}      # (fn, local id) -> dict(pushes=[], emits=[], dels=[], fed_by_retain=[])
        self.emit_sites = set()
        self._run()

    def problem(self, fn, construct, detail, ev=None):
        self.problems.append((fn, construct, detail, ev.span if ev is not None else None))

    def _batch(self, fn, local):
        return self.batches.setdefault((fn, local), {"pushes": [], "emits": [], "dels": [], "retain_feeds": []})

    def _run(self):
        for body in self.K.fn_bodies:
            fn = body.path
            for fx in self.K.path_fx(body):
                self._path(fn, fx, None, None)

    # ---- one path
    def _path(self, fn, fx, retain_eff, verdict):
        effs = fx.effects
        used = set()

        def held(l):
            return l in HELD

        # context of a retain closure path
        retelem = None
        retlist = None
        if retain_eff is not None:
            retlist = retain_eff.lst
            retelem = T("retelem", mir.strip(retain_eff.ev.b[0]), retain_eff.ev.blk)

        emits = [e for e in effs if e.kind == "EMIT"]
        for e in emits:
            self.emit_sites.add((fx.body.path, e.ev.blk))
        adds = [e for e in effs if e.kind == "ADD" and held(e.lst)]
        dels = [e for e in effs if e.kind == "DEL" and held(e.lst)]
        retains = [e for e in effs if e.kind == "RETAIN"]
        for e in effs:
            if e.kind.startswith("OTHERMUT") and (held(e.lst)):
                self.problem(fn, "unrecognised-mutation:%s:%s" % (e.lst, e.kind.split(":")[1]), "mutation of a held-key list outside the transaction idioms", e.ev)

        # removals performed by this path: explicit DELs, the visited element of a retain-closure path
        # returning false, and inline retains of the form |k| k != x
        removals = [(d.lst, d.key, d) for d in dels]
        if retain_eff is not None and verdict == "remove" and held(retlist):
            removals.append((retlist, retelem, None))
        for r in retains:
            if held(r.lst) and r.sub:
                x = self._retain_removes_key(r)
                if x is not None:
                    removals.append((r.lst, x, r))

        # ---------- EMITs
        i = 0
        while i < len(emits):
            e = emits[i]
            x = e.key
            var = e.aux
            g = fx.guards_before(e)
            if var == "Released":
                nxt = emits[i + 1] if i + 1 < len(emits) else None
                # batch emit: key is the element of an iteration over a local batch vector
                bsrc = self._batch_source(x)
                direct = [1 for (l, k, src) in removals if fx.same_key(k, x)]
                if bsrc is not None and retain_eff is None and not direct and not (nxt is not None and nxt.aux == "Pressed" and fx.same_key(nxt.key, x)):
                    b = self._batch(fn, bsrc)
                    uncond = not [1 for (a, v) in g if not self._is_next_guard(a)]
                    b["emits"].append((fx, e, uncond))
                    self.txs.append(Tx("BATCHEMIT", fn, [bsrc], x, fx, [e]))
                    i += 1
                    continue
                if nxt is not None and nxt.aux == "Pressed" and fx.same_key(nxt.key, x):
                    # REPRESS (+MOVE)
                    inmo = guard_val(g, in_atom(x, "MO", fx))
                    inpt = guard_val(g, in_atom(x, "PT", fx))
                    ok = inmo is True or inpt is True
                    mv = [(l, k, src) for (l, k, src) in removals if fx.same_key(k, x)]
                    ad = [a for a in adds if fx.same_key(a.key, x)]
                    kind = "REPRESS"
                    lists = ["MO" if inmo is True else "PT"]
                    if mv or ad:
                        kind = "REPRESS+MOVE"
                        okmv = len(mv) == 1 and len(ad) == 1 and ad[0].lst == other(mv[0][0]) and \
                            ((mv[0][0] == "PT" and inpt is True) or (mv[0][0] == "MO" and inmo is True))
                        ok = ok and okmv
                        lists = [mv[0][0] if mv else "?", ad[0].lst if ad else "?"]
                        for a in ad:
                            used.add(id(a))
                        for m in mv:
                            used.add(id(m[2]) if m[2] is not None else "closure-elem")
                    self.txs.append(Tx(kind, fn, lists, x, fx, [e, nxt], guard_ok=ok,
                                       why=None if ok else "re-press of a key that is not known to be held (no positive membership guard on PT/MO)"))
                    i += 2
                    continue
                # RELEASE: a removal of the same key from PT/MO on this path
                rm = [(l, k, src) for (l, k, src) in removals if fx.same_key(k, x)]
                if rm:
                    for m in rm:
                        used.add(id(m[2]) if m[2] is not None else "closure-elem")
                    # `list.retain(|k| *k != x)` removes x only IF it is there: the release is justified only where a
                    # membership test on that very list was true on the way (an indexed removal names an element that
                    # is there by construction)
                    unproved = [m for m in rm if m[2] is not None and getattr(m[2], "kind", "") == "RETAIN" and guard_val(g, in_atom(x, m[0], fx)) is not True]
                    okr = not unproved
                    self.txs.append(Tx("RELEASE", fn, [m[0] for m in rm], x, fx, [e], guard_ok=okr,
                                       why=None if okr else "Released(%s) is emitted and %s.retain(..) drops the key if present, but nothing on this path shows the key IS in %s (it may be up, or held in the other list)"
                                       % (show(x)[:50], unproved[0][0], unproved[0][0])))
                else:
                    self.txs.append(Tx("RELEASE", fn, [], x, fx, [e], guard_ok=False,
                                       why="Released(%s) is emitted but the key is not removed from pass_through_keys/mapped_output_keys on this path" % show(x)[:60]))
                i += 1
                continue
            # Pressed
            ad = [a for a in adds if fx.same_key(a.key, x)]
            if len(ad) == 1:
                used.add(id(ad[0]))
                notpt = guard_val(g, in_atom(x, "PT", fx)) is False
                notmo = guard_val(g, in_atom(x, "MO", fx)) is False
                via = None
                if notpt and not notmo and ad[0].lst == "PT":
                    via = "via-I2"   # discharged by invariant, premises checked by C19-I2 in the rule module
                ok = (notpt and notmo) or via is not None
                self.txs.append(Tx("PRESS", fn, [ad[0].lst], x, fx, [e, ad[0]], guard_ok=ok, note=via,
                                   why=None if ok else "Pressed(%s) without the guards `not in pass_through_keys` and `not in mapped_output_keys` (have: notPT=%s notMO=%s)" % (show(x)[:50], notpt, notmo)))
            else:
                self.txs.append(Tx("PRESS", fn, [], x, fx, [e], guard_ok=False,
                                   why="Pressed(%s) is emitted but the key is not recorded in exactly one of pass_through_keys/mapped_output_keys (%d pushes)" % (show(x)[:50], len(ad))))
            i += 1

        # ---------- ADDs not yet explained: MOVE or batch pushes
        for a in adds:
            if id(a) in used:
                continue
            mv = [(l, k, src) for (l, k, src) in removals if fx.same_key(k, a.key) and l == other(a.lst)
                  and (id(src) if src is not None else "closure-elem") not in used]
            if len(mv) == 1:
                used.add(id(mv[0][2]) if mv[0][2] is not None else "closure-elem")
                self.txs.append(Tx("MOVE", fn, [mv[0][0], a.lst], a.key, fx, [a]))
            else:
                self.txs.append(Tx("MOVE", fn, ["?", a.lst], a.key, fx, [a], guard_ok=False,
                                   why="%s gains %s without an emitted press and without removing it from %s" % (a.lst, show(a.key)[:50], other(a.lst))))
        # ---------- removals not yet explained
        for (l, k, src) in removals:
            if src is None:
                # retain-closure verdict `remove` for the visited element
                explained = any(fx.same_key(t.key, k) for t in self.txs if t.fx is fx and t.kind in ("RELEASE", "MOVE", "REPRESS+MOVE"))
                if not explained:
                    # element handed to a local batch?
                    badd = [e for e in effs if e.kind == "ADD" and isinstance(e.lst, tuple) and e.lst[0] == "local" and fx.same_key(e.key, k)]
                    if len(badd) == 1:
                        b = self._batch(fn, badd[0].lst[1])
                        b["retain_feeds"].append((fx, badd[0], l))
                        self.txs.append(Tx("RETAIN->BATCH", fn, [l, badd[0].lst[1]], k, fx, [badd[0]]))
                    else:
                        self.txs.append(Tx("DROP", fn, [l], k, fx, [retain_eff], guard_ok=False,
                                           why="an element leaves %s in a retain closure without being released, moved or collected for release" % l))
                continue
            if id(src) in used:
                continue
            self.txs.append(Tx("DROP", fn, [l], k, fx, [src], guard_ok=False,
                               why="%s loses %s without a Released event and without moving it to %s" % (l, show(k)[:50], other(l))))

        # ---------- batch pushes outside retain closures
        if retain_eff is None:
            for e in effs:
                if e.kind == "ADD" and isinstance(e.lst, tuple) and e.lst[0] == "local":
                    b = self._batch(fn, e.lst[1])
                    b["pushes"].append((fx, e))
        # ---------- retains: recurse into closure paths / batch deletions
        # "release everything in L that satisfies G": the Released events are collected from a filtered walk over the
        # held lists themselves, and each list is then pruned by a retain that drops exactly the elements satisfying G
        bulk_done = set()
        for e in effs:
            if e.kind != "MAPEMIT":
                continue
            variant, it, res = e.aux
            base = it[1] if isinstance(it, tuple) and it[0] == "iter" else it
            if isinstance(list_of(base), tuple):
                continue        # a local batch: handled below
            from . import tables
            pl = tables.pipeline(self.ctx.body, it)
            if pl["problems"] or pl["enum"] or variant != "Released":
                continue
            lists = [list_of(b_[1]) for b_ in pl["bases"]]
            if not lists or not all(held(l_) for l_ in lists) or len(set(lists)) != len(lists):
                continue
            keyok = isinstance(e.key, tuple) and e.key[0] == "mapelem" and pl["elem"] == T("elem", pl["base"], None)
            okall = keyok
            why = None if keyok else "the mapped value is not the visited key itself"
            for b_, l_ in zip(pl["bases"], lists):
                rs = [r for r in retains if r.lst == l_ and r.pos > e.pos and r.sub and len(r.sub) == 1]
                if len(rs) != 1:
                    okall, why = False, "%s is walked for Released events but not pruned by exactly one later retain" % l_
                    continue
                r = rs[0]
                sub, verdict = r.sub[0]
                relem = T("retelem", mir.strip(r.ev.b[0]), r.ev.blk)
                G = [(mir.subst(a, {T("elem", pl["base"], None): relem, T("elem", b_, None): relem}) if isinstance(a, tuple) else a, v) for a, v in pl["guards"]]
                same = False
                pure = mir.Evaluator(fx.body, {})._is_pure
                impure = [x for x in sub.effects if not (x.kind == "CALL" and pure(x.key))]
                if isinstance(verdict, tuple) and verdict[0] == "expr" and not impure and len(G) == 1:
                    keep = verdict[1]
                    ga, gv = G[0]
                    same = (keep == T("not", ga) and gv is True) or (keep == ga and gv is False)
                if not same:
                    okall, why = False, "the retain on %s does not drop exactly the keys that were collected for release" % l_
                    continue
                if any(x.pos > e.pos and x.pos < r.pos and x.lst == l_ and x.kind in ("ADD", "DEL", "RETAIN") and x is not r for x in effs):
                    okall, why = False, "%s changes between the walk and the retain" % l_
                bulk_done.add(id(r))
            bulk_done.add(id(e))
            self.emit_sites.add((fx.body.path, e.ev.blk))
            self.txs.append(Tx("BULKRELEASE", fn, lists, None, fx, [e], guard_ok=okall, why=why))
        for r in retains:
            if id(r) in bulk_done:
                continue
            if not r.sub:
                if held(r.lst):
                    self.problem(fn, "retain-closure-unreadable:%s" % r.lst, "retain with a non-closure predicate", r.ev)
                continue
            if not held(r.lst):
                continue
            bd = self._retain_batchdel(r)
            if bd is not None:
                b = self._batch(fn, bd)
                b["dels"].append((fx, r))
                self.txs.append(Tx("BATCHDEL", fn, [r.lst, bd], None, fx, [r]))
                continue
            if self._retain_removes_key(r) is not None:
                continue
            for sub, verdict2 in r.sub:
                if isinstance(verdict2, tuple) or verdict2 == "?":
                    self.problem(fn, "retain-closure-verdict-not-constant:%s" % r.lst, "closure result %s" % (show(verdict2[1])[:80] if isinstance(verdict2, tuple) else "?"), r.ev)
                    continue
                if verdict2 == "keep":
                    if [e for e in sub.effects if e.kind in ("EMIT", "ADD", "DEL") and (e.kind == "EMIT" or held(e.lst) or isinstance(e.lst, tuple))]:
                        self.problem(fn, "retain-keep-path-has-effects:%s" % r.lst, "%s" % sub.effects, r.ev)
                    continue
                self._path(fn, sub, r, verdict2)
        # MAPEMIT
        for e in effs:
            if e.kind == "MAPEMIT" and id(e) not in bulk_done:
                variant, it, res = e.aux
                base = it[1] if isinstance(it, tuple) and it[0] == "iter" else it
                l = list_of(base)
                if isinstance(l, tuple):
                    b = self._batch(fn, l[1])
                    keyok = isinstance(e.key, tuple) and e.key[0] == "mapelem"
                    b["emits"].append((fx, e, keyok and variant == "Released"))
                    self.txs.append(Tx("BATCHEMIT", fn, [l[1]], None, fx, [e], guard_ok=variant == "Released" and keyok,
                                       why=None if (variant == "Released" and keyok) else "batch is mapped to %s events" % variant))
                    self.emit_sites.add((fx.body.path, e.ev.blk))
                else:
                    self.problem(fn, "map-collect-over-non-batch", show(base)[:60], e.ev)

    @staticmethod
    def _is_next_guard(a):
        return isinstance(a, tuple) and a and a[0] == "variantof" and isinstance(a[1], tuple) and a[1][0] == "next"

    @staticmethod
    def _batch_source(x):
        """x = elem(iter(B)) with B a local vector -> local id"""
        if isinstance(x, tuple) and x and x[0] == "elem":
            it = x[1]
            if isinstance(it, tuple) and it[0] == "iter":
                l = list_of(it[1])
                if isinstance(l, tuple) and l[0] == "local":
                    return l[1]
        return None

    @staticmethod
    def _retain_batchdel(r):
        """retain(L, |k| !B.contains(k)) -> local id of B"""
        if len(r.sub) != 1:
            return None
        sub, verdict = r.sub[0]
        if not isinstance(verdict, tuple) or sub.effects:
            return None
        t = verdict[1]
        if isinstance(t, tuple) and t[0] == "not" and isinstance(t[1], tuple) and t[1][0] == "in":
            k, lst = t[1][1], t[1][2]
            l = list_of(lst)
            if isinstance(k, tuple) and k[0] == "retelem" and isinstance(l, tuple) and l[0] == "local":
                return l[1]
        return None

    @staticmethod
    def _retain_removes_key(r):
        """retain(L, |k| k != x) -> x"""
        if not r.sub or len(r.sub) != 1:
            return None
        sub, verdict = r.sub[0]
        if not isinstance(verdict, tuple) or sub.effects:
            return None
        t = verdict[1]
        if isinstance(t, tuple) and t[0] == "not" and isinstance(t[1], tuple) and t[1][0] == "eq":
            a, b = t[1][1], t[1][2]
            if isinstance(a, tuple) and a[0] == "retelem":
                return mir.strip(b)
            if isinstance(b, tuple) and b[0] == "retelem":
                return mir.strip(a)
        return None
