"""Anchor/segment abstraction of the per-device loop (shared by C10, C11, C12).

Anchors are the blocks where the loop talks to the outside world or advances the device list:
  ENTRY, POLL, NEXT_KB, NEXT_TAB (Driver trait calls), DEVNEXT (Iterator::next on the device list that
  POLL returned), RETURN.
A *segment* is one acyclic path from an anchor to the next anchor, produced by the path walker with
uninterpreted terms.  Every execution of the loop – whatever the schedule – is a concatenation of
segments, so a rule that holds for every segment holds for every schedule.

If the Driver calls are not all in the loop function itself (a helper was extracted) the crate-local
helpers are *not* inlined here; the rule set then reports `unrecognised-shape` (fail closed).
"""
from . import mir
from .mir import T, mentions, show, Walker, subterms, Ev
from .report import Unrecognised

LOOP = "remapping_loop::do_remapping_loop_one_device"
DRV = "remapping_loop::Driver::"
STEP = "key_transforms::Mapper::step"
RELALL = "key_transforms::Mapper::release_all"


class Seg:
    def __init__(self, src, path, body):
        self.src = src            # anchor name
        self.p = path
        self.events = path.events
        self.body = body
        oc = path.outcome
        self.dst = None
        self.outcome = oc

    def calls(self, name):
        return [e for e in self.events if e.kind == "call" and e.a == name]

    def has_call(self, name):
        return any(e.kind == "call" and e.a == name for e in self.events)

    def guard_val(self, pred):
        for e in self.events:
            if e.kind == "guard" and pred(e.a):
                return e.b
        return None

    def __repr__(self):
        return "Seg(%s -> %s: %s)" % (self.src, self.dst, [repr(e)[:100] for e in self.events if e.kind != "assert"])


class LoopModel:
    def __init__(self, ctx):
        self.ctx = ctx
        body = ctx.body(LOOP)
        self.body = body
        # crate-local helpers in the loop's cone that (transitively) talk to the Driver or the Mapper are
        # inlined into the loop's paths (P2, depth <= 3); anchors must nevertheless sit in the loop body itself
        cone = ctx.cone([LOOP])
        cg = ctx.callgraph()
        direct = set()
        for p in cone:
            if p == LOOP or (p.startswith("<") and " as remapping_loop::Driver>" in p) or p.startswith("key_transforms::") or "{closure" in p:
                continue
            b = ctx.body(p)
            names = [n for _, n, _ in b.calls()]
            if any(n.startswith(DRV) or n in (STEP, RELALL) for n in names):
                direct.add(p)
                if any(n[len(DRV):] in ("poll", "next_keyboard", "next_tablet") for n in names if n.startswith(DRV)):
                    raise Unrecognised("poll-or-read-call-outside-the-loop-body:" + p)
        helpers = set(direct)
        changed = True
        while changed:
            changed = False
            for p in cone:
                if p in helpers or p == LOOP or p.startswith("key_transforms::") or "{closure" in p or p.startswith("<"):
                    continue
                if any(c in helpers for c in cg.get(p, ())):
                    helpers.add(p)
                    changed = True
        self.inline = helpers
        self.anchors = {}   # block -> name
        self.by_name = {}
        for i, name, t in body.calls():
            if name.startswith(DRV):
                m = name[len(DRV):]
                if m in ("poll", "next_keyboard", "next_tablet"):
                    nm = {"poll": "POLL", "next_keyboard": "NEXT_KB", "next_tablet": "NEXT_TAB"}[m]
                    if nm in self.by_name:
                        raise Unrecognised("several-%s-call-sites" % nm)
                    self.anchors[i] = nm
                    self.by_name[nm] = i
        for nm in ("POLL", "NEXT_KB", "NEXT_TAB"):
            if nm not in self.by_name:
                raise Unrecognised("missing-driver-call:" + nm)
        # DEVNEXT: Iterator::next call whose iterator derives from the POLL result
        self.poll_term = None
        w = Walker(body)
        devnext = []
        for i, name, t in body.calls():
            if mir.method_name(name) == "next" and "Iterator" in name:
                gt = mir.Evaluator(body, None).call_term(t, i)
                if gt[0] == "next" and any(isinstance(s, tuple) and s and s[0] == "call" and s[1] == DRV + "poll" for s in subterms(gt)):
                    devnext.append(i)
        if len(devnext) != 1:
            raise Unrecognised("device-list-iteration-not-found(%d candidates)" % len(devnext))
        self.anchors[devnext[0]] = "DEVNEXT"
        self.by_name["DEVNEXT"] = devnext[0]
        self.segments = []
        self._build()

    def _build(self):
        body = self.body
        loops = body.loops()
        # loops that contain an anchor are walked through (the anchors cut their cycles);
        # other loops (chord construction) are summarised by the walker
        plain = {h for h, blks in loops.items() if any(a in blks for a in self.anchors)}
        self.plain = plain
        self.inner_loops = sorted(set(loops) - plain)
        starts = [("ENTRY", 0)] + [(nm, b) for b, nm in sorted(self.anchors.items())]
        for nm, b in starts:
            stops = set(self.anchors) - ({b} if nm != "ENTRY" else set())
            w = Walker(body, max_paths=50000, inline=self.inline)
            paths = w.walk(b, stops=set(self.anchors), plain_headers=plain, start_is_header=False)
            for p in paths:
                s = Seg(nm, p, body)
                oc = p.outcome
                if oc[0] == "stop":
                    s.dst = self.anchors[oc[1]]
                elif oc[0] == "return":
                    s.dst = "RETURN"
                elif oc[0] in ("unreachable", "infeasible"):
                    continue
                else:
                    s.dst = "?" + oc[0]
                self.segments.append(s)

    def from_(self, nm):
        return [s for s in self.segments if s.src == nm]

    # ---- helpers for rules
    @staticmethod
    def result_variant(seg, method):
        """variant of the Ok payload of the anchor's Driver call on this segment: One/Busy/End, TimedOut/…,
        'ERR' on the error edge, None if not inspected"""
        R = None
        for e in seg.events:
            if e.kind == "call" and e.a == DRV + method:
                R = e.c
                break
        if R is None:
            return None, None
        for e in seg.events:
            if e.kind == "guard" and e.a == T("variantof", T("try", R)) and e.b == "Break":
                return "ERR", R
            if e.kind == "guard" and e.a == T("variantof", R) and e.b == "Err":
                return "ERR", R     # the Result is matched by hand instead of with `?`
        for base in LoopModel.ok_bases(R):
            for e in seg.events:
                if e.kind == "guard" and e.a == T("variantof", base):
                    return e.b, R
        return None, R

    @staticmethod
    def ok_bases(R):
        """the Ok payload of a Driver call's Result, as reached through `?` or through a hand-written match"""
        return [T("okval", R), T("field", T("variant", R, "Ok"), "0")]

    @staticmethod
    def ok_base(seg, R):
        for base in LoopModel.ok_bases(R):
            for e in seg.events:
                if e.kind == "guard" and e.a == T("variantof", base):
                    return base
        return T("okval", R)


# --------------------------------------------------------------------------
# roles and per-segment traces

def const_bool(t):
    v = mir.const_int(t)
    if v is None:
        return None
    if isinstance(t, tuple) and t[0] == "const" and t[1][2] == "bool":
        return bool(v)
    return None


class Roles:
    """identifies, by role rather than by name, the tablet flag, the timer state and the poll timeout"""

    def __init__(self, M):
        self.M = M
        body = M.body
        # timer: the user local of type WorkingRepeat
        timers = [l for l, ty in body.ltypes.items() if ty == "remapping_loop::WorkingRepeat" and body.dbg.get(l)]
        if len(timers) > 1:
            # bindings introduced by `?` (val) or by a match arm are assigned once; the state variable is assigned
            # in several places
            multi = [l for l in timers if len(body.defs.get(l, ())) > 1]
            if len(multi) == 1:
                timers = multi
        if len(timers) != 1:
            raise Unrecognised("timer-state-local-not-unique(%d)" % len(timers))
        self.timer = timers[0]
        # flag: bool user local assigned a constant in a NEXT_TAB segment under an On/Off guard
        cands = {}
        for s in M.from_("NEXT_TAB"):
            arm = s.guard_val(lambda a: isinstance(a, tuple) and a[0] == "variantof" and isinstance(a[1], tuple)
                              and a[1][0] == "field" and isinstance(a[1][1], tuple) and a[1][1][0] == "variant" and a[1][1][2] == "One")
            if arm not in ("On", "Off"):
                continue
            for e in s.events:
                if e.kind == "set" and body.ltypes.get(e.a) == "bool":
                    cb = const_bool(e.b)
                    if cb is not None:
                        cands.setdefault(e.a, set()).add((arm, cb))
        flags = [l for l, v in cands.items() if len({a for a, _ in v}) == 2]
        if len(flags) != 1:
            raise Unrecognised("tablet-flag-local-not-unique(%d)" % len(flags))
        self.flag = flags[0]
        self.flag_arms = cands[self.flag]
        # timeout: the local passed as 3rd argument of POLL
        pb = M.by_name["POLL"]
        t = body.blocks[pb]["term"]
        if len(t["args"]) != 3 or t["args"][2]["k"] not in ("copy", "move") or t["args"][2]["place"]["p"]:
            raise Unrecognised("poll-timeout-argument-shape")
        gt = body.gterm_local(t["args"][2]["place"]["l"])
        if not (isinstance(gt, tuple) and gt[0] == "var"):
            raise Unrecognised("poll-timeout-argument-not-a-variable")
        self.timeout = gt[1]

    def var0(self, l):
        return T("var", l, self.M.body.dbg.get(l, ""), 0)

    def flag_view(self, atom):
        """is `atom` the tablet flag (-> +1), or a scalar local assigned exactly once from the flag / its negation
        (a copy taken earlier: -> +1 / -1)?  None otherwise"""
        if atom == self.var0(self.flag):
            return 1
        if not (isinstance(atom, tuple) and atom and atom[0] == "var" and len(atom) > 1 and isinstance(atom[1], int)):
            return None
        body = self.M.body
        l = atom[1]
        pol = 1
        for _ in range(4):
            defs = body.defs.get(l, ())
            if len(defs) != 1:
                return None
            blk, idx = defs[0][0], defs[0][1] if len(defs[0]) > 1 else None
            st = None
            try:
                st = body.blocks[blk]["stmts"][idx]
            except Exception:
                return None
            if st.get("k") != "assign" or st["lhs"]["p"]:
                return None
            rv = st["rv"]
            if rv["k"] == "unop" and rv.get("op") == "Not":
                pol = -pol
                op = rv["a"]
            elif rv["k"] == "use":
                op = rv["op"]
            else:
                return None
            if op["k"] not in ("copy", "move") or op["place"]["p"]:
                return None
            l = op["place"]["l"]
            if l == self.flag:
                return pol
        return None


class Trace:
    """significant events of one segment with the symbolic value of flag/timer at each point"""

    def __init__(self, seg, roles):
        self.seg = seg
        self.roles = roles
        body = seg.body
        flag = roles.var0(roles.flag)
        timer = roles.var0(roles.timer)
        known_flag = None      # True/False once decided by a guard on flag@0
        self.items = []        # (kind, event, flag_value, timer_term)
        self.timer_variant = {}  # timer term -> variant decided by guard
        cur_flag = ("sym", flag)
        for e in seg.events:
            if e.kind == "guard":
                if e.a == flag and isinstance(e.b, bool):
                    known_flag = e.b
                if isinstance(e.a, tuple) and e.a[0] == "variantof" and isinstance(e.b, str):
                    self.timer_variant.setdefault(e.a[1], e.b)
                elif isinstance(e.a, tuple) and e.a[0] == "variantof" and isinstance(e.b, tuple) and e.b and e.b[0] == "other" \
                        and e.a[1] in (roles.var0(roles.timer), timer):
                    # `if let Repeating{..} = timer {..} else {..}`: "not Repeating" names the one remaining variant
                    adt = getattr(body.facts, "adts", {}).get(body.ltypes.get(roles.timer, ""))
                    rest = [v["name"] for v in (adt or {}).get("variants", ()) if v["name"] not in e.b[1]]
                    if len(rest) == 1:
                        self.timer_variant.setdefault(e.a[1], rest[0])
            if e.kind == "set" and e.a == roles.flag:
                cb = const_bool(e.b)
                cur_flag = ("const", cb) if cb is not None else ("sym", e.b)
                self.items.append(("SETFLAG", e, self._flagval(cur_flag, known_flag, flag), timer))
                continue
            if e.kind == "set" and e.a == roles.timer:
                timer = e.b
                self.items.append(("SETTIMER", e, self._flagval(cur_flag, known_flag, flag), timer))
                continue
            if e.kind == "store" and isinstance(e.a, tuple) and e.a[0] == "field" and isinstance(e.a[1], tuple) and e.a[1][0] == "variant" \
                    and e.a[1][1] in (roles.var0(roles.timer), timer):
                # one field of the timer state written in place (`*next_wakeup = ..` under `if let Repeating{..} = &mut timer`):
                # the same as assigning the whole value with the other fields copied
                new = self._updated(timer, e.a[1][2], e.a[2], e.b, body)
                if new is not None:
                    timer = new
                    self.items.append(("SETTIMER", Ev("set", e.blk, roles.timer, new, span=e.span), self._flagval(cur_flag, known_flag, flag), timer))
                    continue
            if e.kind == "set" and e.a == roles.timeout:
                self.items.append(("SETTIMEOUT", e, self._flagval(cur_flag, known_flag, flag), timer))
                continue
            if e.kind == "call":
                k = None
                if e.a == DRV + "send":
                    k = "SEND"
                elif e.a == STEP:
                    k = "STEP"
                elif e.a == RELALL:
                    k = "RELALL"
                elif e.a.startswith(DRV):
                    k = "DRV:" + e.a[len(DRV):]
                if k:
                    self.items.append((k, e, self._flagval(cur_flag, known_flag, flag), timer))
            if e.kind == "loop":
                self.items.append(("LOOP", e, self._flagval(cur_flag, known_flag, flag), timer))
        self.final_timer = timer
        self.final_flag = self._flagval(cur_flag, known_flag, flag)

    def _updated(self, timer, variant, field, val, body):
        if isinstance(timer, tuple) and timer and timer[0] == "agg":
            if timer[2] != variant or field not in timer[4]:
                return None
            ops = list(timer[3])
            ops[timer[4].index(field)] = val
            return T("agg", timer[1], timer[2], tuple(ops), timer[4])
        ty = body.ltypes.get(self.roles.timer, "")
        adt = getattr(body.facts, "adts", {}).get(ty)
        if not adt:
            return None
        for v in adt.get("variants", ()):
            if v["name"] == variant:
                names = tuple(f["name"] for f in v["fields"])
                if field not in names:
                    return None
                return T("agg", ty, variant, tuple(val if n == field else T("field", T("variant", timer, variant), n) for n in names), names)
        return None

    @staticmethod
    def _flagval(cur, known, flag0):
        if cur[0] == "const":
            return cur[1]
        if cur[1] == flag0:
            return known   # True / False / None (undecided)
        return None

    def of(self, kind):
        return [it for it in self.items if it[0] == kind]

    def timer_state(self, term):
        """Idle / Repeating / None(unknown) for a timer term on this segment"""
        if isinstance(term, tuple) and term and term[0] == "agg":
            return term[2]
        return self.timer_variant.get(term)


def payload_kind(M, ev):
    """classifies the payload of a SEND event: ('STEP', stepcall) / ('RELALL', call) / ('CHORD', vec) / ('OTHER', term)"""
    p = ev.b[1] if len(ev.b) > 1 else None
    if isinstance(p, tuple) and p:
        if p[0] == "field" and p[2] == "events" and isinstance(p[1], tuple) and p[1][0] == "call" and p[1][1] == STEP:
            return ("STEP", p[1])
        if p[0] == "call" and p[1] == RELALL:
            return ("RELALL", p)
        if p[0] == "call" and mir.method_name(p[1]) in ("new", "with_capacity") and "Vec" in p[1]:
            return ("CHORD", p)
        if chain_chord(p, M.ctx) is not None:
            return ("CHORD", p)
    return ("OTHER", p)


def chain_chord(p, ctx=None):
    """the chord written as one expression:  a.map(Pressed).chain(b.map(Released)).collect()
    -> (iterator a, variant built from its elements, iterator b, variant built from its elements) or None"""
    if not (isinstance(p, tuple) and p and p[0] == "call" and mir.method_name(p[1]) == "collect" and p[2]):
        return None
    c = p[2][0]
    if not (isinstance(c, tuple) and c and c[0] == "call" and mir.method_name(c[1]) == "chain" and len(c[2]) == 2):
        return None
    out = []
    for m in c[2]:
        if not (isinstance(m, tuple) and m and m[0] == "call" and mir.method_name(m[1]) == "map" and len(m[2]) == 2):
            return None
        it, f = m[2]
        if isinstance(f, tuple) and f and f[0] == "const" and isinstance(f[1], tuple) and f[1][0] == "fn" and f[1][1].rsplit("::", 2)[-2:-1] == ["Event"]:
            out += [it, f[1][1].rsplit("::", 1)[-1]]
        elif isinstance(f, tuple) and f and f[0] == "closure" and ctx is not None:
            # |k| Pressed(*k): one straight path that wraps the visited element
            elem = T("mapelem", it)
            try:
                cps, cb = mir.walk_closure(ctx.body, f, param_terms=[elem])
            except Exception:
                return None
            rets = [q for q in cps if q.outcome[0] == "return"]
            if len(rets) != 1 or any(e.kind in ("guard", "store", "call") for e in rets[0].events):
                return None
            r = rets[0].outcome[1]
            if not (isinstance(r, tuple) and r and r[0] == "agg" and r[1] == "events::Event" and len(r[3]) == 1 and mir.strip(r[3][0]) == elem):
                return None
            out += [it, r[2]]
        else:
            return None
    return tuple(out)
