"""Fact base: runs the tmfacts driver on /repo's current working tree and loads the result.

The fact file is cached by a content hash of everything the build reads
(src/**, Cargo.toml, Cargo.lock, build.rs if any) plus the driver binary, so
that the 20 checks share one compiler run; the hash is over the *current
working tree*, so an edited tree is always re-analysed.  Concurrent checks
serialise on a lock file.
"""
import fcntl
import hashlib
import json
import os
import shutil
import subprocess
import sys
import time

VERIF = os.path.dirname(os.path.dirname(os.path.abspath(__file__)))
REPO = os.environ.get("TM_REPO", "/repo")
CACHE = os.environ.get("TM_CACHE", os.path.join(VERIF, ".cache"))
DRIVER_DIR = os.path.join(VERIF, "engine", "tmfacts")
DRIVER = os.path.join(DRIVER_DIR, "target", "release", "tmfacts")


def _sh(cmd, **kw):
    return subprocess.run(cmd, shell=True, stdout=subprocess.PIPE, stderr=subprocess.STDOUT, text=True, **kw)


def nightly_sysroot():
    r = _sh("rustc +nightly --print sysroot")
    if r.returncode != 0:
        raise RuntimeError("nightly toolchain not available: " + r.stdout)
    return r.stdout.strip()


def build_driver(force=False):
    if os.path.exists(DRIVER) and not force:
        # rebuild if any source is newer than the binary
        newest = 0
        for root, _, files in os.walk(os.path.join(DRIVER_DIR, "src")):
            for f in files:
                newest = max(newest, os.path.getmtime(os.path.join(root, f)))
        if newest <= os.path.getmtime(DRIVER):
            return
    r = _sh("cargo +nightly build --release --offline", cwd=DRIVER_DIR,
            env=dict(os.environ, CARGO_NET_OFFLINE="true"))
    if r.returncode != 0:
        raise RuntimeError("building tmfacts failed:\n" + r.stdout)


def build_driver_locked():
    """build_driver under the driver's own lock (callers that do not already hold the main cache lock)"""
    os.makedirs(CACHE, exist_ok=True)
    lock = open(os.path.join(CACHE, "lock-driver"), "w")
    fcntl.flock(lock, fcntl.LOCK_EX)
    try:
        build_driver()
    finally:
        fcntl.flock(lock, fcntl.LOCK_UN)
        lock.close()


def tree_hash(repo=None):
    repo = repo or REPO
    h = hashlib.sha256()
    items = []
    for root, dirs, files in os.walk(os.path.join(repo, "src")):
        dirs.sort()
        for f in sorted(files):
            items.append(os.path.join(root, f))
    for f in ("Cargo.toml", "Cargo.lock", "build.rs"):
        p = os.path.join(repo, f)
        if os.path.exists(p):
            items.append(p)
    for p in items:
        h.update(os.path.relpath(p, repo).encode())
        h.update(b"\0")
        with open(p, "rb") as fh:
            h.update(fh.read())
        h.update(b"\0")
    with open(DRIVER, "rb") as fh:
        h.update(hashlib.sha256(fh.read()).digest())
    return h.hexdigest()[:24]


def run_driver(out_path, repo=None, target_dir=None):
    repo = repo or REPO
    target_dir = target_dir or os.path.join(CACHE, "target")
    os.makedirs(target_dir, exist_ok=True)
    # cargo's freshness cache would skip the wrapper: drop the member's fingerprints
    fp = os.path.join(target_dir, "debug", ".fingerprint")
    if os.path.isdir(fp):
        for d in os.listdir(fp):
            if d.startswith("totalmapper-"):
                shutil.rmtree(os.path.join(fp, d), ignore_errors=True)
    if os.path.exists(out_path):
        os.remove(out_path)
    env = dict(os.environ)
    env.update({
        "LD_LIBRARY_PATH": os.path.join(nightly_sysroot(), "lib") + ":" + env.get("LD_LIBRARY_PATH", ""),
        "RUSTFLAGS": "-Zmir-opt-level=0 -Awarnings",
        "RUSTC_WORKSPACE_WRAPPER": DRIVER,
        "CARGO_TARGET_DIR": target_dir,
        "CARGO_NET_OFFLINE": "true",
        "TM_OUT": out_path,
        "TM_CRATE": "totalmapper",
    })
    env.pop("RUSTC_WRAPPER", None)
    r = _sh("cargo +nightly check --offline --bin totalmapper", cwd=repo, env=env)
    if r.returncode != 0 or not os.path.exists(out_path):
        raise RuntimeError("tmfacts run failed (does /repo compile?):\n" + r.stdout[-6000:])
    return r.stdout


def ensure_facts(repo=None, verbose=False):
    """Returns (path_to_fact_file, info). Rebuilds when the tree changed."""
    repo = repo or REPO
    os.makedirs(CACHE, exist_ok=True)
    lock = open(os.path.join(CACHE, "lock"), "w")
    fcntl.flock(lock, fcntl.LOCK_EX)
    try:
        build_driver()
        key = tree_hash(repo)
        out = os.path.join(CACHE, "facts-%s.json" % key)
        info = {"tree_hash": key, "cached": True, "driver_s": 0.0}
        if not os.path.exists(out):
            t = time.time()
            tmp = out + ".tmp"
            run_driver(tmp, repo)
            os.replace(tmp, out)
            info["cached"] = False
            info["driver_s"] = round(time.time() - t, 2)
            # keep the cache small: drop older fact files
            olds = sorted((f for f in os.listdir(CACHE) if f.startswith("facts-") and f.endswith(".json")),
                          key=lambda f: os.path.getmtime(os.path.join(CACHE, f)))
            for f in olds[:-4]:
                try:
                    os.remove(os.path.join(CACHE, f))
                except OSError:
                    pass
        return out, info
    finally:
        fcntl.flock(lock, fcntl.LOCK_UN)
        lock.close()


class Facts:
    def __init__(self, data, info=None):
        self.data = data
        self.info = info or {}
        self.raw_bodies = {b["path"]: b for b in data["bodies"]}
        self._spliced_bodies = None
        self.adts = {a["path"]: a for a in data["adts"]}
        self.hir = {h["path"]: h for h in data["hir"]}
        self.layouts = {l["ty"]: l for l in data["layouts"]}
        self.files = data["files"]
        self._wrapped = {}

    @property
    def bodies(self):
        """function bodies by path.  While mir.Walker.AUTO_INLINE is on (the default), functions that do not exist on the
        pinned tree are spliced into their callers (tmv/splice.py); rule sets that inventory every function on its own
        switch it off and see the bodies as compiled."""
        from . import mir
        if not mir.Walker.AUTO_INLINE:
            return self.raw_bodies
        if self._spliced_bodies is None:
            from . import splice
            self._spliced_bodies = self.raw_bodies      # (while the pure predicates are being computed)
            saved = mir.Walker.AUTO_INLINE
            mir.Walker.AUTO_INLINE = False
            try:
                pure = getattr(self, "_pure_fns", None)
                if pure is None:
                    pure = mir._pure_local_predicates(self)
                    self._pure_fns = pure
            finally:
                mir.Walker.AUTO_INLINE = saved
            self._spliced_bodies = splice.splice_all(self.raw_bodies, pure)
            self._spliced_away = splice.spliced_away(self.raw_bodies, self._spliced_bodies)
        return self._spliced_bodies

    @property
    def spliced_away(self):
        """new helpers that exist only inside their callers now (see splice.spliced_away); empty while splicing is off"""
        from . import mir
        if not mir.Walker.AUTO_INLINE:
            return set()
        self.bodies
        return getattr(self, "_spliced_away", set())

    def __setstate__(self, st):
        self.__dict__.update(st)
        if "raw_bodies" not in self.__dict__ and "bodies" in st:
            self.raw_bodies = st["bodies"]
            self._spliced_bodies = None

    @staticmethod
    def load(repo=None):
        path, info = ensure_facts(repo)
        with open(path) as fh:
            data = json.load(fh)
        return Facts(data, info)

    def body_paths(self, prefix=None, suffix=None):
        return [p for p in self.bodies
                if (prefix is None or p.startswith(prefix)) and (suffix is None or p.endswith(suffix))]


if __name__ == "__main__":
    t = time.time()
    p, info = ensure_facts()
    print(p, info, round(time.time() - t, 2))
