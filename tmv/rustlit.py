"""Reading Rust string literals from macro call-site snippets (format!("...", args))."""
import re


def unescape_rust_str(body):
    """body: the characters between the quotes of a normal (non-raw) Rust string literal"""
    out = []
    i = 0
    n = len(body)
    while i < n:
        c = body[i]
        if c != "\\":
            out.append(c)
            i += 1
            continue
        i += 1
        if i >= n:
            break
        e = body[i]
        if e == "n":
            out.append("\n")
        elif e == "r":
            out.append("\r")
        elif e == "t":
            out.append("\t")
        elif e == "0":
            out.append("\0")
        elif e == "\\":
            out.append("\\")
        elif e == '"':
            out.append('"')
        elif e == "'":
            out.append("'")
        elif e == "x":
            out.append(chr(int(body[i + 1:i + 3], 16)))
            i += 2
        elif e == "u":
            j = body.index("}", i)
            out.append(chr(int(body[i + 2:j].replace("_", ""), 16)))
            i = j
        elif e == "\n":
            # line continuation: skip following whitespace
            i += 1
            while i < n and body[i] in " \t\n\r":
                i += 1
            continue
        else:
            out.append("\\" + e)
        i += 1
    return "".join(out)


def first_string_literal(snippet):
    """-> (decoded text, raw?) of the first string literal in a macro call snippet, or None"""
    m = re.search(r'r(#*)"', snippet)
    q = snippet.find('"')
    if m and m.start() < q:
        hashes = m.group(1)
        end = snippet.find('"' + hashes, m.end())
        if end < 0:
            return None
        return snippet[m.end():end]
    if q < 0:
        return None
    i = q + 1
    while i < len(snippet):
        if snippet[i] == "\\":
            i += 2
            continue
        if snippet[i] == '"':
            return unescape_rust_str(snippet[q + 1:i])
        i += 1
    return None


def format_templates(body, macro="format"):
    """decoded template strings of every format!-family call in a MIR body (from the call-site snippet
    exported with the span); -> list of (line, template)"""
    out = {}
    for blk in body.b["blocks"]:
        t = blk["term"]
        if t["k"] != "call":
            continue
        sp = t.get("span") or {}
        if not sp.get("exp") or "snippet" not in sp:
            continue
        name = t["callee"].get("path", "")
        if name.endswith("Arguments::<'a>::new") or name.endswith("Arguments::<'a>::from_str") or "fmt::format" in name or name.endswith("::from_str_nonconst"):
            sn = sp["snippet"]
            if not re.match(r"^\s*(%s)!\s*[\(\[\{]" % macro, sn):
                continue
            lit = first_string_literal(sn)
            if lit is not None:
                out[(sp["line"], sp.get("col", 0))] = lit
    return [(k[0], v) for k, v in sorted(out.items())]


def format_template_of(body, macro="format"):
    ts = format_templates(body, macro)
    if len({t for _, t in ts}) != 1:
        return None
    return ts[0][1]
