"""P8 — canonical forms of HIR subtrees for sibling agreement.

canon(node) turns an exported HIR subtree into a nested tuple in which
  * local bindings are alpha-renamed in order of first binding/use (so local names do not matter),
  * types, spans and ids are dropped, resolved item paths are kept (optionally mapped through a
    correspondence table for the names that are supposed to differ between the siblings),
  * logging noise is dropped: statements that are print!/println!/eprint!/eprintln! expansions and
    `if <bool parameter> { only noise }` statements,
  * DropTemps/parenthesisation do not exist in the export, `&`/`*` are kept (they are part of the term).
"""
from . import hirq

PRINTS = ("println", "eprintln", "print", "eprint")


class Canon:
    def __init__(self, rename=None, noise_params=()):
        self.env = {}
        self.rename = rename or {}
        self.noise_params = set(noise_params)   # binding ids of bool params that only guard logging

    def local(self, bid):
        if bid not in self.env:
            self.env[bid] = len(self.env)
        return ("L", self.env[bid])

    def path(self, p):
        return self.rename.get(p, p)

    # ---- noise
    def is_print(self, e):
        sp = e.get("span") or {}
        return any(m in PRINTS for m in (sp.get("macros") or []))

    def is_noise_expr(self, e):
        if e is None:
            return True
        k = e.get("k")
        if self.is_print(e):
            return True
        if k == "Block":
            return self.is_noise_block(e["b"])
        if k == "If":
            c = e["cond"]
            only_param = self._cond_only_noise_params(c)
            if only_param or self._all_noise(e):
                return self.is_noise_expr(e["then"]) and self.is_noise_expr(e.get("else"))
            return False
        if k == "Tup" and not e.get("es"):
            return True
        if k == "Match" and e.get("src") == "Normal":
            return False
        return False

    def _all_noise(self, e):
        return self.is_noise_expr(e["then"]) and (e.get("else") is None or self.is_noise_expr(e.get("else")))

    def _cond_only_noise_params(self, c):
        if c.get("k") == "Path" and c["res"].get("k") == "local" and c["res"]["id"] in self.noise_params:
            return True
        if c.get("k") == "Unary" and c.get("op") == "Not":
            return self._cond_only_noise_params(c["e"])
        return False

    def is_noise_block(self, b):
        for st in b["stmts"]:
            if st["k"] in ("Expr", "Semi"):
                if not self.is_noise_expr(st["e"]):
                    return False
            elif st["k"] == "Let":
                return False
        return b.get("expr") is None or self.is_noise_expr(b["expr"])

    # ---- canonical forms
    def pat(self, p):
        k = p["k"]
        if k == "Binding":
            return ("bind", self.local(p["id"]), p["mode"], self.pat(p["sub"]) if "sub" in p else None)
        if k in ("Wild", "Missing", "Never"):
            return (k,)
        if k == "Struct":
            return ("pstruct", self.path(p["res"].get("path", "")), tuple((f["name"], self.pat(f["pat"])) for f in p["fields"]))
        if k == "TupleStruct":
            return ("ptuplestruct", self.path(p["res"].get("path", "")), tuple(self.pat(x) for x in p["pats"]))
        if k in ("Or", "Tuple"):
            return (k, tuple(self.pat(x) for x in p["pats"]))
        if k in ("Deref", "Ref"):
            return (k, self.pat(p["pat"]))
        if k == "Expr":
            e = p["e"]
            if e["k"] == "Lit":
                return ("plit", _lit(e["lit"]), e.get("neg"))
            return ("ppath", self.path(e["res"].get("path", "")))
        if k == "Range":
            return ("prange", str(p.get("lo")), str(p.get("hi")), p.get("end"))
        if k == "Slice":
            return ("pslice", tuple(self.pat(x) for x in p["before"]), self.pat(p["mid"]) if "mid" in p else None, tuple(self.pat(x) for x in p["after"]))
        if k == "Guard":
            return ("pguard", self.pat(p["pat"]), self.expr(p["cond"]))
        return ("p?", k)

    def block(self, b):
        out = []
        for st in b["stmts"]:
            if st["k"] == "Let":
                init = self.expr(st["init"]) if "init" in st else None
                out.append(("let", self.pat(st["pat"]), init, self.block(st["els"]) if "els" in st else None))
            elif st["k"] in ("Expr", "Semi"):
                if self.is_noise_expr(st["e"]):
                    continue
                out.append(("stmt", self.expr(st["e"])))
        tail = None
        if b.get("expr") is not None and not self.is_noise_expr(b["expr"]):
            tail = self.expr(b["expr"])
        # a run of consecutive `x = <constant>` statements on distinct targets commutes: put it in a fixed order
        def const_reset(st):
            if st[0] != "stmt" or not (isinstance(st[1], tuple) and st[1] and st[1][0] == "assign"):
                return False
            rhs = st[1][2]
            return isinstance(rhs, tuple) and rhs and rhs[0] in ("lit", "item")
        i = 0
        while i < len(out):
            j = i
            while j < len(out) and const_reset(out[j]):
                j += 1
            if j - i > 1 and len({repr(x[1][1]) for x in out[i:j]}) == j - i:
                out[i:j] = sorted(out[i:j], key=repr)
            i = max(j, i + 1)
        return ("block", tuple(out), tail)

    def expr(self, e):
        k = e["k"]
        if k == "Path":
            r = e["res"]
            if r.get("k") == "local":
                return self.local(r["id"])
            return ("item", self.path(r.get("path", r.get("name", ""))))
        if k == "Lit":
            return ("lit", _lit(e["lit"]))
        if k == "MethodCall":
            return ("mcall", self.path(e.get("callee", e["name"])), self.expr(e["recv"]), tuple(self.expr(a) for a in e["args"]))
        if k == "Call":
            return ("call", self.expr(e["f"]), tuple(self.expr(a) for a in e["args"]))
        if k == "Block":
            b = self.block(e["b"])
            # a block that is just a tail expression is that expression
            if not b[1] and b[2] is not None:
                return b[2]
            return b
        if k == "If":
            return ("if", self.expr(e["cond"]), self.expr(e["then"]), self.expr(e["else"]) if e.get("else") is not None and not self.is_noise_expr(e["else"]) else None)
        if k == "LetExpr":
            return ("letexpr", self.expr(e["init"]), self.pat(e["pat"]))
        if k == "Match":
            scr = self.expr(e["scrut"])
            arms = tuple((self.pat(a["pat"]), self.expr(a["guard"]) if "guard" in a else None, self.expr(a["body"])) for a in e["arms"])
            src = e.get("src")
            if src == "Normal":
                src = None
            elif src and src.startswith("TryDesugar"):
                src = "TryDesugar"
            return ("match", src, scr, arms)
        if k == "Loop":
            return ("loop", e.get("src"), self.block(e["b"]))
        if k == "Closure":
            ps = tuple(self.pat(p) for p in e["params"])
            return ("closure", ps, self.expr(e["body"]))
        if k == "Field":
            return ("field", e["name"], self.expr(e["base"]))
        if k == "AddrOf":
            return ("ref", e.get("mut"), self.expr(e["e"]))
        if k == "Unary":
            return ("un", e["op"], self.expr(e["e"]))
        if k == "Binary":
            return ("bin", e["op"], self.expr(e["a"]), self.expr(e["b"]))
        if k == "Cast":
            return ("cast", self.expr(e["e"]), e.get("ty"))
        if k == "Index":
            return ("index", self.expr(e["base"]), self.expr(e["idx"]))
        if k == "Assign":
            return ("assign", self.expr(e["lhs"]), self.expr(e["rhs"]))
        if k == "AssignOp":
            return ("assignop", e["op"], self.expr(e["lhs"]), self.expr(e["rhs"]))
        if k == "Ret":
            return ("ret", self.expr(e["e"]) if "e" in e else None)
        if k == "Break":
            return ("break", self.expr(e["e"]) if "e" in e else None)
        if k == "Continue":
            return ("continue",)
        if k == "Struct":
            return ("struct", self.path(e["res"].get("path", "")), tuple(sorted((f["name"], self.expr(f["e"])) for f in e["fields"])),
                    self.expr(e["base"]) if "base" in e else None)
        if k in ("Tup", "Array"):
            return (k, tuple(self.expr(x) for x in e["es"]))
        if k == "Repeat":
            return ("repeat", self.expr(e["e"]))
        return ("?", k, e.get("dbg"))


def _lit(l):
    return (l["t"], l.get("v"))


def diff(a, b, path="", out=None, limit=4):
    """first few structural differences between two canonical forms (for reports)"""
    if out is None:
        out = []
    if len(out) >= limit:
        return out
    if a == b:
        return out
    if isinstance(a, tuple) and isinstance(b, tuple) and len(a) == len(b) and a and b and a[0] == b[0]:
        for i, (x, y) in enumerate(zip(a, b)):
            diff(x, y, path + "/" + (str(a[0]) if i == 0 else str(i)), out, limit)
        return out
    out.append("%s: %s  vs  %s" % (path, _short(a), _short(b)))
    return out


def _short(x):
    s = repr(x)
    return s if len(s) < 160 else s[:157] + "..."
