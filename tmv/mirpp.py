"""Pretty printer for exported MIR (debugging aid and used in violation reports)."""


def place_str(p):
    s = "_%d" % p["l"]
    for e in p["p"]:
        k = e["k"]
        if k == "deref":
            s = "(*%s)" % s
        elif k == "field":
            s = "%s.%s" % (s, e["name"] or e["i"])
        elif k == "downcast":
            s = "(%s as %s)" % (s, e["name"])
        elif k == "index":
            s = "%s[_%d]" % (s, e["local"])
        elif k == "constindex":
            s = "%s[%s%s]" % (s, "-" if e["from_end"] else "", e["offset"])
        else:
            s = s + ".?"
    return s


def op_str(o):
    if o["k"] in ("copy", "move"):
        return ("move " if o["k"] == "move" else "") + place_str(o["place"])
    if o["k"] == "const":
        c = o["c"]
        if "str" in c:
            return "const %r" % c["str"]
        return "const " + c["disp"]
    return "?"


def rv_str(rv):
    k = rv["k"]
    if k == "use":
        return op_str(rv["op"])
    if k == "ref":
        return ("&mut " if rv["mut"] else "&") + place_str(rv["place"])
    if k in ("rawptr", "copyderef"):
        return "%s %s" % (k, place_str(rv["place"]))
    if k == "discr":
        return "discriminant(%s)" % place_str(rv["place"])
    if k == "cast":
        return "%s as %s (%s)" % (op_str(rv["op"]), rv["ty"], rv["kind"])
    if k == "binop":
        return "%s(%s, %s)" % (rv["op"], op_str(rv["a"]), op_str(rv["b"]))
    if k == "unop":
        return "%s(%s)" % (rv["op"], op_str(rv["a"]))
    if k == "agg":
        if rv["agg"] == "adt":
            return "%s::%s {%s}" % (rv["adt"], rv["vname"], ", ".join(op_str(o) for o in rv["ops"]))
        if rv["agg"] == "closure":
            return "closure %s [%s]" % (rv["def"], ", ".join(op_str(o) for o in rv["ops"]))
        return "%s(%s)" % (rv["agg"], ", ".join(op_str(o) for o in rv["ops"]))
    return "rv?" + str(rv.get("dbg", ""))[:60]


def callee_name(t):
    c = t["callee"]
    return c.get("resolved") or c.get("path") or "indirect"


def term_str(t):
    k = t["k"]
    if k == "goto":
        return "goto bb%d" % t["t"]
    if k == "switch":
        return "switchInt(%s) -> [%s, otherwise: bb%d]" % (
            op_str(t["discr"]), ", ".join("%s: bb%d" % (v, b) for v, b in t["targets"]), t["otherwise"])
    if k == "call":
        return "%s = %s(%s) -> %s   @%d" % (
            place_str(t["dest"]), callee_name(t), ", ".join(op_str(a) for a in t["args"]),
            ("bb%d" % t["t"]) if "t" in t else "!", t["span"]["line"])
    if k == "assert":
        return "assert(%s == %s, %s) -> bb%d" % (op_str(t["cond"]), t["expected"], t["msg"][:40], t["t"])
    if k == "drop":
        return "drop(%s) -> bb%d" % (place_str(t["place"]), t["t"])
    return k


def dump_body(b, cleanup=False):
    out = ["fn %s  argc=%d" % (b["path"], b["argc"])]
    dbg = {}
    for d in b["debug"]:
        v = d["v"]
        if "l" in v:
            dbg.setdefault(place_str(v), []).append(d["name"])
    out.append("  debug: " + ", ".join("%s=%s" % (k, "/".join(v)) for k, v in dbg.items()))
    for blk in b["blocks"]:
        if blk["cleanup"] and not cleanup:
            continue
        out.append("  bb%d:%s" % (blk["i"], " (cleanup)" if blk["cleanup"] else ""))
        for st in blk["stmts"]:
            if st["k"] == "assign":
                out.append("    %s = %s   @%d" % (place_str(st["lhs"]), rv_str(st["rv"]), st["span"]["line"]))
            elif st["k"] == "setdiscr":
                out.append("    discriminant(%s) = %d" % (place_str(st["lhs"]), st["variant"]))
            else:
                out.append("    " + st.get("dbg", "?")[:80])
        out.append("    " + term_str(blk["term"]))
    return "\n".join(out)


if __name__ == "__main__":
    import sys
    from . import facts
    F = facts.Facts.load()
    for p in F.bodies:
        if any(p.endswith(s) or s in p for s in sys.argv[1:]):
            print(dump_body(F.bodies[p]))
            print()
