"""P6 — effect extraction for key_transforms.rs (the mapper).

Every path of every body of module key_transforms is turned into an ordered list of *effects* over the
State lists, with the guards that precede each effect on that path:

  EMIT(variant, key, vec)     push of Event::variant(key) onto an event vector
  ADD(list, key)              push of key onto a State list / local batch vector
  DEL(list, key)              removal: Vec::remove(list, i)  (key = list[i]),  or a `retain` closure path
                              returning false for the visited element
  RETAIN(list, closure)       expands to the closure's own paths (each with its effects and keep/remove verdict)
  APPEND(dst, src)            Vec::append / StepResult::append / extend: src flows into dst
  CALL(fn, args, result)      call of another key_transforms function
  STORE(place, value)         write to a State field (absorbing_trigger, repeating_trigger)
  MAPEMIT(batch, variant)     batch.iter().map(|k| Event::variant(*k)).collect()

State lists are identified by *field of State* through provenance terms, never by local names.
"""
from . import mir
from .mir import T, show, mentions, subterms, Walker, method_name
from .report import Unrecognised

MOD = "key_transforms::"
ABBR = {"input_pressed_keys": "IP", "active_mappings": "AM", "pass_through_keys": "PT", "mapped_output_keys": "MO",
        "mapped_absorbed_keys": "AB", "absorbing_trigger": "AT", "repeating_trigger": "RT"}
HELD = ("PT", "MO")
EVENT = "events::Event"


def state_fields(ctx):
    adt = ctx.adt("key_transforms::State")
    names = [f["name"] for f in adt["variants"][0]["fields"]]
    missing = [n for n in ABBR if n not in names]
    if missing:
        raise Unrecognised("State-field-missing:" + ",".join(missing))
    return names


def list_of(t):
    """'PT'/'MO'/… for a State field term, ('local', site) for a local vector, else None"""
    t = mir.strip(t)
    if isinstance(t, tuple) and t:
        if t[0] == "field" and t[2] in ABBR:
            return ABBR[t[2]]
        if t[0] == "call" and method_name(t[1]) in ("new", "with_capacity") and t[1].startswith("std::vec::Vec::<"):
            return ("local", t[3])
        if t[0] == "upvar":
            return None
    return None


def is_event_agg(t):
    return isinstance(t, tuple) and len(t) > 3 and t[0] == "agg" and t[1] == EVENT


class Eff:
    __slots__ = ("kind", "lst", "key", "aux", "ev", "pos", "sub")

    def __init__(self, kind, lst=None, key=None, aux=None, ev=None, pos=0, sub=None):
        self.kind = kind
        self.lst = lst
        self.key = key
        self.aux = aux
        self.ev = ev
        self.pos = pos
        self.sub = sub

    def __repr__(self):
        k = show(self.key)[:50] if isinstance(self.key, tuple) else self.key
        return "%s(%s%s%s)" % (self.kind, self.lst if self.lst is not None else "", ", " if self.lst is not None and k is not None else "", k if k is not None else "")


class PathFx:
    """effects + guards of one path"""

    def __init__(self, body, path, effects, tag, parent=None):
        self.body = body
        self.path = path
        self.effects = effects
        self.tag = tag
        self.parent = parent   # (PathFx of the enclosing body, RETAIN effect) for closure paths

    def guards_before(self, eff):
        out = []
        for i, e in enumerate(self.path.events):
            if eff is not None and i >= eff.pos:
                break
            if e.kind == "guard":
                out.append((e.a, e.b))
        return out

    def all_guards(self):
        return [(e.a, e.b) for e in self.path.events if e.kind == "guard"]

    def eq_classes(self):
        """terms made equal by `==` guards that are True on this path"""
        pairs = []
        for a, v in self.all_guards():
            if v is True and isinstance(a, tuple) and a[0] == "eq":
                pairs.append((mir.strip(a[1]), mir.strip(a[2])))
        return pairs

    def same_key(self, a, b):
        a, b = mir.strip(a), mir.strip(b)
        if a == b:
            return True
        cls = {a}
        changed = True
        pairs = self.eq_classes()
        while changed:
            changed = False
            for x, y in pairs:
                if x in cls and y not in cls:
                    cls.add(y)
                    changed = True
                if y in cls and x not in cls:
                    cls.add(x)
                    changed = True
        return b in cls

    def __repr__(self):
        return "PathFx(%s %s: %s)" % (self.body.path.rsplit("::", 1)[-1], self.tag, self.effects)


class KT:
    def __init__(self, ctx):
        self.ctx = ctx
        self.fields = state_fields(ctx)
        self.bodies = [b for b in ctx.bodies_with_prefix(MOD) if "::tests::" not in b.path]
        self.impl_bodies = [ctx.body(p) for p in sorted(ctx.F.bodies) if p.startswith("<key_transforms::") is False and False]
        # (a helper that does not exist on the pinned tree and has been spliced into every caller is analysed there, in
        # the context it runs in -- not as a function of its own)
        away = ctx.F.spliced_away
        self.bodies = [b for b in self.bodies if b.path.split("::{closure")[0] not in away]
        self.fn_bodies = [b for b in self.bodies if "{closure" not in b.path]
        self._fx = {}

    def fn(self, name):
        return self.ctx.body(MOD + name)

    # ---- path sets of a body: function walk + one walk per loop body
    def segments(self, body):
        segs = [("fn", mir.walk_function(body))]
        for h in sorted(body.loops()):
            segs.append(("L%d" % h, mir.walk_loop_only(body, h)))
        return segs

    def path_fx(self, body, upvar_map=None, param_map=None, parent=None):
        """all PathFx of a body (cached for top-level bodies)"""
        key = (body.path, None if upvar_map is None else id(upvar_map))
        if upvar_map is None and body.path in self._fx:
            return self._fx[body.path]
        out = []
        for tag, paths in self.segments(body):
            for p in paths:
                if p.outcome[0] in ("unreachable", "infeasible"):
                    continue
                out.append(self._one(body, p, tag, parent))
        if upvar_map is None:
            self._fx[body.path] = out
        return out

    def _one(self, body, p, tag, parent):
        effs = []
        fx = PathFx(body, p, effs, tag, parent)
        exited = []   # loops summarised on this path: effects in their break arms are analysed by the loop's own walk
        for pos, e in enumerate(p.events):
            if e.kind == "loopexit":
                exited.append(e.a)
                continue
            if exited and e.kind in ("call", "store") and any(body.is_break_arm(h, e.blk) for h in exited):
                continue
            if e.kind == "store":
                if isinstance(e.a, tuple) and e.a[0] == "field" and e.a[2] in ABBR:
                    effs.append(Eff("STORE", ABBR[e.a[2]], e.b, ev=e, pos=pos))
                continue
            if e.kind != "call":
                continue
            name = e.a
            m = method_name(name)
            args = e.b
            if name.startswith("std::vec::Vec::<") or name.startswith("<std::vec::Vec<"):
                recv = args[0] if args else None
                lst = list_of(recv) if recv is not None else None
                if m == "push" and len(args) == 2:
                    if is_event_agg(args[1]):
                        effs.append(Eff("EMIT", lst if lst is not None else show(recv)[:40], args[1][3][0], aux=args[1][2], ev=e, pos=pos))
                    else:
                        effs.append(Eff("ADD", lst if lst is not None else self._alias(recv), mir.strip(args[1]), ev=e, pos=pos))
                elif m == "remove" and len(args) == 2:
                    effs.append(Eff("DEL", lst if lst is not None else self._alias(recv), self.resolve_pos(T("index", mir.strip(recv), args[1])), aux=args[1], ev=e, pos=pos))
                elif m == "retain" and len(args) == 2:
                    sub = self._retain(body, fx, recv, args[1], e, pos)
                    effs.append(Eff("RETAIN", lst if lst is not None else self._alias(recv), None, aux=args[1], ev=e, pos=pos, sub=sub))
                elif m in ("append", "extend", "extend_from_slice") and len(args) == 2:
                    me = self._map_emit(args[1], e, pos) if m == "extend" else None
                    if me is not None:
                        effs.append(me)      # events.extend(batch.iter().map(|k| Released(*k))): the batch emitted into `events`
                    else:
                        effs.append(Eff("APPEND", lst if lst is not None else show(recv)[:40], args[1], aux=recv, ev=e, pos=pos))
                elif m in ("insert", "clear", "drain", "truncate", "swap_remove", "pop", "dedup", "sort", "reverse", "resize", "split_off", "retain_mut"):
                    effs.append(Eff("OTHERMUT:" + m, lst if lst is not None else self._alias(recv), None, ev=e, pos=pos))
            elif name == MOD + "StepResult::append":
                effs.append(Eff("APPEND", "stepresult", args[1], aux=args[0], ev=e, pos=pos))
            elif name.startswith(MOD) or name.startswith("<" + MOD):
                effs.append(Eff("CALL", None, name, aux=args, ev=e, pos=pos))
            elif m == "collect":
                src = args[0] if args else None
                if isinstance(src, tuple) and src[0] == "call" and method_name(src[1]) == "map":
                    it, clos = src[2]
                    if isinstance(clos, tuple) and clos[0] == "const" and isinstance(clos[1], tuple) and clos[1][0] == "fn" and clos[1][1].rsplit("::", 2)[-2:-1] == ["Event"]:
                        # .map(Released) / .map(Pressed): the variant constructor itself is the mapping function
                        base = it[1] if isinstance(it, tuple) and it[0] == "iter" else it
                        effs.append(Eff("MAPEMIT", list_of(base) if list_of(base) is not None else show(base)[:40],
                                        T("mapelem", it), aux=(clos[1][1].rsplit("::", 1)[-1], it, e.c), ev=e, pos=pos))
                        continue
                    if isinstance(clos, tuple) and clos[0] == "closure":
                        cps, cb = mir.walk_closure(self.ctx.body, clos, param_terms=[T("mapelem", it)])
                        rets = [q.outcome[1] for q in cps if q.outcome[0] == "return"]
                        if len(rets) == 1 and is_event_agg(rets[0]) and not any(ev2.kind == "guard" for ev2 in cps[0].events):
                            base = it[1] if isinstance(it, tuple) and it[0] == "iter" else it
                            effs.append(Eff("MAPEMIT", list_of(base) if list_of(base) is not None else show(base)[:40],
                                            rets[0][3][0], aux=(rets[0][2], it, e.c), ev=e, pos=pos))
                            continue
                effs.append(Eff("COLLECT", None, src, ev=e, pos=pos))
            elif m == "take" and name.startswith("std::mem::"):
                lst = list_of(args[0])
                effs.append(Eff("OTHERMUT:take", lst if lst is not None else self._alias(args[0]), None, ev=e, pos=pos))
        return fx

    def _map_emit(self, src, e, pos):
        """src = it.map(|k| Event::V(*k)) / it.map(Event::V)  ->  the MAPEMIT effect, else None"""
        src = mir.strip(src) if isinstance(src, tuple) else src
        if isinstance(src, tuple) and src and src[0] == "iter":
            src = src[1]
        if not (isinstance(src, tuple) and src and src[0] == "call" and method_name(src[1]) == "map" and len(src[2]) == 2):
            return None
        it, clos = src[2]
        base = it[1] if isinstance(it, tuple) and it[0] == "iter" else it
        lst = list_of(base) if list_of(base) is not None else show(base)[:40]
        if isinstance(clos, tuple) and clos[0] == "const" and isinstance(clos[1], tuple) and clos[1][0] == "fn" and clos[1][1].rsplit("::", 2)[-2:-1] == ["Event"]:
            return Eff("MAPEMIT", lst, T("mapelem", it), aux=(clos[1][1].rsplit("::", 1)[-1], it, None), ev=e, pos=pos)
        if isinstance(clos, tuple) and clos[0] == "closure":
            cps, cb = mir.walk_closure(self.ctx.body, clos, param_terms=[T("mapelem", it)])
            rets = [q.outcome[1] for q in cps if q.outcome[0] == "return"]
            if len(rets) == 1 and is_event_agg(rets[0]) and not any(ev2.kind == "guard" for ev2 in cps[0].events):
                return Eff("MAPEMIT", lst, rets[0][3][0], aux=(rets[0][2], it, None), ev=e, pos=pos)
        return None

    def resolve_pos(self, t):
        """L[ (L.iter().position(|x| *x == K) as Some).0 ]  is  K  (same for rposition): the element found by an
        equality search is the key searched for"""
        t0 = mir.strip(t)
        if not (isinstance(t0, tuple) and t0[0] == "index"):
            return t
        idx = t0[2]
        if not (isinstance(idx, tuple) and idx[0] == "field" and isinstance(idx[1], tuple) and idx[1][0] == "variant" and idx[1][2] == "Some"):
            return t
        c = idx[1][1]
        if not (isinstance(c, tuple) and c[0] == "call" and method_name(c[1]) in ("position", "rposition") and len(c[2]) == 2):
            return t
        it, clos = c[2]
        if not (isinstance(it, tuple) and it[0] == "iter" and mir.strip(it[1]) == mir.strip(t0[1]) and isinstance(clos, tuple) and clos[0] == "closure"):
            return t
        elem = T("poselem", it)
        try:
            cps, cb = mir.walk_closure(self.ctx.body, clos, param_terms=[elem])
        except Exception:
            return t
        rets = [q for q in cps if q.outcome[0] == "return"]
        if len(rets) != 1 or any(ev.kind in ("guard", "store", "call") and not (ev.kind == "call" and mir.method_name(ev.a) in ("eq", "ne")) for ev in rets[0].events):
            return t
        r = mir.strip(rets[0].outcome[1])
        if isinstance(r, tuple) and r[0] == "eq":
            a, b = mir.strip(r[1]), mir.strip(r[2])
            if a == elem and not mir.mentions(b, elem):
                return b
            if b == elem and not mir.mentions(a, elem):
                return a
        return t

    @staticmethod
    def _alias(t):
        t = mir.strip(t)
        if isinstance(t, tuple) and t and t[0] == "upvar":
            return ("upvar", t[1])
        return show(t)[:40]

    def _retain(self, body, fx, recv, clos, e, pos):
        """closure paths of a retain: list of (PathFx, verdict) with upvars/params substituted"""
        if not (isinstance(clos, tuple) and clos[0] == "closure"):
            return None
        elem = T("retelem", mir.strip(recv), e.blk)
        cps, cb = mir.walk_closure(self.ctx.body, clos, param_terms=[elem])
        out = []
        for q in cps:
            if q.outcome[0] != "return":
                out.append((self._one(cb, q, "closure", (fx, e)), "?"))
                continue
            r = q.outcome[1]
            ci = mir.const_int(r)
            sub = self._one(cb, q, "closure", (fx, e))
            if ci is not None:
                out.append((sub, "keep" if ci else "remove"))
            else:
                out.append((sub, ("expr", r)))
        return out


# --------------------------------------------------------------------------
# shared facts used by several mapper properties

MODIFIERS = {"LEFTSHIFT", "RIGHTSHIFT", "LEFTMETA", "RIGHTMETA", "LEFTCTRL", "RIGHTCTRL", "LEFTALT", "RIGHTALT"}


def bool_variant_table(ctx, path):
    """a fn(&KeyCode)->bool written as a match over variants: -> (set of variants mapped to True, set mapped to
    False, default) or None"""
    b = ctx.body(path)
    k = T("param", 1, b.dbg.get(1, ""))
    tset, fset, default = set(), set(), None
    for p in mir.walk_function(b):
        if p.outcome[0] != "return":
            continue
        v = mir.const_int(p.outcome[1])
        if v is None:
            return None
        gs = [(a, val) for a, val in p.guards()]
        if len(gs) != 1 or gs[0][0] != T("variantof", k):
            return None
        val = gs[0][1]
        if isinstance(val, str):
            (tset if v else fset).add(val)
        else:
            default = bool(v)
    return tset, fset, default


def constructs_event(body, variant):
    """blocks of `body` that build Event::<variant>"""
    out = []
    for i in body.live_blocks():
        for st in body.blocks[i]["stmts"]:
            if st["k"] == "assign" and st["rv"]["k"] == "agg" and st["rv"].get("adt") == EVENT and st["rv"].get("vname") == variant:
                out.append((i, st["span"]["line"]))
    return out


def may_press(ctx, roots):
    """functions in the cone of `roots` (module key_transforms) that construct Event::Pressed"""
    out = {}
    for p in sorted(ctx.cone(roots)):
        if not (p.startswith(MOD) or p.startswith("<" + MOD)):
            continue
        sites = constructs_event(ctx.body(p), "Pressed")
        if sites:
            out[p] = sites
    return out



def variant_set(events, subject, all_variants):
    """the variants `subject` can still have after the guards among `events` (match arms, matches!, if let ...)"""
    poss = set(all_variants)
    for e in events:
        if getattr(e, "kind", None) == "guard":
            a, v = e.a, e.b
        elif isinstance(e, tuple) and len(e) == 2:
            a, v = e
        else:
            continue
        if a != T("variantof", subject):
            continue
        if isinstance(v, str):
            poss &= {v}
        elif isinstance(v, tuple) and v and v[0] == "other":
            poss -= set(v[1])
    return poss
