"""Trait implementations the rules rest on.

Every membership atom (`xs.contains(&k)`, `a == b`, a `HashMap` look-up, `clone()` of a mapping) read by a rule is read
as structural equality / a faithful copy.  That is true of the derive output and of nothing else, so each check decides
it for the types its rules compare: every implementation of PartialEq / Eq / Hash / Clone / PartialOrd / Ord for such a
type is either produced by `#[derive]` (the body's span is a derive expansion) or is a hand-written implementation of
one of the recognised structural forms:

  eq     a conjunction of `self.f == other.f` over EVERY field (struct), or a comparison of the discriminants / of the
         values cast to an integer (field-less enum)
  clone  `*self`, or a struct literal of the same type with every field `self.f.clone()` / `self.f`
  hash   nothing but `Hash::hash` of fields / of the discriminant of `self` into the hasher (any subset of the fields
         keeps `a == b => hash(a) == hash(b)` when eq is structural)
  cmp    comparison of the values cast to an integer (field-less enum); partial_cmp = Some(self.cmp(other))

Anything else is reported (fail closed): the rules cannot tell what `contains` means any more.
"""
import re

from . import hirq

TRAITS = {
    "std::cmp::PartialEq": "eq",
    "std::cmp::Eq": "eq",
    "std::hash::Hash": "hash",
    "std::clone::Clone": "clone",
    "std::cmp::PartialOrd": "cmp",
    "std::cmp::Ord": "cmp",
    "std::borrow::Borrow": "borrow",
    "std::ops::Deref": "deref",
}
_IMPL = re.compile(r"^<(?P<ty>[^<>]+?)(?:<.*?>)? as (?P<tr>[\w:]+)(?:<.*>)?>::(?P<m>\w+)$")

KEY = ["key_codes::KeyCode"]
BASIC = KEY + ["keys::Mapping", "keys::Repeat", "keys::Layout", "events::Event"]
FANCY = ["fancy_keys::Layout", "fancy_keys::Mapping", "fancy_keys::AliasMapping", "fancy_keys::SingleMapping",
         "fancy_keys::RepeatOnlySingleMapping", "fancy_keys::RowMapping", "fancy_keys::SingleFromKeys",
         "fancy_keys::AliasFromKeys", "fancy_keys::RowFromKeys", "fancy_keys::Row", "fancy_keys::Modifier",
         "fancy_keys::SingleToKeys", "fancy_keys::AliasToKeys", "fancy_keys::RowToKeys",
         "fancy_keys::SingleTerminalToKey", "fancy_keys::SingleRepeat", "fancy_keys::RowRepeat",
         "fancy_layout_interpreting::FromSet"]

# which types each property's rules compare, hash or copy
TYPES = {
    "C01": BASIC, "C02": BASIC, "C03": BASIC, "C04": BASIC, "C05": BASIC, "C06": BASIC, "C07": BASIC, "C08": BASIC,
    "C09": BASIC, "C19": BASIC, "C11": BASIC, "C12": BASIC,
    "C10": ["events::Event", "key_codes::KeyCode"], "C18": ["events::Event", "key_codes::KeyCode"],
    "C13": BASIC + FANCY, "C14": BASIC + FANCY, "C15": BASIC + FANCY,
}


def impls(F, types):
    """[(type, trait, method, body path)] of the listed traits for the listed local types (incl. generic forms)"""
    out = []
    want = set(types)
    for p in F.raw_bodies:
        m = _IMPL.match(p)
        if not m:
            continue
        ty = m.group("ty").lstrip("&").strip()
        if ty in want and m.group("tr") in TRAITS:
            out.append((ty, m.group("tr"), m.group("m"), p))
    return sorted(out)


def is_derived(bodyfact):
    sp = bodyfact.get("span") or {}
    return bool(sp.get("exp")) and str(sp.get("macro", "")).startswith("Macro(Derive")


def _strip_block(e):
    while e is not None and e.get("k") == "Block" and not e["b"]["stmts"] and e["b"].get("expr") is not None:
        e = e["b"]["expr"]
    return e


def _conj(e):
    e = _strip_block(e)
    if e.get("k") == "Binary" and e.get("op") == "And":
        return _conj(e["a"]) + _conj(e["b"])
    return [e]


def _is_param(e, pid):
    e = hirq.strip_ref(_strip_block(e))
    return e.get("k") == "Path" and e["res"].get("k") == "local" and e["res"].get("id") == pid


def _field_of(e, pid):
    e = hirq.strip_ref(_strip_block(e))
    if e.get("k") == "Field" and _is_param(e["base"], pid):
        return e["name"]
    return None


def _discr_of(e, pid):
    """`discriminant(self)` or `*self as int`"""
    e = hirq.strip_ref(_strip_block(e))
    if e.get("k") == "Cast" and _is_param(e["e"], pid):
        return True
    if e.get("k") == "Call" and (hirq.callee_of(e) or "").endswith("mem::discriminant") and len(e["args"]) == 1 and _is_param(e["args"][0], pid):
        return True
    return False


def _adt_fields(adt):
    if adt.get("enum"):
        return None
    vs = adt.get("variants") or []
    if len(vs) != 1:
        return None
    return [f["name"] for f in vs[0]["fields"]]


def _fieldless_enum(adt):
    return bool(adt.get("enum")) and all(not v["fields"] for v in adt["variants"])


def recognise(F, ty, kind, method, hir, adt):
    """-> None when the hand-written implementation is one of the structural forms, else a reason"""
    ps = hir.get("params") or []
    ids = [p.get("id") for p in ps if p.get("k") == "Binding"]
    if len(ids) != len(ps) or not ids:
        return "parameters are patterns"
    body = _strip_block(hir["body"])
    fields = _adt_fields(adt)
    if kind == "eq":
        if method == "assert_fields_are_eq":
            return None
        if method != "eq" or len(ids) != 2:
            return "hand-written `%s`" % method
        if fields is not None:
            seen = set()
            for c in _conj(body):
                if not (c.get("k") == "Binary" and c.get("op") == "Eq"):
                    return "a conjunct that is not a field comparison"
                fa, fb = _field_of(c["a"], ids[0]), _field_of(c["b"], ids[1])
                if fa is None or fb is None:
                    fa, fb = _field_of(c["a"], ids[1]), _field_of(c["b"], ids[0])
                if fa is None or fa != fb:
                    return "a conjunct that does not compare one field of self with the same field of other"
                seen.add(fa)
            missing = [f for f in fields if f not in seen]
            return None if not missing else "field(s) not compared: " + ",".join(missing)
        if _fieldless_enum(adt):
            if body.get("k") == "Binary" and body.get("op") == "Eq" and (
                    (_discr_of(body["a"], ids[0]) and _discr_of(body["b"], ids[1])) or (_discr_of(body["a"], ids[1]) and _discr_of(body["b"], ids[0]))):
                return None
            return "not a comparison of the two discriminants"
        return "enum with payload compared by hand"
    if kind == "clone":
        if method != "clone":
            return "hand-written `%s`" % method
        if body.get("k") == "Unary" and body.get("op") == "Deref" and _is_param(body["e"], ids[0]):
            return None
        if body.get("k") == "Struct" and body["res"].get("path") == ty and "base" not in body and fields is not None:
            got = {}
            for f in body["fields"]:
                e = _strip_block(f["e"])
                if e.get("k") == "MethodCall" and (e.get("callee") or "").endswith("Clone::clone") and not e["args"]:
                    e = e["recv"]
                got[f["name"]] = _field_of(e, ids[0])
            bad = [f for f in fields if got.get(f) != f]
            return None if not bad else "field(s) not copied from the same field of self: " + ",".join(bad)
        return "not `*self` or a field-by-field copy"
    if kind == "hash":
        if method != "hash" or len(ids) != 2:
            return "hand-written `%s`" % method
        cs = [c for c in hirq.walk(hir["body"]) if c.get("k") in ("Call", "MethodCall")]
        n = 0
        for c in cs:
            cal = hirq.callee_of(c) or ""
            if cal.endswith("mem::discriminant"):
                continue
            if not cal.endswith("Hash::hash"):
                return "calls `%s`" % cal
            args = hirq.call_args(c)
            if len(args) != 2 or not _is_param(args[1], ids[1]):
                return "hashes into something that is not the hasher it was given"
            a = args[0]
            if not (_field_of(a, ids[0]) or _discr_of(a, ids[0]) or _is_param(a, ids[0])):
                return "hashes something that is not a field / the discriminant of self"
            n += 1
        for x in hirq.walk(hir["body"]):
            if x.get("k") in ("If", "Match", "Loop", "Lit"):
                return "control flow or literals in a hash implementation"
        return None
    if kind == "cmp":
        if method == "partial_cmp" and len(ids) == 2:
            if body.get("k") == "Call" and (hirq.callee_of(body) or "").endswith("Some") and len(body["args"]) == 1:
                inner = _strip_block(body["args"][0])
                if inner.get("k") == "MethodCall" and (inner.get("callee") or "").endswith("Ord::cmp") and _is_param(inner["recv"], ids[0]) and _is_param(inner["args"][0], ids[1]):
                    return None
            return "partial_cmp is not Some(self.cmp(other))"
        if method == "cmp" and len(ids) == 2 and _fieldless_enum(adt):
            if body.get("k") == "MethodCall" and (body.get("callee") or "").endswith("Ord::cmp") and _discr_of(body["recv"], ids[0]) and _discr_of(body["args"][0], ids[1]):
                return None
            return "cmp is not the comparison of the values cast to an integer"
        return "hand-written `%s`" % method
    return "hand-written %s" % kind


def require_structural(ctx, pid):
    """obligations `<pid>-TR`: one per implementation found"""
    if getattr(ctx, "no_premises", False):
        return
    types = TYPES.get(pid)
    if not types:
        return
    F = ctx.F
    ck = ctx.check
    bodies = F.raw_bodies
    n = 0
    nd = 0
    for ty, tr, m, p in impls(F, types):
        n += 1
        bf = bodies[p]
        label = "%s::%s for %s" % (tr.rsplit("::", 1)[1], m, ty)
        if is_derived(bf):
            nd += 1
            ck.ob(pid + "-TR", p, "structural:" + label, True, detail="derive output")
            continue
        why = None
        try:
            if p not in F.hir or ty not in F.adts:
                why = "no HIR / type facts for a hand-written implementation"
            else:
                why = recognise(F, ty, TRAITS[tr], m, F.hir[p], F.adts[ty])
        except Exception as e:      # a shape the recogniser does not know: fail closed
            why = "unreadable (%s)" % type(e).__name__
        sp = bf.get("span") or {}
        ck.ob(pid + "-TR", p, "structural:" + label, why is None, site="%s:%s" % (sp.get("file"), sp.get("line")),
              detail="hand-written and of a recognised structural form" if why is None else
              "hand-written %s: %s -- every rule that reads `==`, `contains`, a map look-up or `clone()` on this type reads it as structural" % (label, why))
    ck.analysed["trait_impls_examined"] = n
    ck.analysed["trait_impls_derived"] = nd
    # the comparisons exist at all (vacuity): KeyCode must be comparable
    if "key_codes::KeyCode" in types:
        ck.floor(pid + "-TR", "trait-impls-for-the-compared-types", n, 4)
