#![feature(rustc_private)]
extern crate rustc_abi;
extern crate rustc_ast;
extern crate rustc_driver;
extern crate rustc_hir;
extern crate rustc_interface;
extern crate rustc_middle;
extern crate rustc_span;

use rustc_driver::{Callbacks, Compilation};
use rustc_hir::def::DefKind;
use rustc_hir::def_id::{DefId, LOCAL_CRATE};
use rustc_interface::interface::Compiler;
use rustc_middle::mir::{
    AggregateKind, BasicBlock, Body, Const, ConstValue, Operand, Place, PlaceElem, Rvalue,
    StatementKind, TerminatorKind, VarDebugInfoContents,
};
use rustc_middle::ty::{self, Ty, TyCtxt};
use rustc_span::Span;

mod hirx;

// ---------- minimal JSON ----------
pub(crate) fn js(s: &str) -> String {
    let mut o = String::with_capacity(s.len() + 2);
    o.push('"');
    for c in s.chars() {
        match c {
            '"' => o.push_str("\\\""),
            '\\' => o.push_str("\\\\"),
            '\n' => o.push_str("\\n"),
            '\r' => o.push_str("\\r"),
            '\t' => o.push_str("\\t"),
            c if (c as u32) < 0x20 => o.push_str(&format!("\\u{:04x}", c as u32)),
            c => o.push(c),
        }
    }
    o.push('"');
    o
}
pub(crate) fn jarr(v: &[String]) -> String {
    format!("[{}]", v.join(","))
}
pub(crate) fn jobj(v: &[(&str, String)]) -> String {
    let parts: Vec<String> = v.iter().map(|(k, x)| format!("{}:{}", js(k), x)).collect();
    format!("{{{}}}", parts.join(","))
}

struct Cx<'tcx> {
    tcx: TyCtxt<'tcx>,
}

impl<'tcx> Cx<'tcx> {
    fn span(&self, sp: Span) -> String {
        let sm = self.tcx.sess.source_map();
        let root = sp.source_callsite();
        let lo = sm.lookup_char_pos(root.lo());
        let file = format!("{}", lo.file.name.prefer_local_unconditionally());
        let mut fields = vec![
            ("file", js(&file)),
            ("line", format!("{}", lo.line)),
            ("col", format!("{}", lo.col.0 + 1)),
            ("exp", format!("{}", sp.from_expansion())),
        ];
        if sp.from_expansion() {
            // outermost macro
            if let Some(last) = sp.macro_backtrace().last() {
                fields.push(("macro", js(&format!("{:?}", last.kind))));
                if let Ok(snip) = sm.span_to_snippet(last.call_site) {
                    if snip.len() < 4000 {
                        fields.push(("snippet", js(&snip)));
                    }
                }
            }
        }
        jobj(&fields)
    }

    fn generic_ok(&self, c: &Const<'tcx>) -> bool {
        use rustc_middle::ty::TypeVisitableExt;
        match c {
            Const::Unevaluated(u, t) => !u.args.has_non_region_param() && !t.has_non_region_param(),
            Const::Ty(t, k) => !t.has_non_region_param() && !k.has_non_region_param(),
            Const::Val(..) => true,
        }
    }

    fn ty(&self, t: Ty<'tcx>) -> String {
        js(&format!("{}", t))
    }

    fn place(&self, body: &Body<'tcx>, p: &Place<'tcx>) -> String {
        let mut projs: Vec<String> = Vec::new();
        let mut cur_ty = rustc_middle::mir::PlaceTy::from_ty(body.local_decls[p.local].ty);
        for elem in p.projection.iter() {
            let s = match elem {
                PlaceElem::Deref => jobj(&[("k", js("deref"))]),
                PlaceElem::Field(f, _) => {
                    // field name if ADT
                    let mut name = String::new();
                    if let ty::Adt(adt, _) = cur_ty.ty.kind() {
                        let vidx = cur_ty.variant_index.unwrap_or(rustc_abi::FIRST_VARIANT);
                        if adt.is_enum() || adt.is_struct() || adt.is_union() {
                            if let Some(v) = adt.variants().get(vidx) {
                                if let Some(fd) = v.fields.get(f) {
                                    name = fd.name.to_string();
                                }
                            }
                        }
                    }
                    jobj(&[("k", js("field")), ("i", format!("{}", f.as_usize())), ("name", js(&name))])
                }
                PlaceElem::Downcast(sym, v) => jobj(&[
                    ("k", js("downcast")),
                    ("variant", format!("{}", v.as_usize())),
                    ("name", js(&sym.map(|s| s.to_string()).unwrap_or_default())),
                ]),
                PlaceElem::Index(l) => jobj(&[("k", js("index")), ("local", format!("{}", l.as_usize()))]),
                PlaceElem::ConstantIndex { offset, from_end, .. } => jobj(&[
                    ("k", js("constindex")),
                    ("offset", format!("{}", offset)),
                    ("from_end", format!("{}", from_end)),
                ]),
                other => jobj(&[("k", js("other")), ("dbg", js(&format!("{:?}", other)))]),
            };
            projs.push(s);
            cur_ty = cur_ty.projection_ty(self.tcx, elem);
        }
        jobj(&[("l", format!("{}", p.local.as_usize())), ("p", jarr(&projs))])
    }

    fn konst(&self, c: &Const<'tcx>) -> String {
        let t = c.ty();
        let mut fields: Vec<(&str, String)> = vec![("ty", self.ty(t)), ("disp", js(&format!("{}", c)))];
        match t.kind() {
            ty::FnDef(did, args) => {
                fields.push(("fn", js(&self.tcx.def_path_str(*did))));
                fields.push(("args", js(&format!("{:?}", args))));
            }
            _ => {}
        }
        let evaluated: Option<ConstValue> = match c {
            Const::Val(cv, _) => Some(*cv),
            _ => {
                if self.generic_ok(c) {
                    c.eval(self.tcx, ty::TypingEnv::fully_monomorphized(), rustc_span::DUMMY_SP).ok()
                } else {
                    None
                }
            }
        };
        if let Some(cv) = &evaluated {
            match cv {
                ConstValue::Scalar(s) => {
                    if let Ok(int) = s.try_to_scalar_int() {
                        let size = int.size();
                        let bits = int.to_bits(size);
                        fields.push(("bits", js(&format!("{}", bits))));
                        fields.push(("size", format!("{}", size.bytes())));
                    }
                }
                ConstValue::ZeroSized => {
                    fields.push(("zst", "true".into()));
                }
                _ => {}
            }
            let is_slice_ty = match t.kind() { ty::Ref(_, inner, _) => inner.is_str() || matches!(inner.kind(), ty::Slice(e) if *e == self.tcx.types.u8), _ => false };
            if let (true, ConstValue::Slice { .. }) = (is_slice_ty, cv) { if let Some(bytes) = cv.try_get_slice_bytes_for_diagnostics(self.tcx) {
                let hex: String = bytes.iter().map(|b| format!("{:02x}", b)).collect();
                fields.push(("bytes", js(&hex)));
                if let Ok(s) = std::str::from_utf8(bytes) {
                    fields.push(("str", js(s)));
                }
            } }
        }
        jobj(&fields)
    }

    fn operand(&self, body: &Body<'tcx>, o: &Operand<'tcx>) -> String {
        match o {
            Operand::Copy(p) => jobj(&[("k", js("copy")), ("place", self.place(body, p))]),
            Operand::Move(p) => jobj(&[("k", js("move")), ("place", self.place(body, p))]),
            Operand::Constant(c) => jobj(&[("k", js("const")), ("c", self.konst(&c.const_))]),
            other => jobj(&[("k", js("other")), ("dbg", js(&format!("{:?}", other)))]),
        }
    }

    fn rvalue(&self, body: &Body<'tcx>, rv: &Rvalue<'tcx>) -> String {
        match rv {
            Rvalue::Use(o, _) => jobj(&[("k", js("use")), ("op", self.operand(body, o))]),
            Rvalue::Ref(_, bk, p) => jobj(&[
                ("k", js("ref")),
                ("mut", format!("{}", matches!(bk, rustc_middle::mir::BorrowKind::Mut { .. }))),
                ("place", self.place(body, p)),
            ]),
            Rvalue::RawPtr(_, p) => jobj(&[("k", js("rawptr")), ("place", self.place(body, p))]),
            Rvalue::CopyForDeref(p) => jobj(&[("k", js("copyderef")), ("place", self.place(body, p))]),
            Rvalue::Discriminant(p) => {
                let pty = p.ty(body, self.tcx).ty;
                let mut vnames: Vec<String> = Vec::new();
                if let ty::Adt(adt, _) = pty.kind() {
                    if adt.is_enum() {
                        for v in adt.variants().iter() {
                            vnames.push(js(&v.name.to_string()));
                        }
                    }
                }
                let mut discrs: Vec<String> = Vec::new();
                if let ty::Adt(adt, _) = pty.kind() {
                    if adt.is_enum() {
                        for (vidx, _) in adt.variants().iter_enumerated() {
                            discrs.push(js(&format!("{}", adt.discriminant_for_variant(self.tcx, vidx).val)));
                        }
                    }
                }
                jobj(&[
                    ("k", js("discr")),
                    ("place", self.place(body, p)),
                    ("ty", self.ty(pty)),
                    ("variants", jarr(&vnames)),
                    ("discrs", jarr(&discrs)),
                ])
            }
            Rvalue::Cast(kind, o, t) => jobj(&[
                ("k", js("cast")),
                ("kind", js(&format!("{:?}", kind))),
                ("op", self.operand(body, o)),
                ("ty", self.ty(*t)),
            ]),
            Rvalue::BinaryOp(op, ab) => jobj(&[
                ("k", js("binop")),
                ("op", js(&format!("{:?}", op))),
                ("a", self.operand(body, &ab.0)),
                ("b", self.operand(body, &ab.1)),
            ]),
            Rvalue::UnaryOp(op, o) => jobj(&[
                ("k", js("unop")),
                ("op", js(&format!("{:?}", op))),
                ("a", self.operand(body, o)),
            ]),
            Rvalue::Aggregate(kind, ops) => {
                let opsj: Vec<String> = ops.iter().map(|o| self.operand(body, o)).collect();
                let mut fields: Vec<(&str, String)> = vec![("k", js("agg")), ("ops", jarr(&opsj))];
                match &**kind {
                    AggregateKind::Adt(did, vidx, _, _, _) => {
                        let adt = self.tcx.adt_def(*did);
                        fields.push(("agg", js("adt")));
                        fields.push(("adt", js(&self.tcx.def_path_str(*did))));
                        fields.push(("variant", format!("{}", vidx.as_usize())));
                        fields.push(("vname", js(&adt.variant(*vidx).name.to_string())));
                        let fnames: Vec<String> =
                            adt.variant(*vidx).fields.iter().map(|f| js(&f.name.to_string())).collect();
                        fields.push(("fnames", jarr(&fnames)));
                    }
                    AggregateKind::Closure(did, _) => {
                        fields.push(("agg", js("closure")));
                        fields.push(("def", js(&self.tcx.def_path_str(*did))));
                    }
                    AggregateKind::Tuple => fields.push(("agg", js("tuple"))),
                    AggregateKind::Array(_) => fields.push(("agg", js("array"))),
                    other => {
                        fields.push(("agg", js("other")));
                        fields.push(("dbg", js(&format!("{:?}", other))));
                    }
                }
                jobj(&fields)
            }
            other => jobj(&[("k", js("other")), ("dbg", js(&format!("{:?}", other)))]),
        }
    }

    fn callee(&self, body_did: DefId, func: &Operand<'tcx>) -> String {
        if let Operand::Constant(c) = func {
            if let ty::FnDef(did, args) = c.const_.ty().kind() {
                let mut fields: Vec<(&str, String)> = vec![
                    ("path", js(&self.tcx.def_path_str(*did))),
                    ("args", js(&format!("{:?}", args))),
                    ("local", format!("{}", did.is_local())),
                ];
                // trait item?
                if let Some(tr) = self.tcx.trait_of_assoc(*did) {
                    fields.push(("trait", js(&self.tcx.def_path_str(tr))));
                }
                let env = ty::TypingEnv::post_analysis(self.tcx, body_did);
                if let Ok(Some(inst)) = ty::Instance::try_resolve(self.tcx, env, *did, args) {
                    let rdid = inst.def_id();
                    fields.push(("resolved", js(&self.tcx.def_path_str(rdid))));
                    fields.push(("resolved_local", format!("{}", rdid.is_local())));
                }
                return jobj(&fields);
            }
        }
        jobj(&[("indirect", js(&format!("{:?}", func)))])
    }

    fn body(&self, did: DefId) -> String {
        let tcx = self.tcx;
        let body = tcx.optimized_mir(did);
        self.body_of(did, body, tcx.def_path_str(did))
    }

    fn body_of(&self, did: DefId, body: &Body<'tcx>, path: String) -> String {
        let tcx = self.tcx;
        let mut locals: Vec<String> = Vec::new();
        for (l, d) in body.local_decls.iter_enumerated() {
            locals.push(jobj(&[
                ("i", format!("{}", l.as_usize())),
                ("ty", self.ty(d.ty)),
            ]));
        }
        let mut dbg: Vec<String> = Vec::new();
        for v in &body.var_debug_info {
            let val = match &v.value {
                VarDebugInfoContents::Place(p) => self.place(body, p),
                VarDebugInfoContents::Const(c) => jobj(&[("const", self.konst(&c.const_))]),
            };
            dbg.push(jobj(&[("name", js(&v.name.to_string())), ("v", val)]));
        }
        let mut blocks: Vec<String> = Vec::new();
        for (bb, data) in body.basic_blocks.iter_enumerated() {
            let mut stmts: Vec<String> = Vec::new();
            for st in &data.statements {
                match &st.kind {
                    StatementKind::Assign(b) => {
                        let (p, rv) = &**b;
                        stmts.push(jobj(&[
                            ("k", js("assign")),
                            ("lhs", self.place(body, p)),
                            ("rv", self.rvalue(body, rv)),
                            ("span", self.span(st.source_info.span)),
                        ]));
                    }
                    StatementKind::SetDiscriminant { place, variant_index } => {
                        stmts.push(jobj(&[
                            ("k", js("setdiscr")),
                            ("lhs", self.place(body, place)),
                            ("variant", format!("{}", variant_index.as_usize())),
                        ]));
                    }
                    StatementKind::StorageLive(_) | StatementKind::StorageDead(_) | StatementKind::Nop => {}
                    other => {
                        stmts.push(jobj(&[("k", js("other")), ("dbg", js(&format!("{:?}", other)))]));
                    }
                }
            }
            let term = data.terminator();
            let bbi = |b: &BasicBlock| format!("{}", b.as_usize());
            let t = match &term.kind {
                TerminatorKind::Goto { target } => jobj(&[("k", js("goto")), ("t", bbi(target))]),
                TerminatorKind::SwitchInt { discr, targets } => {
                    let ts: Vec<String> =
                        targets.iter().map(|(v, b)| format!("[{},{}]", js(&format!("{}", v)), bbi(&b))).collect();
                    jobj(&[
                        ("k", js("switch")),
                        ("discr", self.operand(body, discr)),
                        ("targets", jarr(&ts)),
                        ("otherwise", bbi(&targets.otherwise())),
                    ])
                }
                TerminatorKind::Return => jobj(&[("k", js("return"))]),
                TerminatorKind::Unreachable => jobj(&[("k", js("unreachable"))]),
                TerminatorKind::Drop { place, target, .. } => {
                    jobj(&[("k", js("drop")), ("place", self.place(body, place)), ("t", bbi(target))])
                }
                TerminatorKind::Call { func, args, destination, target, .. } => {
                    let argsj: Vec<String> = args.iter().map(|a| self.operand(body, &a.node)).collect();
                    let argtys: Vec<String> = args.iter().map(|a| self.ty(a.node.ty(body, self.tcx))).collect();
                    let mut f: Vec<(&str, String)> = vec![
                        ("k", js("call")),
                        ("callee", self.callee(did, func)),
                        ("args", jarr(&argsj)),
                        ("argtys", jarr(&argtys)),
                        ("dest", self.place(body, destination)),
                        ("span", self.span(term.source_info.span)),
                    ];
                    if let Some(t) = target {
                        f.push(("t", bbi(t)));
                    }
                    jobj(&f)
                }
                TerminatorKind::Assert { cond, expected, msg, target, .. } => jobj(&[
                    ("k", js("assert")),
                    ("cond", self.operand(body, cond)),
                    ("expected", format!("{}", expected)),
                    ("msg", js(&format!("{:?}", msg))),
                    ("t", bbi(target)),
                    ("span", self.span(term.source_info.span)),
                ]),
                TerminatorKind::UnwindResume | TerminatorKind::UnwindTerminate(_) => jobj(&[("k", js("unwind"))]),
                other => jobj(&[("k", js("other")), ("dbg", js(&format!("{:?}", other)))]),
            };
            blocks.push(jobj(&[
                ("i", format!("{}", bb.as_usize())),
                ("cleanup", format!("{}", data.is_cleanup)),
                ("stmts", jarr(&stmts)),
                ("term", t),
            ]));
        }
        let parent = if tcx.is_closure_like(did) {
            js(&tcx.def_path_str(tcx.typeck_root_def_id(did)))
        } else {
            "null".to_string()
        };
        jobj(&[
            ("path", js(&path)),
            ("kind", js(&format!("{:?}", tcx.def_kind(did)))),
            ("parent", parent),
            ("argc", format!("{}", body.arg_count)),
            ("span", self.span(body.span)),
            ("locals", jarr(&locals)),
            ("debug", jarr(&dbg)),
            ("blocks", jarr(&blocks)),
        ])
    }
}

fn attr_snips<'tcx>(tcx: TyCtxt<'tcx>, did: DefId) -> Vec<String> {
    let mut v = Vec::new();
    if let Some(l) = did.as_local() {
        let h = tcx.local_def_id_to_hir_id(l);
        let sm = tcx.sess.source_map();
        for a in tcx.hir_attrs(h) {
            match a {
                rustc_hir::Attribute::Unparsed(item) => {
                    if let Ok(s) = sm.span_to_snippet(item.span) {
                        v.push(js(&s));
                    }
                }
                rustc_hir::Attribute::Parsed(p) => {
                    let d = format!("{:?}", p);
                    let short: String = d.chars().take(200).collect();
                    v.push(js(&format!("parsed:{}", short)));
                }
            }
        }
    }
    v
}

struct Cb;

impl Callbacks for Cb {
    fn after_analysis<'tcx>(&mut self, _c: &Compiler, tcx: TyCtxt<'tcx>) -> Compilation {
        let crate_name = tcx.crate_name(LOCAL_CRATE).to_string();
        let want = std::env::var("TM_CRATE").unwrap_or_else(|_| "totalmapper".into());
        if crate_name != want {
            return Compilation::Continue;
        }
        let cx = Cx { tcx };
        let mut bodies: Vec<String> = Vec::new();
        for ldid in tcx.mir_keys(()) {
            let did = ldid.to_def_id();
            let kind = tcx.def_kind(did);
            if !matches!(kind, DefKind::Fn | DefKind::AssocFn | DefKind::Closure) {
                continue;
            }
            bodies.push(cx.body(did));
            // promoted constants (`&CONST_EXPR` temporaries) as tiny bodies of their own
            for (pi, pb) in tcx.promoted_mir(did).iter_enumerated() {
                let pp = format!("{}::promoted[{}]", tcx.def_path_str(did), pi.as_usize());
                bodies.push(cx.body_of(did, pb, pp));
            }
        }
        // ADTs
        let mut adts: Vec<String> = Vec::new();
        for id in tcx.hir_free_items() {
            let did = id.owner_id.to_def_id();
            if matches!(tcx.def_kind(did), DefKind::Struct | DefKind::Enum) {
                let adt = tcx.adt_def(did);
                let mut vars: Vec<String> = Vec::new();
                for (vidx, v) in adt.variants().iter_enumerated() {
                    let discr = if adt.is_enum() {
                        format!("{}", adt.discriminant_for_variant(tcx, vidx).val)
                    } else {
                        "0".into()
                    };
                    let fs: Vec<String> = v
                        .fields
                        .iter()
                        .map(|f| {
                            jobj(&[
                                ("name", js(&f.name.to_string())),
                                ("ty", js(&format!("{}", tcx.type_of(f.did).instantiate_identity().skip_norm_wip()))),
                            ])
                        })
                        .collect();
                    let vattrs: Vec<String> = if adt.is_enum() {
                        attr_snips(tcx, v.def_id)
                    } else {
                        Vec::new()
                    };
                    vars.push(jobj(&[
                        ("attrs", jarr(&vattrs)),
                        ("name", js(&v.name.to_string())),
                        ("idx", format!("{}", vidx.as_usize())),
                        ("discr", js(&discr)),
                        ("fields", jarr(&fs)),
                    ]));
                }
                adts.push(jobj(&[
                    ("attrs", jarr(&attr_snips(tcx, did))),
                    ("path", js(&tcx.def_path_str(did))),
                    ("enum", format!("{}", adt.is_enum())),
                    ("variants", jarr(&vars)),
                ]));
            }
        }
        // HIR of every fn-like body owner (closures are exported in place)
        let mut hirs: Vec<String> = Vec::new();
        for ldid in tcx.hir_body_owners() {
            let did = ldid.to_def_id();
            if !matches!(tcx.def_kind(did), DefKind::Fn | DefKind::AssocFn) {
                continue;
            }
            let body = tcx.hir_body_owned_by(ldid);
            let tr = tcx.typeck(ldid);
            let hx = hirx::Hx { tcx, tr };
            let params: Vec<String> = body.params.iter().map(|p| hx.pat(p.pat)).collect();
            hirs.push(jobj(&[
                ("path", js(&tcx.def_path_str(did))),
                ("params", jarr(&params)),
                ("body", hx.expr(body.value)),
            ]));
        }
        // layouts of monomorphic foreign ADTs mentioned in local bodies (e.g. libc::input_event)
        let mut layouts: Vec<String> = Vec::new();
        {
            let mut seen: std::collections::BTreeSet<String> = Default::default();
            let mut tys: Vec<Ty<'tcx>> = Vec::new();
            for ldid in tcx.mir_keys(()) {
                let did = ldid.to_def_id();
                if !matches!(tcx.def_kind(did), DefKind::Fn | DefKind::AssocFn | DefKind::Closure) {
                    continue;
                }
                let body = tcx.optimized_mir(did);
                let mut consider = |t: Ty<'tcx>| {
                    use rustc_middle::ty::TypeVisitableExt;
                    if let ty::Adt(adt, _) = t.kind() {
                        if adt.is_struct() && !t.has_non_region_param() && !t.has_escaping_bound_vars() {
                            let name = format!("{}", t);
                            if (name.starts_with("libc::") || adt.did().is_local()) && seen.insert(name) {
                                tys.push(t);
                            }
                        }
                    }
                };
                for d in body.local_decls.iter() {
                    consider(d.ty);
                }
                for data in body.basic_blocks.iter() {
                    if let TerminatorKind::Call { func, .. } = &data.terminator().kind {
                        if let Operand::Constant(c) = func {
                            if let ty::FnDef(_, args) = c.const_.ty().kind() {
                                for a in args.iter() {
                                    if let Some(t) = a.as_type() {
                                        consider(t);
                                    }
                                }
                            }
                        }
                    }
                }
            }
            for t in tys {
                let env = ty::TypingEnv::fully_monomorphized();
                let t = tcx.erase_and_anonymize_regions(t);
                if let Ok(lay) = tcx.layout_of(env.as_query_input(t)) {
                    let mut fields: Vec<String> = Vec::new();
                    if let ty::Adt(adt, args) = t.kind() {
                        for (i, fd) in adt.non_enum_variant().fields.iter().enumerate() {
                            let fty = fd.ty(tcx, args);
                            let fsize = tcx.layout_of(env.as_query_input(tcx.erase_and_anonymize_regions(fty))).map(|l| l.size.bytes()).unwrap_or(0);
                            fields.push(jobj(&[
                                ("name", js(&fd.name.to_string())),
                                ("ty", js(&format!("{}", fty))),
                                ("offset", format!("{}", lay.fields.offset(i).bytes())),
                                ("size", format!("{}", fsize)),
                            ]));
                        }
                    }
                    layouts.push(jobj(&[
                        ("ty", js(&format!("{}", t))),
                        ("size", format!("{}", lay.size.bytes())),
                        ("align", format!("{}", lay.align.abi.bytes())),
                        ("fields", jarr(&fields)),
                    ]));
                }
            }
        }
        // source files of the local crate
        let mut files: Vec<String> = Vec::new();
        for f in tcx.sess.source_map().files().iter() {
            if f.cnum == LOCAL_CRATE {
                let n = format!("{}", f.name.prefer_local_unconditionally());
                if !n.starts_with('<') {
                    files.push(js(&n));
                }
            }
        }
        let out = jobj(&[
            ("crate", js(&crate_name)),
            ("bodies", jarr(&bodies)),
            ("adts", jarr(&adts)),
            ("hir", jarr(&hirs)),
            ("layouts", jarr(&layouts)),
            ("files", jarr(&files)),
        ]);
        let p = std::env::var("TM_OUT").unwrap_or_else(|_| "/tmp/scratch/facts.json".into());
        std::fs::write(&p, out).unwrap();
        Compilation::Continue
    }
}

fn main() {
    let args: Vec<String> = std::env::args().collect();
    let mut full = vec!["rustc".to_string()];
    full.extend(args.into_iter().skip(2));
    rustc_driver::run_compiler(&full, &mut Cb);
}
