// HIR exporter: a typed tree per body owner, with typeck-resolved callees.
use crate::{jarr, jobj, js};
use rustc_hir as hir;
use rustc_hir::def::Res;
use rustc_middle::ty::{TyCtxt, TypeckResults};
use rustc_span::Span;

pub struct Hx<'tcx> {
    pub tcx: TyCtxt<'tcx>,
    pub tr: &'tcx TypeckResults<'tcx>,
}

fn hid(h: hir::HirId) -> String {
    format!("{}.{}", h.owner.def_id.local_def_index.as_usize(), h.local_id.as_usize())
}

impl<'tcx> Hx<'tcx> {
    fn span(&self, sp: Span) -> String {
        let sm = self.tcx.sess.source_map();
        let root = sp.source_callsite();
        let lo = sm.lookup_char_pos(root.lo());
        let mut fields = vec![("line", format!("{}", lo.line)), ("col", format!("{}", lo.col.0 + 1))];
        if sp.from_expansion() {
            fields.push(("exp", "true".into()));
            let bt: Vec<String> = sp
                .macro_backtrace()
                .map(|d| js(&format!("{}", d.kind.descr())))
                .collect();
            let names: Vec<String> = sp
                .macro_backtrace()
                .map(|d| match d.kind {
                    rustc_span::ExpnKind::Macro(_, name) => js(&name.to_string()),
                    other => js(&format!("{:?}", other)),
                })
                .collect();
            fields.push(("macros", jarr(&names)));
            let _ = bt;
        }
        jobj(&fields)
    }

    fn res(&self, r: Res) -> String {
        match r {
            Res::Local(h) => jobj(&[("k", js("local")), ("id", js(&hid(h))), ("name", js(&self.tcx.hir_name(h).to_string()))]),
            Res::Def(kind, did) => jobj(&[
                ("k", js("def")),
                ("kind", js(&format!("{:?}", kind))),
                ("path", js(&self.tcx.def_path_str(did))),
                ("local", format!("{}", did.is_local())),
            ]),
            Res::SelfCtor(did) | Res::SelfTyAlias { alias_to: did, .. } => {
                jobj(&[("k", js("self")), ("path", js(&self.tcx.def_path_str(did)))])
            }
            Res::PrimTy(p) => jobj(&[("k", js("prim")), ("name", js(p.name_str()))]),
            other => jobj(&[("k", js("other")), ("dbg", js(&format!("{:?}", other)))]),
        }
    }

    fn lit(&self, l: &hir::Lit) -> String {
        use rustc_ast::ast::LitKind::*;
        match &l.node {
            Str(s, _) => jobj(&[("t", js("str")), ("v", js(s.as_str()))]),
            ByteStr(b, _) | CStr(b, _) => {
                let hex: String = b.as_byte_str().iter().map(|x| format!("{:02x}", x)).collect();
                jobj(&[("t", js("bytes")), ("v", js(&hex))])
            }
            Byte(b) => jobj(&[("t", js("byte")), ("v", format!("{}", b))]),
            Char(c) => jobj(&[("t", js("char")), ("v", format!("{}", *c as u32)), ("s", js(&c.to_string()))]),
            Int(v, _) => jobj(&[("t", js("int")), ("v", js(&format!("{}", v.get())))]),
            Float(s, _) => jobj(&[("t", js("float")), ("v", js(s.as_str()))]),
            Bool(b) => jobj(&[("t", js("bool")), ("v", format!("{}", b))]),
            Err(_) => jobj(&[("t", js("err"))]),
        }
    }

    fn patexpr(&self, p: &'tcx hir::PatExpr<'tcx>) -> String {
        match &p.kind {
            hir::PatExprKind::Lit { lit, negated } => {
                jobj(&[("k", js("Lit")), ("lit", self.lit(lit)), ("neg", format!("{}", negated))])
            }
            hir::PatExprKind::Path(qp) => {
                jobj(&[("k", js("Path")), ("res", self.res(self.tr.qpath_res(qp, p.hir_id)))])
            }
        }
    }

    pub fn pat(&self, p: &'tcx hir::Pat<'tcx>) -> String {
        use hir::PatKind::*;
        let ty = self.tr.node_type_opt(p.hir_id).map(|t| format!("{}", t)).unwrap_or_default();
        let mut f: Vec<(&str, String)> = Vec::new();
        match &p.kind {
            Wild => f.push(("k", js("Wild"))),
            Missing => f.push(("k", js("Missing"))),
            Never => f.push(("k", js("Never"))),
            Binding(mode, id, ident, sub) => {
                f.push(("k", js("Binding")));
                f.push(("id", js(&hid(*id))));
                f.push(("name", js(&ident.name.to_string())));
                f.push(("mode", js(&format!("{:?}", mode))));
                if let Some(s) = sub {
                    f.push(("sub", self.pat(s)));
                }
            }
            Struct(qp, fields, _) => {
                f.push(("k", js("Struct")));
                f.push(("res", self.res(self.tr.qpath_res(qp, p.hir_id))));
                let fs: Vec<String> = fields
                    .iter()
                    .map(|pf| jobj(&[("name", js(&pf.ident.name.to_string())), ("pat", self.pat(pf.pat))]))
                    .collect();
                f.push(("fields", jarr(&fs)));
            }
            TupleStruct(qp, pats, _) => {
                f.push(("k", js("TupleStruct")));
                f.push(("res", self.res(self.tr.qpath_res(qp, p.hir_id))));
                let ps: Vec<String> = pats.iter().map(|x| self.pat(x)).collect();
                f.push(("pats", jarr(&ps)));
            }
            Or(pats) => {
                f.push(("k", js("Or")));
                let ps: Vec<String> = pats.iter().map(|x| self.pat(x)).collect();
                f.push(("pats", jarr(&ps)));
            }
            Tuple(pats, _) => {
                f.push(("k", js("Tuple")));
                let ps: Vec<String> = pats.iter().map(|x| self.pat(x)).collect();
                f.push(("pats", jarr(&ps)));
            }
            Box(x) | Deref(x) => {
                f.push(("k", js("Deref")));
                f.push(("pat", self.pat(x)));
            }
            Ref(x, _, m) => {
                f.push(("k", js("Ref")));
                f.push(("mut", format!("{}", m.is_mut())));
                f.push(("pat", self.pat(x)));
            }
            Expr(e) => {
                f.push(("k", js("Expr")));
                f.push(("e", self.patexpr(e)));
            }
            Guard(x, e) => {
                f.push(("k", js("Guard")));
                f.push(("pat", self.pat(x)));
                f.push(("cond", self.expr(e)));
            }
            Range(a, b, end) => {
                f.push(("k", js("Range")));
                if let Some(a) = a {
                    f.push(("lo", self.patexpr(a)));
                }
                if let Some(b) = b {
                    f.push(("hi", self.patexpr(b)));
                }
                f.push(("end", js(&format!("{:?}", end))));
            }
            Slice(a, m, b) => {
                f.push(("k", js("Slice")));
                let pa: Vec<String> = a.iter().map(|x| self.pat(x)).collect();
                let pb: Vec<String> = b.iter().map(|x| self.pat(x)).collect();
                f.push(("before", jarr(&pa)));
                if let Some(m) = m {
                    f.push(("mid", self.pat(m)));
                }
                f.push(("after", jarr(&pb)));
            }
            Err(_) => f.push(("k", js("Err"))),
        }
        f.push(("ty", js(&ty)));
        jobj(&f)
    }

    fn block(&self, b: &'tcx hir::Block<'tcx>) -> String {
        let mut stmts: Vec<String> = Vec::new();
        for st in b.stmts {
            match &st.kind {
                hir::StmtKind::Let(l) => {
                    let mut f: Vec<(&str, String)> = vec![("k", js("Let")), ("pat", self.pat(l.pat)), ("span", self.span(st.span))];
                    if let Some(i) = l.init {
                        f.push(("init", self.expr(i)));
                    }
                    if let Some(e) = l.els {
                        f.push(("els", self.block(e)));
                    }
                    stmts.push(jobj(&f));
                }
                hir::StmtKind::Expr(x) => stmts.push(jobj(&[("k", js("Expr")), ("e", self.expr(x)), ("span", self.span(st.span))])),
                hir::StmtKind::Semi(x) => stmts.push(jobj(&[("k", js("Semi")), ("e", self.expr(x)), ("span", self.span(st.span))])),
                hir::StmtKind::Item(_) => stmts.push(jobj(&[("k", js("Item"))])),
            }
        }
        let mut f: Vec<(&str, String)> = vec![("stmts", jarr(&stmts))];
        if let Some(x) = b.expr {
            f.push(("expr", self.expr(x)));
        }
        jobj(&f)
    }

    pub fn expr(&self, e: &'tcx hir::Expr<'tcx>) -> String {
        use hir::ExprKind::*;
        if let DropTemps(x) = &e.kind {
            return self.expr(x);
        }
        let ty = self.tr.expr_ty_opt(e).map(|t| format!("{}", t)).unwrap_or_default();
        let mut f: Vec<(&str, String)> = Vec::new();
        match &e.kind {
            MethodCall(seg, recv, args, _) => {
                f.push(("k", js("MethodCall")));
                f.push(("name", js(&seg.ident.name.to_string())));
                let did = self.tr.type_dependent_def_id(e.hir_id);
                f.push(("callee", js(&did.map(|d| self.tcx.def_path_str(d)).unwrap_or_default())));
                f.push(("recv_ty", js(&format!("{}", self.tr.expr_ty_adjusted(recv)))));
                f.push(("recv", self.expr(recv)));
                let a: Vec<String> = args.iter().map(|x| self.expr(x)).collect();
                f.push(("args", jarr(&a)));
            }
            Call(func, args) => {
                f.push(("k", js("Call")));
                f.push(("f", self.expr(func)));
                let a: Vec<String> = args.iter().map(|x| self.expr(x)).collect();
                f.push(("args", jarr(&a)));
            }
            Path(qp) => {
                f.push(("k", js("Path")));
                f.push(("res", self.res(self.tr.qpath_res(qp, e.hir_id))));
            }
            Block(b, _) => {
                f.push(("k", js("Block")));
                f.push(("b", self.block(b)));
            }
            If(c, t, el) => {
                f.push(("k", js("If")));
                f.push(("cond", self.expr(c)));
                f.push(("then", self.expr(t)));
                if let Some(x) = el {
                    f.push(("else", self.expr(x)));
                }
            }
            Let(l) => {
                f.push(("k", js("LetExpr")));
                f.push(("pat", self.pat(l.pat)));
                f.push(("init", self.expr(l.init)));
            }
            Match(s, arms, src) => {
                f.push(("k", js("Match")));
                f.push(("src", js(&format!("{:?}", src))));
                f.push(("scrut", self.expr(s)));
                let a: Vec<String> = arms
                    .iter()
                    .map(|a| {
                        let mut g: Vec<(&str, String)> = vec![("pat", self.pat(a.pat)), ("body", self.expr(a.body))];
                        if let Some(gd) = a.guard {
                            g.push(("guard", self.expr(gd)));
                        }
                        jobj(&g)
                    })
                    .collect();
                f.push(("arms", jarr(&a)));
            }
            Loop(b, _, src, _) => {
                f.push(("k", js("Loop")));
                f.push(("src", js(&format!("{:?}", src))));
                f.push(("b", self.block(b)));
            }
            Closure(c) => {
                f.push(("k", js("Closure")));
                f.push(("def", js(&self.tcx.def_path_str(c.def_id.to_def_id()))));
                let body = self.tcx.hir_body(c.body);
                let ps: Vec<String> = body.params.iter().map(|p| self.pat(p.pat)).collect();
                f.push(("params", jarr(&ps)));
                f.push(("body", self.expr(body.value)));
            }
            Field(b, id) => {
                f.push(("k", js("Field")));
                f.push(("name", js(&id.name.to_string())));
                f.push(("base", self.expr(b)));
            }
            AddrOf(_, m, x) => {
                f.push(("k", js("AddrOf")));
                f.push(("mut", format!("{}", m.is_mut())));
                f.push(("e", self.expr(x)));
            }
            Unary(op, x) => {
                f.push(("k", js("Unary")));
                f.push(("op", js(&format!("{:?}", op))));
                f.push(("e", self.expr(x)));
                if let Some(d) = self.tr.type_dependent_def_id(e.hir_id) {
                    f.push(("callee", js(&self.tcx.def_path_str(d))));
                }
            }
            Binary(op, a, b) => {
                f.push(("k", js("Binary")));
                f.push(("op", js(&format!("{:?}", op.node))));
                f.push(("a", self.expr(a)));
                f.push(("b", self.expr(b)));
                if let Some(d) = self.tr.type_dependent_def_id(e.hir_id) {
                    f.push(("callee", js(&self.tcx.def_path_str(d))));
                }
            }
            Lit(l) => {
                f.push(("k", js("Lit")));
                f.push(("lit", self.lit(l)));
            }
            Cast(x, _) => {
                f.push(("k", js("Cast")));
                f.push(("e", self.expr(x)));
            }
            Type(x, _) | Use(x, _) => {
                return self.expr(x);
            }
            Index(a, b, _) => {
                f.push(("k", js("Index")));
                f.push(("base", self.expr(a)));
                f.push(("idx", self.expr(b)));
                f.push(("base_ty", js(&format!("{}", self.tr.expr_ty_adjusted(a)))));
            }
            Assign(a, b, _) => {
                f.push(("k", js("Assign")));
                f.push(("lhs", self.expr(a)));
                f.push(("rhs", self.expr(b)));
            }
            AssignOp(op, a, b) => {
                f.push(("k", js("AssignOp")));
                f.push(("op", js(&format!("{:?}", op.node))));
                f.push(("lhs", self.expr(a)));
                f.push(("rhs", self.expr(b)));
            }
            Ret(x) => {
                f.push(("k", js("Ret")));
                if let Some(x) = x {
                    f.push(("e", self.expr(x)));
                }
            }
            Break(dest, x) => {
                f.push(("k", js("Break")));
                if let Ok(t) = dest.target_id {
                    f.push(("target", js(&hid(t))));
                }
                if let Some(x) = x {
                    f.push(("e", self.expr(x)));
                }
            }
            Continue(dest) => {
                f.push(("k", js("Continue")));
                if let Ok(t) = dest.target_id {
                    f.push(("target", js(&hid(t))));
                }
            }
            Struct(qp, fields, tail) => {
                f.push(("k", js("Struct")));
                f.push(("res", self.res(self.tr.qpath_res(qp, e.hir_id))));
                let fs: Vec<String> = fields
                    .iter()
                    .map(|x| jobj(&[("name", js(&x.ident.name.to_string())), ("e", self.expr(x.expr))]))
                    .collect();
                f.push(("fields", jarr(&fs)));
                if let hir::StructTailExpr::Base(b) = tail {
                    f.push(("base", self.expr(b)));
                }
            }
            Tup(xs) => {
                f.push(("k", js("Tup")));
                let a: Vec<String> = xs.iter().map(|x| self.expr(x)).collect();
                f.push(("es", jarr(&a)));
            }
            Array(xs) => {
                f.push(("k", js("Array")));
                let a: Vec<String> = xs.iter().map(|x| self.expr(x)).collect();
                f.push(("es", jarr(&a)));
            }
            Repeat(x, _) => {
                f.push(("k", js("Repeat")));
                f.push(("e", self.expr(x)));
            }
            other => {
                f.push(("k", js("Other")));
                f.push(("dbg", js(&format!("{:?}", std::mem::discriminant(other)))));
            }
        }
        f.push(("id", js(&hid(e.hir_id))));
        f.push(("ty", js(&ty)));
        f.push(("span", self.span(e.span)));
        jobj(&f)
    }
}
